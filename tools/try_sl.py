import ast, sys
sys.path.insert(0, "/verif")
from cv.kvc import slexec as S, discharge
SRC = open("/repo/src/catii/iindexes.py").read()
MUTS = {
 "orig": None,
 "bucket-by-first": ("buckets[coords[-1]][coords[:-1]] = rowids", "buckets[coords[0]][coords[:-1]] = rowids"),
 "coords-order": ("(coord,) + base_coords", "base_coords + (coord,)"),
 "common-zero": ("iindex(subentries, self.common, subshape)", "iindex(subentries, 0, subshape)"),
 "shape-axis1": ("for coord in range(self.shape[-1])", "for coord in range(self.shape[1])"),
 "label-plus1": ("(coord,) + base_coords", "(coord + 1,) + base_coords"),
 "no-base": ("(coord,) + base_coords", "(coord,)"),
 "subshape-full": ("subshape = self.shape[:-1]", "subshape = self.shape"),
}
if __name__ == "__main__":
    i = SRC.index("    def slices1d")
    for name, m in MUTS.items():
        src = SRC
        if m:
            assert m[0] in SRC[i:], name
            src = SRC[:i] + SRC[i:].replace(m[0], m[1], 1)
        try:
            obls = S.verify_slices1d(ast.parse(src))
            res = discharge.discharge(obls)
            bad = [r.name.split("slices1d/")[1] + ":" + r.verdict for r in res if not r.discharged]
            print(name, len(res), "FAILED" if bad else "all discharged", bad[:3])
        except S.Unsupported as e:
            print(name, "UNSUPPORTED", e)
