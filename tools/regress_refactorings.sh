#!/usr/bin/env bash
# Run, for every kept behaviour-preserving change, the checks of the properties its files serve: all must exit 0.
cd "$(dirname "$0")/.."
for d in ${@:-refactorings/*}; do
  cs=$(python3 - "$d" <<'PY'
import sys
t = open(sys.argv[1] + "/patch.diff").read()
m = {"set_operations.pyx": "C08 C09 C14 C02", "iindexes.py": "C01 C05 C06 C07 C13 C15 C17", "ccubes.py": "C02 C05 C13 C14 C16 C17 C20",
     "ffuncs.py": "C02 C03 C04 C05 C17", "indxio.py": "C10 C11 C12", "xcubes.py": "C03 C13 C16 C17 C20", "xfuncs.py": "C03 C04 C16 C17 C18"}
out = []
for f, cs in m.items():
    if ("/" + f) in t:
        out += [c for c in cs.split() if c not in out]
print(" ".join(out))
PY
)
  EVAL_PAR=${EVAL_PAR:-3} timeout 10000 .venv/bin/python tools/eval_refactor.py $d $cs 2>&1 | grep "^{" | cut -c1-700
done
