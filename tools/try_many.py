import sys, time
from cv import env
from cv.kvc import norm, manyexec, discharge
from contracts import kernels as K

def main():
    which = sys.argv[1] if len(sys.argv) > 1 else "SAFETY_MANY"
    n = norm.normalise(env.read_source("set_operations.pyx"))
    c = getattr(K, which)["set_union_merge_many"]
    ex = manyexec.ManyExec(n, "set_union_merge_many", c)
    obls = ex.run()
    t = time.time(); res = discharge.discharge(obls)
    bad = [r for r in res if not r.discharged]
    print(which, len(obls), 'obls', len(bad), 'undischarged', 'wall %.1fs' % (time.time() - t), 'max %.1fs' % max(r.seconds for r in res))
    for r in sorted(res, key=lambda r: -r.seconds)[:5]: print('   slow', r.name, r.verdict, '%.1f' % r.seconds)
    for r in bad: print('  ', r.name, r.verdict, r.backend, ex.sites.get(r.name, ''))

if __name__ == '__main__':
    main()
