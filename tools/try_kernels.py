import sys, time
from cv.kvc import norm, kexec, discharge, spec
from contracts import kernels as K

def main():
    which = sys.argv[1] if len(sys.argv) > 1 else "SAFETY"
    src = open(sys.argv[2] if len(sys.argv) > 2 else '/repo/src/catii/set_operations.pyx').read()
    n = norm.normalise(src)
    table = getattr(K, which)
    for name in table:
        ex = kexec.KernelExec(n, name, table[name], callees=K.CALLEES); obls = ex.run()
        t = time.time(); res = discharge.discharge(obls)
        bad = [r for r in res if not r.discharged]
        print(name, which, len(obls), 'obls', len(bad), 'undischarged', 'wall %.1fs' % (time.time() - t), 'solver %.1fs' % sum(r.seconds for r in res), 'max %.1fs' % max(r.seconds for r in res))
        for r in sorted(res,key=lambda r:-r.seconds)[:6]: print('    slow:',r.name,r.verdict,r.backend,'%.1f'%r.seconds, r.detail[:100])
        for r in bad:
            print('   ', r.name, r.verdict, r.backend, ex.sites.get(r.name, ''), {k: v for k, v in (r.model or {}).items() if k.startswith('len_')})

if __name__ == '__main__':
    main()
