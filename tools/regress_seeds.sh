#!/usr/bin/env bash
# Re-evaluate every kept seeded change against the check of its own property (first of caught_by_checks); prints one JSON line per seed.
# usage: tools/regress_seeds.sh [parallelism] [seed dirs...]
cd "$(dirname "$0")/.."
par=${1:-3}; shift
dirs=${@:-seeded/*}
for d in $dirs; do
  c=$(python3 -c "import json,sys; m=json.load(open('$d/meta.json')); print(' '.join(m.get('caught_by_checks') or [m['property']])[:3])" 2>/dev/null | tail -1)
  echo "$d $c"
done | xargs -P $par -L 1 bash -c 'timeout 5400 .venv/bin/python tools/eval_seeded.py $0 $1 2>&1 | grep "^{" | cut -c1-420'
