"""Confirm a seeded change and run the checks against it.
usage: eval_seeded.py <dir with patch.diff/demo.py/meta.json> [check ids...]
Creates a scratch copy of /repo's tree (tracked files of src/ + setup.py), applies the patch, confirms the
demonstration (exit 0 unchanged / exit 1 changed; rebuilding the extension when the .pyx changed), runs the
named checks (default: the property in meta.json) with CATII_REPO=<scratch>, prints a summary line, removes the scratch."""
import json, os, shutil, subprocess, sys, tempfile
src = os.path.abspath(sys.argv[1].rstrip("/"))
meta = json.load(open(os.path.join(src, "meta.json")))
checks = sys.argv[2:] or [meta["property"]]
tmp = tempfile.mkdtemp(prefix="seedeval-")
try:
    shutil.copytree("/repo/src", tmp + "/src", ignore=shutil.ignore_patterns("*.egg-info", "__pycache__"))
    shutil.copy("/repo/setup.py", tmp)
    shutil.copy("/repo/README.md", tmp)
    env = dict(os.environ, PYTHONPATH=tmp + "/src", PYTHONWARNINGS="ignore")
    def demo():
        r = subprocess.run(["/venv/bin/python", os.path.join(src, "demo.py")], cwd=tmp, env=env, capture_output=True, text=True, timeout=600)
        return r.returncode, (r.stdout + r.stderr)[-300:]
    base_rc, _ = demo()
    r = subprocess.run(["patch", "-p1", "--fuzz=3", "-i", os.path.abspath(os.path.join(src, "patch.diff"))], cwd=tmp, capture_output=True, text=True)
    if r.returncode != 0:
        print("PATCH-FAILED", src, r.stdout[-300:]); sys.exit(2)
    pyx = "set_operations.pyx" in open(os.path.join(src, "patch.diff")).read()
    if pyx:
        b = subprocess.run(["/venv/bin/python", "setup.py", "build_ext", "--inplace"], cwd=tmp, env=dict(env, CYTHONIZE_SETUP_PY="1"), capture_output=True, text=True)
        if b.returncode != 0:
            print("BUILD-FAILED", src, b.stderr[-300:]); sys.exit(2)
    ch_rc, ch_out = demo()
    res = {}
    for c in checks:
        k = subprocess.run(["/verif/check", c], env=dict(os.environ, CATII_REPO=tmp, CV_EVIDENCE_DIR=tmp + "/evidence", CV_REPLAY_DIR=tmp + "/replays"), capture_output=True, text=True, timeout=3600)
        obs = sorted({l.split("obligation:")[1].strip() for l in (k.stdout + k.stderr).splitlines() if "obligation:" in l})
        res[c] = {"exit": k.returncode, "violations": (k.stdout).count("VIOLATION property="), "obligations": obs[:6]}
    print(json.dumps({"seed": os.path.basename(src), "property": meta["property"], "demo_unchanged": base_rc, "demo_changed": ch_rc, "checks": res}))
finally:
    shutil.rmtree(tmp, ignore_errors=True)
