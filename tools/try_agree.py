import sys
sys.path.insert(0, "/verif")
from cv.kvc import cell_check as C
out, stale, fns = C.generate_agree()
print(len(out), "obligations; stale:", stale)
for o in out:
    if o[1] != "unsat":
        print(o[0], o[1], o[3])
