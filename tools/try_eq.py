import ast
from cv import env
from cv.kvc import eqlemma as E
tree = ast.parse(env.read_source("iindexes.py"))
print("setxor1d probe", E.probe_setxor1d())
print(E.translate_eq(E._method(tree, "__eq__")))
res, stale = E.run(tree)
for r in res: print(r[0], r[1], "%.2fs" % r[2], r[3][:80].replace("\n", " ") if r[1] != "unsat" else "")
print("stale", stale)
