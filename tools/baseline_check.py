"""Run the repository's suite and compare with BASELINE.json's stable_pass list.
usage: python tools/baseline_check.py [repo_dir]"""
import json, subprocess, sys, tempfile, os, xml.etree.ElementTree as ET
repo = sys.argv[1] if len(sys.argv) > 1 else "/repo"
base = json.load(open("/root/.vp/BASELINE.json"))
want = set(base["stable_pass"])
with tempfile.TemporaryDirectory() as td:
    x = os.path.join(td, "j.xml")
    subprocess.run(["/venv/bin/python", "-m", "pytest", "-q", "-p", "no:cacheprovider", "--timeout=900",
                    "--continue-on-collection-errors", "--junitxml=" + x], cwd=repo, stdout=subprocess.DEVNULL, stderr=subprocess.DEVNULL)
    passed = set(); failed = set()
    for tc in ET.parse(x).getroot().iter("testcase"):
        tid = "%s::%s" % (tc.get("classname"), tc.get("name"))
        if any(ch.tag in ("failure", "error") for ch in tc): failed.add(tid)
        elif any(ch.tag == "skipped" for ch in tc): pass
        else: passed.add(tid)
missing = sorted(want - passed)
print("stable_pass: %d, passing now: %d of them; total passed %d, failed %d" % (len(want), len(want & passed), len(passed), len(failed)))
for m in missing[:20]: print("  NOT PASSING:", m)
sys.exit(1 if missing else 0)
