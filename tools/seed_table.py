"""Regenerate the seed x check table in DESIGN.md (between the SEED-TABLE markers) from seeded/*/meta.json."""
import json, glob, os, re
rows = []
for d in sorted(glob.glob("/verif/seeded/*")):
    m = json.load(open(os.path.join(d, "meta.json")))
    rows.append("| %s | %s | %s | %s | %s |" % (os.path.basename(d), m.get("breaks_property", m.get("property")), (m.get("summary") or "")[:110].replace("|", "/"),
                                            ", ".join(m.get("caught_by_checks", [])), (m.get("failing_obligations") or "")[:120].replace("|", "/")))
table = "| seed | breaks | change (author's summary) | caught by | failing obligations (first ones) |\n|---|---|---|---|---|\n" + "\n".join(rows)
p = "/verif/DESIGN.md"; s = open(p).read()
a, b = "<!-- SEED-TABLE-BEGIN -->", "<!-- SEED-TABLE-END -->"
if a not in s:
    s = s.replace("### 12.7 What stays assumed", "### 12.6b Every seeded change and the check that reports it\n\n%s\n%s\n\n### 12.7 What stays assumed" % (a, b))
s = s[:s.index(a) + len(a)] + "\n" + table + "\n" + s[s.index(b):]
open(p, "w").write(s)
print(len(rows), "seeds tabulated")
