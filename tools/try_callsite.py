import ast, sys
from cv import env
from cv.kvc import callsite as C
tree = ast.parse(env.read_source("iindexes.py"))
for name in ("to_array", "collapsed"):
    try:
        obls = C.analyse(tree, name, None)
    except C.Unsupported as e:
        print(name, "UNSUPPORTED", e); continue
    for nm, hyps, goal, meta in obls:
        r, model = C.solve(hyps, goal)
        print(r, nm, meta["statement"], meta["source"], model if r != "unsat" else "")
