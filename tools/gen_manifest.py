"""Regenerate MANIFEST.json from the table below (kept in one place so it stays valid)."""
import json, os, sys
HERE = os.path.dirname(os.path.dirname(os.path.abspath(__file__)))
props = [json.loads(l) for l in open(os.path.join(HERE, "properties.jsonl"))]
from manifest_table import CHECKS, NOT_APPLICABLE, ENGINES, NOTES  # noqa

checks = []
for pid, c in CHECKS.items():
    checks.append({
        "property_id": pid,
        "quick_cmd": "./check %s --tier quick" % pid,
        "thorough_cmd": "./check %s --tier thorough" % pid,
        "evidence_file": "evidence/%s.json" % pid,
        "replay_cmd_template": "./check %s --replay {path}" % pid,
        "engine": c["engine"],
        "level_claimed": {"category": c["category"], "text": c["text"], "design_ref": c["design_ref"]},
        "level_note": c["note"],
        "technique": c["technique"],
    })
claimed = set(CHECKS)
na = [{"property_id": p["id"], "reason": NOT_APPLICABLE.get(p["id"], "check not built yet in this round (see DESIGN.md build order)")}
      for p in props if p["id"] not in claimed]
m = {
    "version": 1,
    "setup_cmd": "./setup.sh",
    "hooks": {"guard": "CATII_VERIF", "enable": "no source hooks are needed: contracts are sidecars under /verif/contracts and wrappers are installed after import of a scratch copy of the working tree",
              "baseline_off_cmd": "cd /repo && /venv/bin/python -m pytest -q -p no:cacheprovider --timeout=900 --continue-on-collection-errors",
              "source_commits": [], "add_only": True},
    "engines": ENGINES,
    "checks": checks,
    "notes": NOTES,
    "not_applicable": na,
}
json.dump(m, open(os.path.join(HERE, "MANIFEST.json"), "w"), indent=1)
import jsonschema
jsonschema.validate(m, json.load(open("/root/.vp/MANIFEST.schema.json")))
print("MANIFEST.json written:", len(checks), "checks,", len(na), "not_applicable")
