import ast, sys, time
from cv.kvc import indxexec as X, discharge
from cv.kvc import pyexec

def main():
    path = sys.argv[1] if len(sys.argv) > 1 else '/repo/src/catii/indxio.py'
    tree = ast.parse(open(path).read())
    fn = pyexec.get_function(tree, 'IndxIO.save')
    sym = X.Sym()
    obls = sym.lemma_step_obligations('indxio.IndxIO')
    for nzero in (True, False):
        ex = X.run_save(fn, sym, nzero)
        obls += ex.obls
        print('case nzero', nzero, 'writes', [w for w,_,_ in ex.log])
    fnl = pyexec.get_function(tree, 'IndxIO.load')
    for torn in (False, True):
        sym2 = X.Sym()
        ex = X.run_load(fnl, sym2, torn)
        for o in ex.obls: o.name = o.name + ('[torn]' if torn else '')
        obls += ex.obls
        print('load torn', torn, 'outcomes', [k for k,_ in ex.outcomes])
    t = time.time(); res = discharge.discharge(obls)
    bad = [r for r in res if not r.discharged]
    print(len(obls), 'obls', len(bad), 'undischarged', 'wall %.1fs' % (time.time() - t))
    for r in bad:
        print('  ', r.name, r.verdict, r.ob.meta.get('site',''), {k: v for k, v in (r.model or {}).items() if not isinstance(v, dict)})

if __name__ == '__main__':
    main()
