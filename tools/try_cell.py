from cv.kvc import cell_check
out, stale, fns = cell_check.generate()
print(len(out), 'obligations;', sum(1 for o in out if o[1]=='unsat'), 'discharged; stale', stale)
for o in out:
    if o[1] != 'unsat': print(o[0], o[1], {k:v for k,v in (o[3] or {}).items() if k in ('V','M','Wv','S')})
