import ast, sys, time
from cv import env
from cv.kvc import updexec as U, discharge
from contracts import kernels as K

def main():
    src = env.read_source("iindexes.py"); tree = ast.parse(src)
    obls = U.verify_set_if(U.find_method(tree, "set_if"))
    for name, kind in (("union_update", "union"), ("intersection_update", "intersection"), ("difference_update", "difference")):
        obls += U.verify_update(U.find_method(tree, name), kind, K.WRAPPERS)
    t = time.time(); res = discharge.discharge(obls)
    bad = [r for r in res if not r.discharged]
    print(len(obls), 'obls', len(bad), 'undischarged', 'wall %.1fs' % (time.time() - t), 'max %.1fs' % max(r.seconds for r in res))
    for r in bad: print('  ', r.name, r.verdict, r.backend)

if __name__ == '__main__':
    main()
