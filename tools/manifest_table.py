ENGINES = [
    {"name": "kvc", "path": "cv/kvc", "serves_properties": ["C08", "C09"],
     "kind_free_text": "verification-condition generator over the AST of the working tree's source (normalised .pyx / .py), sidecar contracts, z3 + cvc5 discharge, counter-model replay on the real build"},
]
NOTES = "Contract-based deductive verification; see DESIGN.md. Exit codes: 0 held, 1 VIOLATION, 2 undecided (solver instability on an unchanged obligation), 3 checker broken."
NOT_APPLICABLE = {}
CHECKS = {
    "C08": dict(
        engine="kvc", category="proof", design_ref="DESIGN.md §2, §6 C08",
        technique="deductive verification: loop-invariant VCs generated from the real kernel source, discharged by z3/cvc5",
        text="Every obligation generated from the current set_operations.pyx (loop invariants initial/preserved, postconditions of the three two-way merge kernels and of the None-convention wrappers, call-site preconditions) is discharged for all array lengths and contents with no bound; a failed obligation is replayed on the real compiled kernel (counter-model or small-scope witness search).",
        note="Trusted: Cython codegen/gcc/NumPy internals, the .pyx normaliser (cross-checked against Cython's parser every run), NumPy library axioms (probed), clause-language renderers (self-checked), solver soundness; len < 2**31 as documented by the kernels.",
    ),
    "C09": dict(
        engine="kvc", category="proof", design_ref="DESIGN.md §2, §6 C09",
        technique="deductive verification: in-bounds / no-overflow VC per memoryview subscript and C-int expression, z3",
        text="Under the length limit only (no sortedness assumed), every typed-memoryview subscript of the three two-way kernels is proved in bounds and every C int expression free of overflow, for all inputs including empty operands; counter-models are replayed on a bounds-checked rebuild of the same .pyx.",
        note="Trusted: a memoryview of shape[0]=n addresses n allocated elements; Cython codegen, gcc; normaliser; solver soundness. Nothing is run under ASan: safety is a theorem about the source text.",
    ),
}
