ENGINES = [
    {"name": "kvc", "path": "cv/kvc", "serves_properties": ["C08", "C09", "C19", "C10", "C11", "C12", "C04", "C18"],
     "kind_free_text": "verification-condition generator over the AST of the working tree's source (normalised .pyx / .py), sidecar contracts, z3 + cvc5 discharge, counter-model replay on the real build"},
]
ENGINES.append({"name": "rtc", "path": "cv/rtc", "serves_properties": ["C01", "C02", "C03", "C04", "C05", "C06", "C07", "C13", "C14", "C15", "C10", "C11", "C12", "C18"],
                "kind_free_text": "run-time contracts (requires/old/ensures with named clauses) attached to the real functions of a scratch copy of the working tree, driven over exhaustively enumerated small scopes; the bounded stand-in, never counted as proved"})
ENGINES.append({"name": "frames", "path": "cv/frames", "serves_properties": ["C16", "C17", "C20"],
                "kind_free_text": "frame (modifies) contracts: static provenance analysis of every store site over the working tree's ASTs; substituted-pool frame monitor on the real task closures; z3 commutation lemma; exceptional-flow obligations"})
NOTES = "Contract-based deductive verification; see DESIGN.md. Exit codes: 0 held, 1 VIOLATION, 2 undecided (solver instability on an unchanged obligation), 3 checker broken."
NOT_APPLICABLE = {}
CHECKS = {
    "C08": dict(
        engine="kvc", category="proof", design_ref="DESIGN.md §2, §6 C08",
        technique="deductive verification: loop-invariant VCs generated from the real kernel source, discharged by z3/cvc5",
        text="Every obligation generated from the current set_operations.pyx (loop invariants initial/preserved, postconditions of the three two-way merge kernels, of the None-convention wrappers and of the multi-way union set_union_merge_many with its nested loops, call-site preconditions; 932 obligations) is discharged for all array lengths, contents and numbers of arrays with no bound; a failed obligation is replayed on the real compiled kernel (counter-model or small-scope witness search). The multi-way union is additionally run on every list of <= 3 arrays over a 5-value universe (this bounded part covers the filtering of empty arrays and the empty list, which the proof takes as given).",
        note="Loop invariants are written for one statement skeleton of a kernel (contracts/kernel_skeletons.json); alternative sidecars keyed by skeleton (the two-pointer form of the intersection kernel is entered) re-establish the proof for a restructured body; an open invariant on a body with an unknown skeleton is proof_stale + bounded run (exhaustive small scope, dense and block families up to 1100 elements), not a violation. Trusted: Cython codegen/gcc/NumPy internals, the .pyx normaliser (cross-checked against Cython's parser every run), NumPy library axioms (probed), clause-language renderers (self-checked), solver soundness; len < 2**31 as documented by the kernels.",
    ),
    "C09": dict(
        engine="kvc", category="proof", design_ref="DESIGN.md §2, §6 C09",
        technique="deductive verification: in-bounds / no-overflow VC per memoryview subscript and C-int expression, z3",
        text="Under the length limit only (no sortedness assumed), every typed-memoryview subscript of the three two-way kernels and of the multi-way union (pointer, limit, value and output arrays; the output write is bounded through the summation lemmas psum/seg_ok whose induction steps are discharged) is proved in bounds and every C int expression free of overflow, for all inputs including empty operands; 552 obligations; counter-models are replayed on a bounds-checked rebuild of the same .pyx.",
        note="Trusted: a memoryview of shape[0]=n addresses n allocated elements; Cython codegen, gcc; normaliser; solver soundness. Nothing is run under ASan: safety is a theorem about the source text.",
    ),
    "C19": dict(
        engine="kvc", category="proof", design_ref="DESIGN.md §2, §6 C19",
        technique="deductive verification: path-wise VCs over the real fit_dtype / IndxIO.format / IndxIO.dtype AST, linear integer arithmetic, z3",
        text="Every syntactic path of fit_dtype (and of IndxIO.format / IndxIO.dtype) is executed symbolically on the working tree's AST; for each feasible path the postcondition instances (contains min and max, signedness, no narrower dtype of the same signedness fits; word size matches) are discharged for all integer arguments in the precondition. Counter-models are replayed on the real function against numpy.iinfo.",
        note="Trusted: numpy.iinfo as range oracle, z3, the path executor (cross-checked against CPython on the 2**k, 2**k+-1 grid every run). Whether callers pass the true extremes is checked under C01/C06/C11.",
    ),
    "C06": dict(
        engine="rtc", category="exploration", design_ref="DESIGN.md §4, §6 C06",
        technique="run-time contracts on the real operations over an exhaustively enumerated bounded scope (bounded stand-in for a deductive proof; NumPy-heavy bodies are outside the VC generator)",
        text="One contract per index operation with the postcondition over the whole dense view plus frame clauses, evaluated on every well-formed state in scope (not only reachable ones) and every argument in scope, plus medium-size states (up to 300 rows, 40 distinct values, 20 columns) and multi-step histories; histories follow by induction over the contracts. Proved part (engine A, all inputs): per-key set algebra of union/intersection/difference_update and set_if from the real ASTs, chained on the proved kernel wrappers; call-site obligations of collapsed's fit_dtype call. The rest is bounded in input size, not a proof.",
        note="Holds only on the enumerated scope (1-D N<=3 over 4 values x 5 commons, 2-D N<=2 x C<=2, 3-D (N,2,2) for slicing; all ordered pairs at N<=2; thorough tier larger). Spec layer (view/wf/mk) is trusted and independent of the code under test.",
    ),
    "C07": dict(
        engine="rtc", category="exploration", design_ref="DESIGN.md §4, §6 C07",
        technique="run-time contracts: `ensures wf(result)` (one clause per conjunct) on every operation over an exhaustive bounded scope; sortedness / non-emptiness of the *_update results proved per key (z3) from the real ASTs",
        text="Each conjunct of well-formedness (strictly increasing uint32 row ids below the row count, coordinates in shape, exclusivity, nothing under common, no empty entry) is a named postcondition of every operation, plus validate(True) and the observers (abscissae, sparsity, inferred cube shape). Bounded in input size.",
        note="Same enumeration as C06; bounded scope; wf predicate is the spec layer's, stronger than the library validator.",
    ),
    "C15": dict(
        engine="rtc", category="exploration", design_ref="DESIGN.md §4, §6 C15",
        technique="run-time contracts: mode clause on every library-chosen normalisation; ==/!= laws on all ordered pairs of states in scope; __eq__/__ne__ proved equivalent to canonical equality for all well-formed operands (real return expression translated to SMT-LIB; cvc5 finite sets with cardinality + z3)",
        text="`count(view, common) == max count` after shift_common(), append, filtered, collapsed; (a == b) iff shape, common and dense content coincide, != is its negation and never raises, reflexive/symmetric, False against non-indexes, results of operations equal their directly built twins. Bounded in input size.",
        note="Bounded scope (all ordered pairs of 1-D states N<=2 and 2-D states N<=2,C<=2 in quick tier).",
    ),
    "C11": dict(
        engine="kvc", category="proof", design_ref="DESIGN.md §2, §6 C11",
        technique="deductive verification: abstract execution of the real IndxIO.save/load ASTs with typed (NEP-50) integer arithmetic, VCs discharged by z3/cvc5; byte content by run-time contracts against an independent encoder (bounded)",
        text="Proved for all n, arity, magnitudes and row-id totals (incl. >= 2**30 and 2**32 without materialising data): the write sequence is the documented layout, every field has the documented width and value, the index word size is the narrowest, size field == real payload, every struct.pack in range, no raise inside the precondition; the loader accepts every documented layout in any word sizes with pointer arithmetic that cannot wrap and each entry exactly its slice. Bounded: bytes equal an independent encoder's, an independent decoder recovers the data, loader reads the independent encoder's files in all 16 word-size pairs.",
        note="Trusted: library axioms for struct/mmap/file/numpy (probed each run), fit_dtype/format/dtype contracts (C19), induction principle for the summation lemmas (steps discharged), files < 2**53 bytes, solver soundness. Content-level clauses hold on the enumerated files only.",
    ),
    "C12": dict(
        engine="kvc", category="proof", design_ref="DESIGN.md §2, §6 C12",
        technique="deductive verification: symbolic cut point k over the real load AST - no path returns or passes mmap on any strict prefix; plus exhaustive cut enumeration on real files (bounded)",
        text="For every documented file F (size field == len(F)-16, proved from save) and every 0 <= k < len(F), abstract execution of the real load shows each path ends in a raise (short magic/version read, struct.error on a short size word, mmap longer than the file); each raising path is feasible (not vacuous). Additionally every cut of every file in scope is loaded for real, and sparse files of 4-16 GiB apparent size (payload and row totals crossing 2**32) are cut around every power-of-two residue of payload, length and totals; every cut of the foreign files in all 16 word-size pairs (row-id words of 1, 2, 4, 8 bytes).",
        note="Rests on C11's size-field obligation (included in this check's obligations) and on the mmap/struct/read axioms (probed each run).",
    ),
    "C10": dict(
        engine="kvc", category="proof", design_ref="DESIGN.md §2, §6 C10",
        technique="deductive verification at field level: save's proved postcondition implies load's precondition (composition VCs), load's postcondition is the identity; byte-level round trip by run-time contracts (bounded)",
        text="Field level, all inputs: the file save writes is a documented layout that satisfies every conjunct of load's precondition, and load returns the encoded (entries, common, dtype) with keys as tuples of Python ints and each entry exactly its row ids. Byte level, bounded: load(save(E)) == E on the enumerated dicts and every well-formed unsigned index in scope rebuilds to an equal, valid index.",
        note="Abstract arrays carry shapes/regions, not element values: element-wise equality of row ids and coordinates is covered by the bounded byte-level half and by numpy's tofile/ndarray(buffer=) axioms (probed).",
    ),
    "C18": dict(
        engine="rtc", category="exploration", design_ref="DESIGN.md §4, §6 C18",
        technique="run-time contracts on the real xcube statistics (and xfunc fill/bins) against a pure-NumPy per-cell oracle over an enumerated bounded scope (floating point is outside the deductive reach)",
        text="stddev, quantile, min, max, covariance and corrcoef of the array cube equal the per-cell textbook statistic (tolerance 1e-9 relative to the data scale), missing cells exactly by the C04 rule (+ fewer than two valid rows for sd, per-entry for matrices), NaN and (values, validity) formats agree; weighted quantile by its three stated laws. Intermediate contracts on every xfunc fill and on bins(). Bounded in input size.",
        note="Bounded scope (exhaustive fact vectors N<=4 over a 5-value grid incl. NaN, covering design over weight/policy/format factors, 0-2 dims). Cells whose valid weights sum to zero and correlation entries with a constant column are not compared (undefined).",
    ),
    "C16": dict(
        engine="frames", category="other", design_ref="DESIGN.md §3, §6 C16",
        technique="frame contracts per task (monitored on the real closures by a substituted pool) + z3-proved commutation lemma => every schedule; static store-site obligations; no schedule is explored",
        text="Universal in schedules by non-interference, bounded in inputs: every task of every pooled evaluation in scope writes only its own block (O1), blocks are disjoint (O2), a task's block does not depend on other blocks (O3), no object attribute changes except diagnostics (O4), every sub-cube is handed to the pool exactly once (O5; cubes with up to 130 sub-cubes, thorough 1025; statically: the pooled branch maps the serial branch's iterable once); z3 proves tasks with O1-O3 commute; the monitored pooled result (tasks in reverse order) equals serial bit for bit; thorough tier also runs the real ThreadPool with sizes 1-16.",
        note="Assumed: stores to distinct elements do not interfere, ThreadPool.map joins, n-task / bytecode-granularity lift of the lemma; channels outside the monitored regions and object attributes (NumPy C globals, warnings filters) are invisible. A deterministic scheduler is a different technique family and is not used.",
    ),
    "C17": dict(
        engine="frames", category="other", design_ref="DESIGN.md §3, §6 C17",
        technique="static frame proof: provenance analysis of every store / in-place / mutator / out= site on the real ASTs (all inputs) + run-time byte-snapshot frame contract and relational purity clauses (bounded)",
        text="329 store-site obligations over 118 functions: no store reaches caller-owned memory, module-level state or (outside __init__) object attributes other than diagnostics, for all inputs. Bounded: byte snapshots of every argument around every aggregate of both cube types, repeat/re-use/permutation clauses, and the frame clauses of every iindex operation contract.",
        note="Static analysis is modular and conservative (unknown provenance fails); assumes NumPy mutates only via out= and known mutators; array aliasing inside fresh containers is judged at run time only.",
    ),
    "C20": dict(
        engine="frames", category="other", design_ref="DESIGN.md §2, §6 C20",
        technique="exceptional-flow obligations on the real calculate()/fill_one_cube ASTs (all inputs) + fault enumeration: raise at every callback invocation index, every subset in pooled mode (bounded)",
        text="Structural obligations: guarded callback is the first statement of each task and called nowhere else, no handler between it and the caller, only contextlib.closing as with-item, task invoked once per sub-cube from exactly the serial loop and pool.map, regions local to the call. Bounded: every invocation index (every subset with the real ThreadPool for <= 4 sub-cubes) raises -> that exception propagates; quiet callback consulted once per sub-cube; re-use afterwards equals a fresh evaluation.",
        note="Pooled mode: which raised exception wins depends on the schedule (not explored); ThreadPool.map's re-raise is an assumption (exercised by the bounded part).",
    ),
    "C01": dict(
        engine="rtc", category="exploration", design_ref="DESIGN.md §4, §6 C01",
        technique='run-time contracts on the real functions over an exhaustively enumerated bounded scope (bounded stand-in: NumPy-heavy bodies are outside the VC generator)',
        text='Contracts on the real from_array / to_array: wf(result), shape, whole dense view == mapped input, common as requested, arguments unchanged, no raise; to_array equals the (mapped) view compared as Python ints for explicit and default dtype; round trip stated directly. Every feasible combination of the construction-strategy skeleton (counts given, mapping, common given/absent/omitted, size 0, < 5 distinct, where vs row-scan, 1-D/2-D: 84 combinations) must be executed (path cover) or the check is broken.',
        note='Bounded: arrays N<=3 over 4 values, 2-D N<=2xC<=2, dtype-boundary values, 80-120-row arrays with exhaustively placed payload to reach the row-scan strategy; values >= 2**20 only where bincount is bypassed.',
    ),
    "C02": dict(
        engine="rtc", category="exploration", design_ref="DESIGN.md §4, §6 C02",
        technique='run-time contracts on the real functions over an exhaustively enumerated bounded scope (bounded stand-in: NumPy-heavy bodies are outside the VC generator)',
        text='Chain of contracts, each on a real function and checked at every call: ffunc_count.get_initial_regions (corner == N, rest 0), the _fill closure (cell == len(rowids), every other cell unchanged), _compute_common_cells_from_marginal_diffs (requires brute-force counts at uncommon/margin cells -> ensures brute-force counts everywhere incl. margins), reduce / ccube.count == brute-force contingency table, missing exactly where the count is zero, exact shape; 0-3 dimensions, multi-axis dimensions, explicit and inferred shapes, every common incl. absent.',
        note='Bounded (353k cubes in the quick tier, exhaustive data for N<=4); 4 dimensions and 65536/65537 extents in the thorough tier only. The intersection kernel enters proved (C08/C09).',
    ),
    "C14": dict(
        engine="rtc", category="exploration", design_ref="DESIGN.md §4, §6 C14",
        technique='deductive verification of the real _walk recursion (symbolic execution of its AST per contract case, z3; induction over the number of dimensions) + run-time contracts on real walks over an exhaustively enumerated bounded scope',
        text='Proved for all dimensions, data and depths (31 obligations from the working-tree AST of _walk): an arbitrary coordinate tuple is delivered exactly once iff every coordinate is a key or -1, not all are -1 and the intersection is non-empty, with exactly the intersection as strictly increasing rows; recursive calls meet the contract on strictly shorter dims; the set-level kernel contract is derived from the contract C08 proves. Bounded: ghost trace of the callbacks of the real walk and of every recursion branch of _walk: delivers every non-empty uncommon/marginal combination, nothing else and each exactly once, row ids equal the brute-force rows(c), uint32 strictly increasing, never the common category; base_rowids is the running intersection at every entry.',
        note='Bounded (same enumeration as C02, 1-3 one-axis dimensions, 4 in the thorough tier).',
    ),
    "C03": dict(
        engine="rtc", category="exploration", design_ref="DESIGN.md §4, §6 C03",
        technique='deductive verification of the real reduce methods of both cube types cell-wise on the same symbols (z3) + run-time contracts on the real functions over an exhaustively enumerated bounded scope',
        text='Proved for all cell contents (128 obligations; floats as reals): ffunc_X.reduce and xfunc_X.reduce (X = count, valid_count, sum, mean) give the same missing flag and the same value, and the value is the direct per-cell aggregate. Bounded: The same postcondition out ~ Spec_agg(views, fact, weights, policy) on both cube types for count, valid_count, sum, mean (missing cells exactly, values within 1e-9 of the grand total, exact shape) plus direct ccube/xcube agreement; intermediate contracts on as_separate_validity, _set_strides/strided_dims, every ffunc/xfunc __init__, get_initial_regions, _fill closures and xfunc fill (per-bin values and counters).',
        note="Bounded: pairwise-covering design over fact form x weight form x policy x dim dtype x format on every cube in scope, exhaustive data for 1-dim cubes N<=3; two independent formulations of the spec's missing set are cross-checked on every input.",
    ),
    "C04": dict(
        engine="rtc", category="exploration", design_ref="DESIGN.md §4, §6 C04",
        technique='deductive verification of the real reduce methods cell-wise (z3) + run-time contracts on real cube outputs (bounded)',
        text="Proved (engine A): for every counter-based reduce of ffuncs/xfuncs (9 classes, both policies, weighted/unweighted, three formats; 228 obligations) the reported missing flag equals the property's rule as a function of the cell's valid/missing row counts and weight mass, and the three report formats agree on flag and value - cell-wise symbolic execution of the real reduce ASTs, linear arithmetic, z3. Bounded: the same rule and the format relations on real cube outputs (engine C).",
        note='Proved half assumes: marginal differencing leaves the per-cell aggregate in every cell (checked at run time under C02/C03), floats as reals, isclose(x,0) == (x == 0). The documented valid_count/plain-0/propagation shortcut is excluded as the property says.',
    ),
    "C05": dict(
        engine="rtc", category="exploration", design_ref="DESIGN.md §4, §6 C05",
        technique='deductive part: the real marginal differencing executed on symbolic cell contents under every tuple of common values (z3; bounded in shape) and structural obligations on the corner initialisation; run-time contracts relating the real cubes under every encoding over an enumerated bounded scope',
        text="Proved for all cell contents (188 obligations): differencing returns the same per-cell value under every tuple of common values of a shape; the grand-total corner of every ffunc reads no common value and no entry. Bounded: Relational clauses on real cube outputs: every re-encoding of every dimension (each value in the extent, incl. never-occurring ones, built directly with the spec layer) leaves every aggregate's missing set and values unchanged, and again after a renormalising shift_common(); explicit identical interacting_shape.",
        note="Bounded; the oracle is the property's own (the same cube under another encoding). Counts of empty / rare / most-frequent common cells are reported and must be non-zero.",
    ),
    "C13": dict(
        engine="rtc", category="exploration", design_ref="DESIGN.md §4, §6 C13",
        technique='deductive part: abstract execution of the real iindex.slices1d recursion per contract case (induction over the axes) and structural obligations on product() / the task body; run-time contracts relating every block of real cube outputs to the cube of the 1-D slices over an enumerated bounded scope',
        text='Proved for all indexes (11 obligations from the working-tree AST of slices1d): every in-range coordinate tuple is yielded exactly once, labelled in axis order, with the content at exactly those coordinates, the common value and shape (N,); product() is the product in dimension order of the slices1d() pairs and the task body selects the block by the concatenated coordinates as leading indices (structural). Bounded: On both cube types and every aggregate: result.shape == extra extents (dimension order, then axis order) + category extents (+ fact columns); every block result[j1..jm] equals the aggregate over the 1-D slices at those positions; contracts on ccube.product / xcube.product (each combination exactly once, documented order, data is the slice at its coordinates).',
        note="Bounded; extra extents 1-4 pairwise different (and equal-extent lists so that a transposition stays in bounds); the oracle is the property's own (cube of the 1-D slices, itself under C02/C03's contracts).",
    ),
}
