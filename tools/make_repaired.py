"""(Re)create /tmp/repaired = /repo working tree + the candidate repairs not yet committed to /repo.
Used only to calibrate checks against false alarms; never by a registered command."""
import os, shutil, sys
dst = sys.argv[1] if len(sys.argv) > 1 else "/tmp/repaired"
os.makedirs(dst + "/src/catii", exist_ok=True)
for fn in os.listdir("/repo/src/catii"):
    if fn.endswith((".py", ".pyx")):
        shutil.copy("/repo/src/catii/" + fn, dst + "/src/catii/" + fn)
def edit(fn, old, new, count=1):
    p = dst + "/src/catii/" + fn; s = open(p).read()
    if s.count(old) != count:
        print("  skip (already applied or changed):", fn, old[:50].replace("\n", " ")); return
    open(p, "w").write(s.replace(old, new))
edit("iindexes.py", "dtype = fit_dtype(max(distinct_values))", "dtype = fit_dtype(max(distinct_values), min(distinct_values))", 2)
edit("iindexes.py", "sum(final_counts.values()) - final_counts[common]", "sum(final_counts.values()) - final_counts.get(common, 0)")
edit("iindexes.py", "            use_where = (len(counts) / uncommon_ratio) < 100", "            use_where = uncommon_ratio > 0 and (len(counts) / uncommon_ratio) < 100")
edit("iindexes.py", "                            entries[(mapped_value, colid)] = rowids.astype(rowid_dtype)", "                            entries[(mapped_value, colid)] = union(\n                                entries.get((mapped_value, colid)),\n                                rowids.astype(rowid_dtype),\n                            )")
edit("iindexes.py", "                        entries[(mapped_value,)] = rowids.astype(rowid_dtype)", "                        entries[(mapped_value,)] = union(\n                            entries.get((mapped_value,)), rowids.astype(rowid_dtype)\n                        )")
edit("xcubes.py", "interacting_shape = tuple(max(d.flat) + 1 for d in self.dims)", "interacting_shape = tuple(int(max(d.flat)) + 1 for d in self.dims)")
edit("xfuncs.py", "                        missing_counts[i] = len(valid_segment) - valid_counts[i]", "                        missing_counts[i] = len(valid_segment) - numpy.sum(\n                            self.validity[rowmask], axis=0\n                        )")
edit("ffuncs.py", """            vcount = numpy.sum(self.validity, axis=0)
            valid_counts = numpy.zeros(cube.working_shape, dtype=int)
            valid_counts[cube.corner] = vcount
            if self.ignore_missing:
                return counts, valid_counts
            else:
                missing_counts = numpy.zeros(cube.working_shape, dtype=int)
                missing_counts[cube.corner] = (
                    len(self.validity) if self.validity.shape else 1
                ) - vcount
                return counts, valid_counts, missing_counts""", """            if self.validity.shape:
                vcount = numpy.sum(self.validity, axis=0)
                total = len(self.validity)
            else:
                vcount = N if self.validity else 0
                total = N
            valid_counts = numpy.zeros(cube.working_shape, dtype=int)
            valid_counts[cube.corner] = vcount
            if self.ignore_missing:
                return counts, valid_counts
            else:
                missing_counts = numpy.zeros(cube.working_shape, dtype=int)
                missing_counts[cube.corner] = total - vcount
                return counts, valid_counts, missing_counts""")
F = "set_operations.pyx"
edit(F, "    cdef long num_arrays = len(value_arrays)\n    varr = numpy.concatenate(value_arrays)", "    cdef long num_arrays = len(value_arrays)\n    if num_arrays == 0:\n        return numpy.empty(0, dtype=numpy.uint32)\n    varr = numpy.concatenate(value_arrays)")
edit(F, "    cdef long[:] lengths = larr\n    parr = numpy.concatenate([[0], lengths[:len(larr) - 1]])\n    cdef long[:] pointers = parr\n    limarr = parr + larr\n    cdef long[:] limits = limarr\n    cdef uint32 limit_value = max([arr[len(arr) - 1] for arr in value_arrays]) + 1\n", "    # Each array occupies values[limit - length:limit].\n    limarr = numpy.cumsum(larr)\n    cdef long[:] limits = limarr\n    parr = limarr - larr\n    cdef long[:] pointers = parr\n")
edit(F, "            min_value = limit_value\n            min_arrnum = -1", "            min_arrnum = -1")
edit(F, "                if value < min_value:", "                if min_arrnum == -1 or value < min_value:")
edit(F, "            if min_value == limit_value:", "            if min_arrnum == -1:")
edit(F, "            result_view[result_len] = min_value\n            result_len += 1\n\n            pointers[min_arrnum] += 1", "            # The same value may be at the head of several arrays.\n            if result_len == 0 or result_view[result_len - 1] != min_value:\n                result_view[result_len] = min_value\n                result_len += 1\n\n            pointers[min_arrnum] += 1")
print("repaired tree at", dst)
