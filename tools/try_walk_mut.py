import ast, sys, time
sys.path.insert(0, "/verif")
from cv.kvc import walkexec as W, discharge
from contracts import kernels as K
SRC = open("/repo/src/catii/ccubes.py").read()
MUTS = {
 "no-margin-many": ("            # Margin\n            self._walk(remaining_dims, base_coords + (-1,), base_rowids, funcs)\n", "            pass\n"),
 "margin-empty-last": ("                if len(base_rowids):\n                    for func in funcs:\n                        func(base_coords + (-1,), base_rowids)", "                if True:\n                    for func in funcs:\n                        func(base_coords + (-1,), base_rowids)"),
 "pass-base": ("                    if len(rowids):\n                        self._walk(remaining_dims, base_coords + coords, rowids, funcs)", "                    if len(rowids):\n                        self._walk(remaining_dims, base_coords + coords, base_rowids, funcs)"),
 "swap-coords": ("                        self._walk(remaining_dims, base_coords + coords, rowids, funcs)\n\n", "                        self._walk(remaining_dims, coords + base_coords, rowids, funcs)\n\n"),
 "margin-none": ("self._walk(remaining_dims, base_coords + (-1,), base_rowids, funcs)", "self._walk(remaining_dims, base_coords + (-1,), None, funcs)"),
 "gt1": ("                    if len(rowids):\n                        for func in funcs:\n                            func(base_coords + coords, rowids)\n\n                # Margin", "                    if len(rowids) > 1:\n                        for func in funcs:\n                            func(base_coords + coords, rowids)\n\n                # Margin"),
 "margin0": ("func(base_coords + (-1,), base_rowids)", "func(base_coords + (0,), base_rowids)"),
 "union": ("                    rowids = set_intersect_merge_np(base_rowids, rowids)\n                    if len(rowids):\n                        for func", "                    rowids = set_union_merge_np(base_rowids, rowids)\n                    if len(rowids):\n                        for func"),
 "dims-not-shorter": ("self._walk(remaining_dims, base_coords + (-1,), base_rowids, funcs)", "self._walk(dims, base_coords + (-1,), base_rowids, funcs)"),
 "skip-empty-check-unrestricted": ("                for coords, rowids in dims[0].items():\n                    if len(rowids):\n                        for func in funcs:", "                for coords, rowids in dims[0].items():\n                    if True:\n                        for func in funcs:"),
 "harmless-rename": ("remaining_dims", "rest_dims"),
}
if __name__ == "__main__":
    for name, (a, b) in MUTS.items():
        assert a in SRC, name
        src = SRC.replace(a, b) if name == "harmless-rename" else SRC.replace(a, b, 1)
        if name == "union":
            src = src.replace("from .set_operations import set_intersect_merge_np", "from .set_operations import set_intersect_merge_np, set_union_merge_np")
        try:
            tree = ast.parse(src)
            obls = W.verify_walk(tree) + W.verify_entry_points(tree)
            res = discharge.discharge(obls)
            bad = [r.name.split("_walk/")[1] + ":" + r.verdict for r in res if not r.discharged]
            print(name, len(res), "FAILED" if bad else "all discharged", bad[:4])
        except W.Unsupported as e:
            print(name, "UNSUPPORTED", e)
