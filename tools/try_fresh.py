import sys, collections
from cv.frames import fresh
from cv import env
tot = collections.Counter()
for mod in ("ffuncs", "xfuncs", "ccubes", "xcubes", "iindexes"):
    sites, fns = fresh.analyse_module(mod, env.read_source(mod + ".py"))
    bad = [s for s in sites if not s.ok]
    print(mod, "functions", fns, "sites", len(sites), "failing", len(bad))
    for s in bad: print("   ", s.name, "|", s.why, "|", s.text, "@L%d" % s.lineno)
