import ast, sys, time
sys.path.insert(0, "/verif")
from cv import env
from cv.kvc import walkexec as W, discharge
from contracts import kernels as K
if __name__ == "__main__":
    tree = ast.parse(env.read_source("ccubes.py"))
    obls = W.verify_walk(tree) + W.kernel_lemma(K) + W.verify_entry_points(tree)
    print(len(obls), "obligations")
    t = time.time()
    res = discharge.discharge(obls)
    print("solved in %.1fs" % (time.time() - t))
    for r in res:
        if not r.discharged:
            print("OPEN", r.name, r.verdict, r.backend, (r.detail or "")[:200], str(r.model)[:300])
    print(sum(r.discharged for r in res), "/", len(res))
