#!/usr/bin/env bash
# Run every registered quick check against /repo, print exit codes and wall times.
cd "$(dirname "$0")/.."
ids=$(python3 -c "import json; print(' '.join(c['property_id'] for c in json.load(open('MANIFEST.json'))['checks']))")
[ $# -gt 0 ] && ids="$*"
for p in $ids; do
  s=$(date +%s)
  out=$(VERIF_SEED=1 ./check $p --tier ${TIER:-quick} 2>&1); code=$?
  e=$(date +%s)
  echo "$p exit=$code $((e-s))s $(echo "$out" | grep -c '^VIOLATION') violations $(echo "$out" | grep -c '^KNOWN-FINDING') known"
  [ $code -ne 0 ] && echo "$out" | grep -v conda | tail -5
done
.venv/bin/python - <<'PY'
import json, jsonschema, glob
sch = json.load(open('/root/.vp/EVIDENCE.schema.json'))
for f in sorted(glob.glob('evidence/*.json')):
    e = json.load(open(f))
    try:
        jsonschema.validate(e, sch)
        c = e['coverage']
        extra = ''
        if e['level'] == 'proof' and c.get('obligations') != c.get('discharged'): extra = ' !! discharged != obligations'
        print(f, 'valid', e['level'], e.get('violations'), extra)
    except Exception as ex:
        print(f, 'INVALID', str(ex)[:200])
PY
