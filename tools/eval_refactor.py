"""Run checks against a behaviour-preserving change: every check must exit 0 (proof_stale notes are fine).
usage: eval_refactor.py <dir with patch.diff> [check ids... default all 20]"""
import json, os, shutil, subprocess, sys, tempfile, concurrent.futures as cf
src = os.path.abspath(sys.argv[1].rstrip("/"))
checks = sys.argv[2:] or ["C%02d" % i for i in range(1, 21)]
tmp = tempfile.mkdtemp(prefix="refeval-")
try:
    shutil.copytree("/repo/src", tmp + "/src", ignore=shutil.ignore_patterns("*.egg-info", "__pycache__"))
    shutil.copy("/repo/setup.py", tmp)
    shutil.copy("/repo/README.md", tmp)
    r = subprocess.run(["patch", "-p1", "--fuzz=3", "-i", os.path.join(src, "patch.diff")], cwd=tmp, capture_output=True, text=True)
    if r.returncode != 0:
        print("PATCH-FAILED", src, r.stdout[-300:]); sys.exit(2)
    if "set_operations.pyx" in open(os.path.join(src, "patch.diff")).read():
        b = subprocess.run(["/venv/bin/python", "setup.py", "build_ext", "--inplace"], cwd=tmp, env=dict(os.environ, CYTHONIZE_SETUP_PY="1", PYTHONPATH=tmp + "/src"), capture_output=True, text=True)
        if b.returncode != 0:
            print("BUILD-FAILED", src, b.stderr[-300:]); sys.exit(2)
    def one(c):
        ev = tmp + "/evidence"
        k = subprocess.run(["/verif/check", c], env=dict(os.environ, CATII_REPO=tmp, CV_EVIDENCE_DIR=ev, CV_REPLAY_DIR=tmp + "/replays"), capture_output=True, text=True, timeout=5400)
        obs = sorted({l.split("obligation:")[1].strip() for l in (k.stdout + k.stderr).splitlines() if "obligation:" in l})
        stale = []
        try:
            e = json.load(open(os.path.join(ev, c + ".json")))
            txt = json.dumps(e)
            stale = [n for n in e.get("notes", []) if "stale" in n][:3]
            if not stale and '"proof_stale": [[' in txt:
                stale = ["proof_stale in coverage"]
        except Exception as ex:  # noqa
            stale = ["no evidence: %s" % ex]
        return c, {"exit": k.returncode, "obligations": obs[:4], "stale": [s[:160] for s in stale], "tail": (k.stdout + k.stderr)[-300:] if k.returncode not in (0, 1) else ""}
    res = {}
    with cf.ThreadPoolExecutor(max_workers=int(os.environ.get("EVAL_PAR", "2"))) as ex:
        for c, v in ex.map(one, checks):
            res[c] = v
    bad = {c: v for c, v in res.items() if v["exit"] != 0}
    print(json.dumps({"change": os.path.basename(src), "alarms": bad, "stale": {c: v["stale"] for c, v in res.items() if v["stale"]}, "ok": sorted(c for c, v in res.items() if v["exit"] == 0)}))
finally:
    shutil.rmtree(tmp, ignore_errors=True)
