from cv.kvc import symdiff
r, t = symdiff.run("quick")
print(len(r), "configs", sum(1 for x in r if x[1] == "unsat"), "proved", "%.1fs" % t)
for x in r:
    if x[1] != "unsat": print(x)
