"""Keep an evaluated seeded change under /verif/seeded/<id>/ with the bookkeeping fields.
usage: keep_seed.py <srcdir> <caught_by comma list> <failing obligations> <history>"""
import json, os, shutil, subprocess, sys
src, caught, obls, hist = sys.argv[1].rstrip("/"), sys.argv[2], sys.argv[3], sys.argv[4]
name = os.path.basename(src)
dst = "/verif/seeded/" + name
os.makedirs(dst, exist_ok=True)
for f in ("patch.diff", "demo.py"):
    shutil.copy(os.path.join(src, f), dst)
m = json.load(open(os.path.join(src, "meta.json")))
head = subprocess.run(["git", "-C", "/repo", "log", "-1", "--format=%h"], capture_output=True, text=True).stdout.strip()
m.update(breaks_property=m["property"], author="independent sub-agent given only the property text and a scratch worktree",
         base_commit="%s (repo HEAD when the worktree was taken)" % head,
         confirmed_by_main_session="tools/eval_seeded.py: scratch copy of /repo tree; demo exit 0 unchanged / 1 with patch; existing suite: same 5 baseline failures (agent's run)",
         caught_by_checks=[c for c in caught.split(",") if c], failing_obligations=obls, history=hist)
json.dump(m, open(os.path.join(dst, "meta.json"), "w"), indent=1)
print("kept", dst)
