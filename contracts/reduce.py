"""Sidecar for the cell-wise `reduce` obligations (C04; sd rule of C18).

For each class: the meaning of every region AT ONE CELL after marginal differencing, in terms of
  V (valid rows), M (missing rows), Wv (sum of valid weights), S (value), and the policy flag.
`valid` means: fact value valid AND weight valid (for count: weight valid).
The *rule* is the property's: missing <=> rows == 0 or (ignore ? V == 0 : M > 0)
                                          [or Wv == 0 for a mean] [or V < 2 for a standard deviation].
"""
# region name -> expression over V, M, Wv, S, ignore   (python syntax, evaluated by cell_check)
TARGETS = [
    # module, class, weighted variants, regions, kind
    ("ffuncs", "ffunc_count", (True, False), {"counts": "RowsOrWeighted", "valid_counts": "V", "missing_counts": "M"}, "count"),
    ("ffuncs", "ffunc_valid_count", (True, False), {"counts": "S", "valid_counts": "V", "missing_counts": "M"}, "valid_count"),
    ("ffuncs", "ffunc_sum", (True, False), {"sums": "S", "valid_counts": "V", "missing_counts": "M"}, "sum"),
    ("ffuncs", "ffunc_mean", (True, False), {"sums": "S", "valid_counts": "Wv", "missing_counts": "M"}, "mean"),
    ("xfuncs", "xfunc_count", (True, False), {"counts": "RowsOrWeighted", "valid_counts": "V", "missing_counts": "M"}, "count"),
    ("xfuncs", "xfunc_valid_count", (True, False), {"counts": "S", "valid_counts": "V", "missing_counts": "M"}, "valid_count"),
    ("xfuncs", "xfunc_sum", (True, False), {"sums": "S", "valid_counts": "V", "missing_counts": "M"}, "sum"),
    ("xfuncs", "xfunc_mean", (True, False), {"sums": "S", "valid_counts": "Wv", "missing_counts": "M"}, "mean"),
    # xfunc_stddev.fill stores the number of rows it binned: valid rows when ignoring, all rows otherwise
    ("xfuncs", "xfunc_stddev", (True, False), {"stddevs": "S", "valid_counts": "VifIgnoreElseRows", "missing_counts": "M"}, "stddev"),
]
