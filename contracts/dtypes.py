"""Sidecar contracts for the integer-dtype choosers (C19): iindexes.fit_dtype, IndxIO.format, IndxIO.dtype.

fit_dtype(maxval, minval=0)
  requires  -2**63 <= minval, -2**63 <= maxval < 2**64, (minval < 0 or maxval < 0) >> maxval < 2**63,
            minval <= maxval or minval == 0          (a degenerate range is only accepted in the documented
                                                      "negative maxval, default minval" form)
  let       m = maxval if (maxval < 0 and minval == 0) else minval      (spec-side definition)
  ensures   result is numpy.dtype(T) for a NumPy integer type T with
            lo(T) <= m, maxval <= hi(T), signed(T) == (m < 0),
            for every integer type T2 of the same signedness with fewer bits: not (lo(T2) <= m and maxval <= hi(T2))
The ranges lo/hi/bits/signed come from numpy.iinfo at check time (the oracle), never from the code.
"""

FIT_DTYPE = {
    "module": "iindexes.py",
    "qualname": "fit_dtype",
    "params": ["maxval", "minval"],
    "defaults": {"minval": 0},
    "requires": [
        "-2**63 <= minval", "-2**63 <= maxval", "maxval < 2**64",
        "(minval < 0 or maxval < 0) >> (maxval < 2**63)",
        "minval <= maxval or minval == 0",
    ],
    "int_types": ["int8", "int16", "int32", "int64", "uint8", "uint16", "uint32", "uint64"],
    "expect_min_obligations": 30,
}

# IndxIO.format(size) / IndxIO.dtype(itemsize): size in {1, 2, 4, 8}
INDX_FORMAT = {
    "module": "indxio.py", "qualname": "IndxIO.format", "params": ["size"],
    "requires": ["size == 1 or size == 2 or size == 4 or size == 8"],
}
INDX_DTYPE = {
    "module": "indxio.py", "qualname": "IndxIO.dtype", "params": ["itemsize"],
    "requires": ["itemsize == 1 or itemsize == 2 or itemsize == 4 or itemsize == 8"],
}
