"""Sidecar contracts for src/catii/set_operations.pyx (engine A).

Keyed by function name and loop ordinal (loops numbered in source order), never by line number.
Clause language: cv/kvc/spec.py.  Names are the function's own locals and parameters;
`out` is the returned array, `out_none` is true when the function returns None,
`<param>_none` is true when an array-or-None parameter is None.

Two contract sets:

  FUNCTIONAL  (C08)  requires strictly increasing inputs within the kernels' documented length
                     limit; ensures the exact set-algebra result, strictly increasing.
  SAFETY      (C09)  requires ONLY the length limit (no sortedness: memory safety must hold for
                     every input) ; invariants speak about pointer ranges only; the obligations
                     of interest are index-in-bounds / int-no-overflow / narrow / alloc / slice.
"""

L, R = "left_array", "right_array"
INC_L = "inc(left_array, len(left_array))"
INC_R = "inc(right_array, len(right_array))"
LIMIT = ["len(left_array) < 2**31", "len(right_array) < 2**31"]
LIMIT_SUM = ["len(left_array) + len(right_array) < 2**31"]

# ----------------------------------------------------------------------------- C08

INTERSECT_ENS = [
    "inc(out, len(out))",
    "len(out) <= min(len(left_array), len(right_array))",
    # soundness: every output element occurs in both inputs
    "forall(t, 0, len(out), mem(out[t], left_array, len(left_array)) and mem(out[t], right_array, len(right_array)))",
    # completeness: every common element occurs in the output
    "forall(i, 0, len(left_array), forall(j, 0, len(right_array), (left_array[i] == right_array[j]) >> mem(left_array[i], out, len(out))))",
]
UNION_ENS = [
    "inc(out, len(out))",
    "len(out) <= len(left_array) + len(right_array)",
    "forall(t, 0, len(out), mem(out[t], left_array, len(left_array)) or mem(out[t], right_array, len(right_array)))",
    "forall(i, 0, len(left_array), mem(left_array[i], out, len(out)))",
    "forall(j, 0, len(right_array), mem(right_array[j], out, len(out)))",
]
DIFF_ENS = [
    "inc(out, len(out))",
    "len(out) <= len(left_array)",
    "forall(t, 0, len(out), mem(out[t], left_array, len(left_array)) and not mem(out[t], right_array, len(right_array)))",
    "forall(i, 0, len(left_array), mem(left_array[i], right_array, len(right_array)) or mem(left_array[i], out, len(out)))",
]

FUNCTIONAL = {
    "set_intersect_merge_np": dict(
        requires=[INC_L, INC_R] + LIMIT,
        ensures=INTERSECT_ENS,
        loops={
            1: [
                "left_len == len(left_array) and right_len == len(right_array)",
                "0 <= left_ptr and left_ptr < left_len and 0 <= right_ptr and right_ptr < right_len",
                "left == left_array[left_ptr] and right == right_array[right_ptr]",
                "len(result) == min(left_len, right_len)",
                "0 <= result_len and result_len <= left_ptr and result_len <= right_ptr",
                "inc(result, result_len)",
                "forall(t, 0, result_len, result[t] < left_array[left_ptr] and result[t] < right_array[right_ptr])",
                "forall(t, 0, result_len, mem(result[t], left_array, left_ptr) and mem(result[t], right_array, right_ptr))",
                "forall(i, 0, left_ptr, forall(j, 0, right_ptr, (left_array[i] == right_array[j]) >> mem(left_array[i], result, result_len)))",
                "forall(i, 0, left_ptr, left_array[i] < right_array[right_ptr])",
                "forall(j, 0, right_ptr, right_array[j] < left_array[left_ptr])",
            ]
        },
    ),
    "set_union_merge_np": dict(
        requires=[INC_L, INC_R] + LIMIT_SUM,
        ensures=UNION_ENS,
        macros={
            "core": (
                ["lp", "rp", "k"],
                "0 <= k and k <= lp + rp and inc(result, k)"
                " and forall(t, 0, k, ((lp < left_len) >> (result[t] < left_array[lp])) and ((rp < right_len) >> (result[t] < right_array[rp])))"
                " and forall(t, 0, k, mem(result[t], left_array, lp) or mem(result[t], right_array, rp))"
                " and forall(i, 0, lp, mem(left_array[i], result, k))"
                " and forall(j, 0, rp, mem(right_array[j], result, k))",
            )
        },
        loops={
            1: [
                "left_len == len(left_array) and right_len == len(right_array) and len(result) == left_len + right_len",
                "0 <= left_ptr and left_ptr < left_len and 0 <= right_ptr and right_ptr < right_len",
                "left == left_array[left_ptr] and right == right_array[right_ptr]",
                "core(left_ptr, right_ptr, result_len)",
            ],
            2: [
                "left_len == len(left_array) and right_len == len(right_array) and len(result) == left_len + right_len",
                "0 <= left_ptr and left_ptr <= left_len and 0 <= right_ptr and right_ptr <= right_len",
                "left_ptr == left_len or right_ptr == right_len",
                "core(left_ptr, right_ptr, result_len)",
            ],
            3: [
                "left_len == len(left_array) and right_len == len(right_array) and len(result) == left_len + right_len",
                "left_ptr == left_len and 0 <= right_ptr and right_ptr <= right_len",
                "core(left_ptr, right_ptr, result_len)",
            ],
        },
    ),
    "set_difference_merge_np": dict(
        requires=[INC_L, INC_R] + LIMIT,
        ensures=DIFF_ENS,
        macros={
            "dcore": (
                ["lp", "k"],
                "0 <= k and k <= lp and inc(result, k)"
                " and forall(t, 0, k, mem(result[t], left_array, lp) and not mem(result[t], right_array, right_len))"
                " and forall(t, 0, k, (lp < left_len) >> (result[t] < left_array[lp]))"
                " and forall(i, 0, lp, mem(left_array[i], right_array, right_len) or mem(left_array[i], result, k))",
            )
        },
        loops={
            1: [
                "left_len == len(left_array) and right_len == len(right_array) and len(result) == left_len",
                "0 <= left_ptr and left_ptr < left_len and 0 <= right_ptr and right_ptr < right_len",
                "left == left_array[left_ptr] and right == right_array[right_ptr]",
                "dcore(left_ptr, result_len)",
                "forall(i, 0, left_ptr, left_array[i] < right_array[right_ptr])",
                "forall(j, 0, right_ptr, right_array[j] < left_array[left_ptr])",
            ],
            2: [
                "left_len == len(left_array) and right_len == len(right_array) and len(result) == left_len",
                "0 <= left_ptr and left_ptr <= left_len",
                "dcore(left_ptr, result_len)",
                "forall(i, left_ptr, left_len, not mem(left_array[i], right_array, right_len))",
            ],
        },
    ),
}

# The wrappers: None conventions of the docstrings.  `x_none` names are bound per case.
WRAPPERS = {
    "intersection": dict(
        params={L: "array_or_none", R: "array_or_none"},
        requires=["(not left_array_none) >> (%s and len(left_array) < 2**31)" % INC_L,
                  "(not right_array_none) >> (%s and len(right_array) < 2**31)" % INC_R],
        ensures=[
            "(left_array_none or right_array_none) >> out_none",
            # result is None exactly when an operand is None or the mathematical result is empty
            "((not left_array_none) and (not right_array_none)) >> (out_none == (not exists(i, 0, len(left_array), mem(left_array[i], right_array, len(right_array)))))",
            "(not out_none) >> (len(out) > 0 and %s)" % " and ".join("(%s)" % c for c in INTERSECT_ENS),
        ],
        loops={},
    ),
    "union": dict(
        params={L: "array_or_none", R: "array_or_none", "copy_left": "bool", "copy_right": "bool"},
        requires=["(not left_array_none) >> (%s)" % INC_L,
                  "(not right_array_none) >> (%s)" % INC_R,
                  "((not left_array_none) and (not right_array_none)) >> (len(left_array) + len(right_array) < 2**31)"],
        ensures=[
            "out_none == ((left_array_none or len(left_array) == 0) and (right_array_none or len(right_array) == 0))",
            "(not out_none) >> (len(out) > 0 and inc(out, len(out)))",
            "(not out_none) >> forall(t, 0, len(out), ((not left_array_none) and mem(out[t], left_array, len(left_array))) or ((not right_array_none) and mem(out[t], right_array, len(right_array))))",
            "((not out_none) and (not left_array_none)) >> forall(i, 0, len(left_array), mem(left_array[i], out, len(out)))",
            "((not out_none) and (not right_array_none)) >> forall(j, 0, len(right_array), mem(right_array[j], out, len(out)))",
        ],
        loops={},
    ),
    "difference": dict(
        params={L: "array_or_none", R: "array_or_none", "copy": "bool"},
        requires=["(not left_array_none) >> (%s and len(left_array) < 2**31)" % INC_L,
                  "(not right_array_none) >> (%s and len(right_array) < 2**31)" % INC_R],
        ensures=[
            "left_array_none >> out_none",
            "((not left_array_none) and right_array_none) >> (out_none == (len(left_array) == 0))",
            "((not left_array_none) and (not right_array_none)) >> (out_none == forall(i, 0, len(left_array), mem(left_array[i], right_array, len(right_array))))",
            "(not out_none) >> (len(out) > 0 and inc(out, len(out)))",
            "(not out_none) >> forall(t, 0, len(out), mem(out[t], left_array, len(left_array)) and not ((not right_array_none) and mem(out[t], right_array, len(right_array))))",
            "(not out_none) >> forall(i, 0, len(left_array), ((not right_array_none) and mem(left_array[i], right_array, len(right_array))) or mem(left_array[i], out, len(out)))",
        ],
        loops={},
    ),
}

# what a caller may assume about each kernel (its FUNCTIONAL contract)
CALLEES = {
    name: dict(params=[L, R], requires=c["requires"], ensures=c["ensures"], macros=c.get("macros", {}))
    for name, c in FUNCTIONAL.items()
}

# ----------------------------------------------------------------------------- C09

SAFETY = {
    "set_intersect_merge_np": dict(
        requires=LIMIT,
        ensures=["0 <= len(out) and len(out) <= min(len(left_array), len(right_array))"],
        loops={
            1: [
                "left_len == len(left_array) and right_len == len(right_array)",
                "0 <= left_ptr and left_ptr < left_len and 0 <= right_ptr and right_ptr < right_len",
                "len(result) == min(left_len, right_len)",
                "0 <= result_len and result_len <= left_ptr and result_len <= right_ptr",
            ]
        },
    ),
    "set_union_merge_np": dict(
        requires=LIMIT_SUM,
        ensures=["0 <= len(out) and len(out) <= len(left_array) + len(right_array)"],
        loops={
            1: [
                "left_len == len(left_array) and right_len == len(right_array) and len(result) == left_len + right_len",
                "0 <= left_ptr and left_ptr < left_len and 0 <= right_ptr and right_ptr < right_len",
                "0 <= result_len and result_len <= left_ptr + right_ptr",
            ],
            2: [
                "left_len == len(left_array) and right_len == len(right_array) and len(result) == left_len + right_len",
                "0 <= left_ptr and left_ptr <= left_len and 0 <= right_ptr and right_ptr <= right_len",
                "0 <= result_len and result_len <= left_ptr + right_ptr",
            ],
            3: [
                "left_len == len(left_array) and right_len == len(right_array) and len(result) == left_len + right_len",
                "0 <= left_ptr and left_ptr <= left_len and 0 <= right_ptr and right_ptr <= right_len",
                "0 <= result_len and result_len <= left_ptr + right_ptr",
            ],
        },
    ),
    "set_difference_merge_np": dict(
        requires=LIMIT,
        ensures=["0 <= len(out) and len(out) <= len(left_array)"],
        loops={
            1: [
                "left_len == len(left_array) and right_len == len(right_array) and len(result) == left_len",
                "0 <= left_ptr and left_ptr < left_len and 0 <= right_ptr and right_ptr < right_len",
                "0 <= result_len and result_len <= left_ptr",
            ],
            2: [
                "left_len == len(left_array) and right_len == len(right_array) and len(result) == left_len",
                "0 <= left_ptr and left_ptr <= left_len",
                "0 <= result_len and result_len <= left_ptr",
            ],
        },
    ),
}

# ----------------------------------------------------------------------------- multi-way union
# Ghost symbols (bound by cv/kvc/manyexec.py at the filter comprehension): K non-empty arrays, lengths L(a) >= 1,
# elements E(a, i), segment starts CS(a); psum / seg_ok as defined there.

MANY_SHAPE = [
    "num_arrays == K and len(values) == CS(K) and len(result) == CS(K) and len(limits) == K and len(pointers) == K",
    "forall(a, 0, K, limits[a] == CS(a + 1))",
    "seg_ok(pointers)",
    "0 <= result_len and result_len <= psum(pointers, K)",
]
MANY_INNER_SHAPE = [
    "0 <= arrnum and arrnum <= num_arrays",
    "min_arrnum == -1 or (0 <= min_arrnum and min_arrnum < num_arrays and pointers[min_arrnum] < limits[min_arrnum])",
]

SAFETY_MANY = {
    "set_union_merge_many": dict(
        requires=["K < 2**31", "CS(K) < 2**31"],
        ensures=["0 <= len(out) and len(out) <= CS(K)"],
        loops={1: MANY_SHAPE, 2: MANY_INNER_SHAPE},
    ),
}

MANY_FUNCTIONAL_OUTER = MANY_SHAPE + [
    "inc(result, result_len)",
    # sound: every output element is an element of the concatenation
    "forall(t, 0, result_len, mem(result[t], values, CS(K)))",
    # complete for what the pointers have consumed
    "forall(a, 0, K, forall(q, CS(a), pointers[a], mem(values[q], result, result_len)))",
    # every output element is <= every unconsumed head
    "forall(t, 0, result_len, forall(a, 0, K, (pointers[a] < limits[a]) >> (result[t] <= values[pointers[a]])))",
    # each segment of the concatenation is strictly increasing
    "forall(a, 0, K, forall(i, j, CS(a), CS(a + 1), values[i] < values[j]))",
]
MANY_FUNCTIONAL_INNER = [
    "0 <= arrnum and arrnum <= num_arrays",
    "min_arrnum == -1 or (0 <= min_arrnum and min_arrnum < arrnum and pointers[min_arrnum] < limits[min_arrnum] and min_value == values[pointers[min_arrnum]])",
    "forall(a, 0, arrnum, (pointers[a] < limits[a]) >> (min_arrnum != -1 and min_value <= values[pointers[a]]))",
]
FUNCTIONAL_MANY = {
    "set_union_merge_many": dict(
        requires=["K < 2**31", "CS(K) < 2**31", "forall(a, 0, K, forall(i, j, 0, L(a), E(a, i) < E(a, j)))"],
        ensures=[
            "inc(out, len(out))",
            "forall(a, 0, K, forall(i, 0, L(a), mem(E(a, i), out, len(out))))",
            "forall(t, 0, len(out), exists(a, 0, K, exists(i, 0, L(a), out[t] == E(a, i))))",
        ],
        loops={1: MANY_FUNCTIONAL_OUTER, 2: MANY_FUNCTIONAL_INNER},
    ),
}


# ----------------------------------------------------------------------------- alternative sidecars
# Loop invariants are written for one statement skeleton of a kernel (cv/kvc/kernels_check.skeleton).  When a kernel is
# restructured, a maintainer of the contracts adds the invariants of the new form here, keyed by the new skeleton; the
# requires / ensures (what the property needs) stay those of the primary contract.  First entry: the canonical two-pointer
# form of the intersection kernel, `while left_ptr < left_len and right_ptr < right_len:` with both heads loaded at the top
# of the iteration (refactorings/RP_1).
ALTERNATIVES = {
    "set_intersect_merge_np": [
        dict(
            skeleton="@RP_1",  # resolved to the hash recorded in contracts/kernel_skeletons.json under this key
            FUNCTIONAL={
                1: [
                    "left_len == len(left_array) and right_len == len(right_array)",
                    "0 <= left_ptr and left_ptr <= left_len and 0 <= right_ptr and right_ptr <= right_len",
                    "len(result) == min(left_len, right_len)",
                    "0 <= result_len and result_len <= left_ptr and result_len <= right_ptr",
                    "inc(result, result_len)",
                    "forall(t, 0, result_len, ((left_ptr < left_len) >> (result[t] < left_array[left_ptr])) and ((right_ptr < right_len) >> (result[t] < right_array[right_ptr])))",
                    "forall(t, 0, result_len, mem(result[t], left_array, left_ptr) and mem(result[t], right_array, right_ptr))",
                    "forall(i, 0, left_ptr, forall(j, 0, right_ptr, (left_array[i] == right_array[j]) >> mem(left_array[i], result, result_len)))",
                    "forall(i, 0, left_ptr, (right_ptr < right_len) >> (left_array[i] < right_array[right_ptr]))",
                    "forall(j, 0, right_ptr, (left_ptr < left_len) >> (right_array[j] < left_array[left_ptr]))",
                ]
            },
            SAFETY={
                1: [
                    "left_len == len(left_array) and right_len == len(right_array)",
                    "0 <= left_ptr and left_ptr <= left_len and 0 <= right_ptr and right_ptr <= right_len",
                    "len(result) == min(left_len, right_len)",
                    "0 <= result_len and result_len <= left_ptr and result_len <= right_ptr",
                ]
            },
        )
    ],
}
