"""Scratch build of the repository's *current working tree* (DESIGN §5.1).

Every check imports catii from a scratch directory created with mkdtemp (outside
/repo and /verif): the .py files are copied from /repo/src/catii as found at check
time, and the extension module is compiled from the *current* set_operations.pyx.
The .so lying in /repo is never used (it is untracked and may be stale against an
edited .pyx).  Compilation results are cached by the SHA-256 of the .pyx text (plus
tool versions and the variant) under /verif/.cache/build: a hash-identical .pyx
compiles to the same extension, so the cache cannot hide a change to the source.
"""
import atexit
import fcntl
import hashlib
import os
import shutil
import subprocess
import sys
import sysconfig
import tempfile

REPO = os.environ.get("CATII_REPO", "/repo")
SRC = os.path.join(REPO, "src", "catii")
VERIF = os.path.dirname(os.path.dirname(os.path.abspath(__file__)))
CACHE = os.path.join(VERIF, ".cache", "build")
EXT_SUFFIX = sysconfig.get_config_var("EXT_SUFFIX")

_scratch_dirs = []


def _cleanup():
    for d in _scratch_dirs:
        shutil.rmtree(d, ignore_errors=True)


atexit.register(_cleanup)


def read_source(name):
    with open(os.path.join(SRC, name), "r", encoding="utf-8") as f:
        return f.read()


def sha(text):
    if isinstance(text, str):
        text = text.encode("utf-8")
    return hashlib.sha256(text).hexdigest()


def boundscheck_variant(pyx_text):
    """The mechanical, stated edit used for C09 replay builds: the two decorator
    literal `boundscheck(False)` flipped to True (turns a predicted out-of-bounds access
    into IndexError; wraparound stays False, so a negative index is out of bounds too)."""
    return pyx_text.replace("@cython.boundscheck(False)", "@cython.boundscheck(True)")


def build_extension(pyx_text, variant="prod"):
    """Return path of a compiled set_operations extension for this exact text."""
    import Cython
    import numpy

    key = sha(
        "\0".join([pyx_text, variant, Cython.__version__, numpy.__version__, sys.version, "v1"])
    )[:32]
    outdir = os.path.join(CACHE, key)
    so = os.path.join(outdir, "set_operations" + EXT_SUFFIX)
    os.makedirs(CACHE, exist_ok=True)
    with open(os.path.join(CACHE, ".lock"), "w") as lock:
        fcntl.flock(lock, fcntl.LOCK_EX)
        if os.path.exists(so):
            return so
        work = tempfile.mkdtemp(prefix="cvbuild-")
        try:
            pyx = os.path.join(work, "set_operations.pyx")
            with open(pyx, "w") as f:
                f.write(pyx_text)
            c = os.path.join(work, "set_operations.c")
            r = subprocess.run(
                [sys.executable, "-m", "cython", "-3", pyx, "-o", c],
                capture_output=True,
                text=True,
            )
            if r.returncode != 0:
                raise BuildError("cython failed:\n" + r.stdout + r.stderr)
            inc = sysconfig.get_paths()["include"]
            tmpso = os.path.join(work, "out.so")
            r = subprocess.run(
                [
                    "gcc", "-shared", "-fPIC", "-O2", "-fwrapv", "-w",
                    "-DNPY_NO_DEPRECATED_API=NPY_1_7_API_VERSION",
                    "-I", inc, "-I", numpy.get_include(), c, "-o", tmpso,
                ],
                capture_output=True,
                text=True,
            )
            if r.returncode != 0:
                raise BuildError("gcc failed:\n" + r.stdout + r.stderr[-4000:])
            os.makedirs(outdir, exist_ok=True)
            os.replace(tmpso, so)
        finally:
            shutil.rmtree(work, ignore_errors=True)
    return so


class BuildError(Exception):
    pass


def scratch_package(variant="prod", pyx_text=None):
    """Create <tmp>/catii with the working tree's .py files and a fresh extension.
    Returns the directory to put on sys.path."""
    if pyx_text is None:
        pyx_text = read_source("set_operations.pyx")
    if variant == "boundscheck":
        pyx_text = boundscheck_variant(pyx_text)
    so = build_extension(pyx_text, variant)
    root = tempfile.mkdtemp(prefix="cvpkg-")
    _scratch_dirs.append(root)
    pkg = os.path.join(root, "catii")
    os.makedirs(pkg)
    for fn in os.listdir(SRC):
        if fn.endswith(".py"):
            shutil.copy2(os.path.join(SRC, fn), os.path.join(pkg, fn))
    shutil.copy2(so, os.path.join(pkg, "set_operations" + EXT_SUFFIX))
    return root


_imported = {}


def import_catii(variant="prod"):
    """Import the scratch build under its real name `catii` (once per process)."""
    if "catii" in _imported:
        if _imported["catii"][0] != variant:
            raise RuntimeError("catii already imported as variant %r" % _imported["catii"][0])
        return _imported["catii"][1]
    root = scratch_package(variant)
    sys.path.insert(0, root)
    for m in [m for m in sys.modules if m == "catii" or m.startswith("catii.")]:
        del sys.modules[m]
    import catii  # noqa

    assert os.path.dirname(os.path.dirname(catii.__file__)) == root, catii.__file__
    _imported["catii"] = (variant, catii)
    return catii


def source_hashes(names):
    return {n: sha(read_source(n)) for n in names}
