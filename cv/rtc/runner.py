"""Sharded execution of an engine-C driver and translation of clause failures into verdicts."""
import multiprocessing
import os
import time

from .. import core
from .contract import Monitor

NPROC = int(os.environ.get("CV_WORKERS", str(min(16, os.cpu_count() or 4))))


def run_sharded(work, tier, nshards=None, extra=None):
    nshards = nshards or NPROC
    jobs = [((tier, i, nshards) if extra is None else (tier, i, nshards, extra)) for i in range(nshards)]
    ctx = multiprocessing.get_context("fork")
    mon = Monitor()
    mon.keep_per_obligation = 3
    totals = {"driver_calls": 0, "nontrivial": 0, "samples": [], "jobs": 0}
    with ctx.Pool(nshards) as pool:
        for out in pool.imap_unordered(work, jobs):
            mon.merge(out)
            totals["driver_calls"] += out.get("driver_calls", 0)
            totals["nontrivial"] += out.get("nontrivial", 0)
            totals["jobs"] = max(totals["jobs"], out.get("jobs", 0))
            for s in out.get("samples", []):
                if len(totals["samples"]) < 8:
                    totals["samples"].append(s)
    return mon, totals


def report(ctx, mon, totals, belongs, rule, expect_clauses=(), exhaustive=True, extra_cov=None):
    """belongs(obligation) -> bool: is this clause part of ctx.prop?"""
    mine = {ob: n for ob, n in mon.evals.items() if belongs(ob)}
    if (not mine or sum(mine.values()) == 0) and not ctx.violations:
        raise core.CheckerBroken("zero clause evaluations for %s" % ctx.prop)
    any_failure = any(belongs(f.obligation) for f in mon.failures) or bool(ctx.violations)
    stale = sorted(k[6:] for k, v in mon.calls.items() if k.startswith("stale:") and v)
    if stale:
        ctx.notes.append("proof_stale: the contracts of %r do not bind (private helper absent or with another signature); the contracts of the public callers decide" % (stale,))
        expect_clauses = [pat for pat in expect_clauses if not any(pat.split("/")[0].split(".")[-1] in t.split(".")[-1] or t.split(".")[-1] in pat.split("/")[0] for t in stale)]
    for pat in expect_clauses:
        if not any(pat in ob and n > 0 for ob, n in mine.items()) and not any_failure:
            # (when an earlier clause fails on every input - e.g. the function always raises - later
            #  clauses are legitimately never reached; that run reports the failures instead)
            raise core.CheckerBroken("clause %r was never evaluated (wrapper bypassed?)" % pat)
    for f in mon.failures:
        if not belongs(f.obligation):
            continue
        n = mon.fail_counts[f.obligation]
        ctx.violation(core.Violation(ctx.prop, f.obligation, "%s  [%d failing evaluations of this clause this run]" % (f.what, n),
                                     input=f.input, cls=f.cls))
    failing = sorted(ob for ob in mon.fail_counts if belongs(ob))
    ctx.coverage.update({
        "evaluations": int(sum(mine.values())) or 1,
        "distinct_nontrivial": int(totals["nontrivial"]),
        "rule": rule,
        "samples": totals["samples"] or [{"note": "no sample captured"}],
        "exhaustive": bool(exhaustive),
        "clause_evaluations": {k: int(v) for k, v in sorted(mine.items())},
        "calls_outside_requires": {k: int(v) for k, v in sorted(mon.outside.items()) if v},
        "driver_calls": int(totals["driver_calls"]),
        "failing_clauses": {ob: int(mon.fail_counts[ob]) for ob in failing},
    })
    if extra_cov:
        ctx.coverage.update(extra_cov)
