"""Spec layer for the aggregates both cube types offer (DESIGN §4.1, Appendix C; properties C03/C04).

`Spec_agg(views, fact, weights, ignore_missing, agg)` is the per-cell textbook definition: select
the rows of the cell, apply the statistic.  Pure Python / NumPy, independent of catii (nothing is
imported from the package under test; no bincount, no marginal differencing):

    rows(c)       {r : for all d, views[d][r] == c_d}
    valid_f       per row and per fact column: not NaN (NaN-marked form) / validity True (pair form)
    valid_w       per row: weights None => True; scalar => not NaN; array => not NaN; pair => validity
                  (a weight's validity applies to every fact column)
    valid         valid_f and valid_w
    count         sum_{rows, valid_w} w   (|rows| unweighted)
                  missing: rows = {} or (ignore ? no valid_w row : some not-valid_w row)
    valid_count   sum_{rows, valid} w     (1 per row unweighted)
                  missing: rows = {} or (ignore ? no valid row : some not-valid row)
    sum           sum_{rows, valid} w*f ; missing as valid_count
    mean          sum w*f / sum w over valid rows ; missing as valid_count, or sum_{valid} w == 0

`missing_rule(...)` states only the missing set, as a second, differently written formulation
(vectorised over a one-hot row/cell matrix) of the sentence of property C04: "a cell is reported
missing exactly when no input row falls in it, or when the fact or weight values of its rows are
missing: all of them if missing values are ignored, any of them otherwise (and, for a mean, when
the valid weights sum to zero)".  `cross_check` asserts that the two formulations coincide.
"""
import itertools
import math

import numpy as np

AGGS = ("count", "valid_count", "sum", "mean")


def split_var(x):
    """(values ndarray, validity bool ndarray) of a NaN-marked array / scalar or a (values, validity) pair."""
    if isinstance(x, tuple):
        vals = np.asarray(x[0])
        valid = np.array(x[1]).astype(bool)
    else:
        vals = np.asarray(x)
        valid = np.array(vals == vals, dtype=bool)  # NaN is the only value unequal to itself
    return vals, valid


def row_count(views, fact, weights, N=None):
    if N is not None:
        return int(N)
    if len(views):
        return int(np.shape(views[0])[0])
    if fact is not None:
        return int(split_var(fact)[0].shape[0])
    if weights is not None:
        w = split_var(weights)[0]
        if w.ndim:
            return int(w.shape[0])
    raise ValueError("row count is not determined by the inputs")


def row_weights(weights, N):
    """(w[r] as float list, valid_w[r] as bool list); weights None => w = 1, all valid."""
    if weights is None:
        return [1.0] * N, [True] * N
    w, vw = split_var(weights)
    if w.ndim == 0:
        return [float(w)] * N, [bool(vw)] * N
    return [float(v) for v in w.tolist()], [bool(v) for v in vw.tolist()]


def fact_columns(fact, N):
    """(f[r][m] floats, valid_f[r][m] bools, tail shape); the fact is flattened to (N, M) columns."""
    vals, valid = split_var(fact)
    tail = tuple(vals.shape[1:])
    M = 1
    for e in tail:
        M *= e
    v2 = vals.reshape(N, M)
    k2 = valid.reshape(N, M)
    f = [[float(x) for x in row] for row in v2.tolist()]
    vf = [[bool(x) for x in row] for row in k2.tolist()]
    return f, vf, tail, M


def extents_of(views, shape):
    if shape is not None:
        return tuple(int(e) for e in shape)
    return tuple(int(max(np.asarray(v).tolist())) + 1 for v in views)


def rows_of_cells(views, extents, N):
    """{cell: [row ids]} for every cell of the cube (the empty tuple is the single cell of a 0-d cube)."""
    vs = [np.asarray(v).tolist() for v in views]
    cells = {}
    for c in itertools.product(*[range(e) for e in extents]):
        cells[c] = [r for r in range(N) if all(vs[d][r] == c[d] for d in range(len(vs)))]
    return cells


def Spec_agg(views, fact, weights, ignore_missing, agg, shape=None, N=None, _cells=None):
    """Return (value, missing): float64 / bool arrays of shape extents + fact.shape[1:].

    `value` is NaN at missing cells (never compared there)."""
    if agg not in AGGS:
        raise ValueError(agg)
    N = row_count(views, fact if agg != "count" else None, weights, N)
    extents = extents_of(views, shape)
    cells = _cells if _cells is not None else rows_of_cells(views, extents, N)
    w, vw = row_weights(weights, N)
    if agg == "count":
        tail, M = (), 1
        f = vf = None
    else:
        f, vf, tail, M = fact_columns(fact, N)
    value = np.full(extents + (M,), np.nan, dtype=np.float64)
    missing = np.zeros(extents + (M,), dtype=bool)
    for c, rows in cells.items():
        for m in range(M):
            if agg == "count":
                ok = [r for r in rows if vw[r]]
            else:
                ok = [r for r in rows if vf[r][m] and vw[r]]
            okset = set(ok)
            bad = [r for r in rows if r not in okset]
            if not rows:
                miss = True
            elif ignore_missing:
                miss = not ok
            else:
                miss = bool(bad)
            val = float("nan")
            if agg == "count":
                val = float(len(rows)) if weights is None else math.fsum(w[r] for r in ok)
            elif agg == "valid_count":
                val = math.fsum(w[r] for r in ok)
            elif agg == "sum":
                val = math.fsum(w[r] * f[r][m] for r in ok)
            else:
                den = math.fsum(w[r] for r in ok)
                if den == 0:
                    miss = True
                else:
                    val = math.fsum(w[r] * f[r][m] for r in ok) / den
            missing[c + (m,)] = miss
            if not miss:
                value[c + (m,)] = val
    return value.reshape(extents + tail), missing.reshape(extents + tail)


def missing_rule(views, fact, weights, ignore_missing, agg, shape=None, N=None):
    """The missing set of C04's sentence, written without per-cell loops (one-hot algebra)."""
    N = row_count(views, fact if agg != "count" else None, weights, N)
    extents = extents_of(views, shape)
    size = 1
    for e in extents:
        size *= e
    cellno = np.zeros(N, dtype=np.int64)
    for v, e in zip(views, extents):
        cellno = cellno * e + np.asarray(v).astype(np.int64).reshape(N)
    onehot = (cellno[:, None] == np.arange(size)[None, :]).astype(np.int64)  # (N, size)
    if weights is None:
        wv = np.ones(N, dtype=np.float64)
        wk = np.ones(N, dtype=bool)
    else:
        wv, wk = split_var(weights)
        wv = np.broadcast_to(np.asarray(wv, dtype=np.float64), (N,))
        wk = np.broadcast_to(wk, (N,))
    if agg == "count":
        tail = ()
        rowvalid = wk.reshape(N, 1)
    else:
        fv, fk = split_var(fact)
        tail = tuple(fv.shape[1:])
        M = 1
        for e in tail:
            M *= e
        rowvalid = fk.reshape(N, M) & wk.reshape(N, 1)
    nrows = onehot.sum(axis=0).reshape(size, 1)
    nmissing = onehot.T @ (~rowvalid).astype(np.int64)  # (size, M)
    if ignore_missing:
        miss = (nrows == 0) | (nmissing == nrows)  # all of its rows are missing
    else:
        miss = (nrows == 0) | (nmissing > 0)  # any of its rows is missing
    if agg == "mean":
        validw = np.where(rowvalid, wv.reshape(N, 1), 0.0)
        miss = miss | ((onehot.T.astype(np.float64) @ validw) == 0)
    return miss.reshape(extents + tail)


def grand_total(fact, weights, agg, N):
    """|the aggregate's numerator over all rows| (max over fact columns): the scale of the tolerance."""
    w, vw = row_weights(weights, N)
    if agg == "count":
        return abs(math.fsum(w[r] for r in range(N) if vw[r]))
    f, vf, _, M = fact_columns(fact, N)
    best = 0.0
    for m in range(M):
        ok = [r for r in range(N) if vf[r][m] and vw[r]]
        if agg == "valid_count":
            t = math.fsum(w[r] for r in ok)
        else:
            t = math.fsum(w[r] * f[r][m] for r in ok)
        best = max(best, abs(t))
    return best


def tolerance(fact, weights, agg, N):
    return 1e-9 * max(1.0, grand_total(fact, weights, agg, N))


def cross_check(views, fact, weights, ignore_missing, agg, shape=None, N=None, _spec=None):
    """The two formulations of the missing set must coincide (checker self-consistency)."""
    m1 = (_spec if _spec is not None else Spec_agg(views, fact, weights, ignore_missing, agg, shape, N))[1]
    m2 = missing_rule(views, fact, weights, ignore_missing, agg, shape, N)
    if m1.shape != m2.shape or not np.array_equal(m1, m2):
        raise AssertionError("spec layer inconsistent: Spec_agg missing %r vs missing_rule %r" % (m1.tolist(), m2.tolist()))
    return True
