"""Contracts on the real functions behind the unweighted count cube and the walk (C02 / C14).

Chain (DESIGN §6 C02, C14), every link a contract on a real function, checked at every call that
is made while a cube is evaluated (also the nested calls on the 1-D sub-cubes of a stacked cube):

  C14   ccubes.ccube.walk / ccubes.ccube._walk / ccubes.ccube.interactions
            ghost trace of callback invocations: every func passed in is wrapped by a recorder; the
            multiset delivered during a call equals
               {(base_coords + c, base ∩ rows(c)) : c in prod_d(U_d ∪ {-1}) [minus all -1], non-empty}
            rows(c) by brute force on the dense views.  `_walk` has its clauses per branch of the
            recursion (first-dim / middle-dim / last-dim-*), so a fault in the middle-dimension
            branch is localised; its entry state (base_rowids is the running intersection of
            base_coords) is a clause of its own.
  C02   ffuncs.ffunc_count.get_initial_regions      corner == N, everything else 0, working shape
        ffuncs.ffunc_count.fill_func._fill          region'[coords] == len(rowids), frame
        ccubes.ccube._compute_common_cells_from_marginal_diffs
                requires  region == brute-force count at uncommon-or-margin cells, 0 at common cells
                ensures   region == brute-force count at every cell, margins included
        ffuncs.ffunc_count.reduce / ccubes.ccube.count
                out == brute-force table; missing exactly where the count is 0; exact shape

Preconditions (from the code and its call sites): dimensions are well-formed row-aligned indexes;
categories and common values are non-negative (-1 is the margin marker, and `dim.common` is used
as an array subscript); every extent exceeds every category of its dimension and its common value
(the inferred shape guarantees it, an explicit interacting_shape must); weights is None.
A zero-dimension cube is supported by the code when N is passed (`ccube([]).count(N=n)`: a 0-d
result holding n, missing when n == 0); without N it raises the documented ValueError.
"""
import collections

import numpy as np

from . import spec_cube as S
from .contract import MON, Contract, attach, wrap
from .speclib import U32, view, wf

# ----------------------------------------------------------------------------- ghost state


class Ghost:
    trace = []      # (func position, coords, rowids-as-delivered summary) in delivery order
    case = None     # JSON-able description of the driver's current case (replay input)
    cls = None      # classification attributes of the current case
    info = {}       # id(index) -> (index, facts) ; cleared with every case
    memo = {}       # spec-layer values of the current case (the driver never mutates an index inside a case)


def new_case(case=None, cls=None):
    Ghost.trace = []
    Ghost.case = case
    Ghost.cls = cls
    Ghost.info = {}
    Ghost.memo = {}


def memo(key, compute):
    """Spec values are functions of the dense views; inside a driver case (indexes never mutated,
    kept alive by Ghost.info) they are computed once.  Outside a declared case nothing is cached."""
    if Ghost.case is None:
        return compute()
    try:
        return Ghost.memo[key]
    except KeyError:
        v = Ghost.memo[key] = compute()
        return v


def ids(dims):
    return tuple(id(d) for d in dims)


class Recorder:
    """A func handed to walk/_walk, wrapped: records what it is given, then calls the func."""
    __slots__ = ("k", "f")

    def __init__(self, k, f):
        self.k = k
        self.f = f

    def __call__(self, coords, rowids):
        if isinstance(rowids, np.ndarray) and rowids.ndim == 1:
            summ = ("uint32" if rowids.dtype == U32 else str(rowids.dtype), tuple(rowids.tolist()))
        else:
            summ = ("not-a-1-D-ndarray:%s" % type(rowids).__name__, tuple(np.asarray(rowids).reshape(-1).tolist()))
        Ghost.trace.append((self.k, coords, summ))
        return self.f(coords, rowids)


def _is_idx(x):
    from catii import iindex

    return isinstance(x, iindex)


def dim_facts(idx):
    """(well-formed?, dense view, common) of an index, cached for the current case."""
    hit = Ghost.info.get(id(idx))
    if hit is not None and hit[0] is idx and Ghost.case is not None:
        return hit[1]
    if len(Ghost.info) > 4096:
        Ghost.info = {}
    if _is_idx(idx) and type(idx.shape) is tuple and idx.shape and isinstance(idx.shape[0], int) and idx.shape[0] > 1000000:
        # the spec side works on dense views: indexes of millions of rows are judged by the driver's own sparse oracle
        # (family hugeN), not by these contracts - calls on them fall outside the preconditions
        facts = (False, None, None, None)
        Ghost.info[id(idx)] = (idx, facts)
        return facts
    # an explicit entry with no rows is tolerated: it stands for no row, the walk has to skip it (C14: "matched by at least one row")
    ok = _is_idx(idx) and set(wf(idx)) <= {"empty-entry"} and type(idx.common) is int
    v = view(idx) if ok else None
    facts = (ok, v, idx.common if ok else None, v.tolist() if ok and v.ndim == 1 else None)
    Ghost.info[id(idx)] = (idx, facts)
    return facts


def dims_ok(dims, one_axis=False):
    """Row-aligned well-formed indexes with non-negative categories."""
    if not isinstance(dims, (list, tuple)):
        return False
    return memo(("dims_ok", ids(dims), one_axis), lambda: _dims_ok(dims, one_axis))


def _dims_ok(dims, one_axis):
    n = None
    for d in dims:
        ok, v, k, _ = dim_facts(d)
        if not ok or (one_axis and v.ndim != 1) or v.ndim > 3:
            return False
        if n is None:
            n = v.shape[0]
        if v.shape[0] != n or (v.size and int(v.min()) < 0):
            return False
    return True


def views_of(dims):
    return [dim_facts(d)[1] for d in dims]


def lists_of(dims):
    return [dim_facts(d)[3] for d in dims]


def commons_of(dims):
    return [dim_facts(d)[2] for d in dims]


def describe_dims(dims):
    out = []
    for d in dims:
        ok, v, k, _ = dim_facts(d)
        out.append({"dense": v.tolist(), "common": k} if ok else {"entries": {str(q): np.asarray(r).tolist() for q, r in dict.items(d)},
                                                                   "common": getattr(d, "common", None), "shape": list(getattr(d, "shape", ()))})
    return out


def describe_cube(cube):
    return {"dims": describe_dims(cube.dims), "interacting_shape": [int(e) for e in cube.interacting_shape]}


def _dd(dims):
    """dims of a call, spelled out only when no driver case identifies them already"""
    return "as in case" if Ghost.case is not None else describe_dims(dims)


def _dc(cube):
    return "as in case" if Ghost.case is not None else describe_cube(cube)


def cube_ok(cube):
    from catii import ccube

    if not (isinstance(cube, ccube) and dims_ok(cube.dims) and isinstance(cube.interacting_shape, tuple)
            and all(isinstance(e, (int, np.integer)) and not isinstance(e, bool) for e in cube.interacting_shape)):
        return False
    return memo(("admits", ids(cube.dims), tuple(cube.interacting_shape)),
                lambda: S.shape_admits(views_of(cube.dims), commons_of(cube.dims), cube.interacting_shape))


def _cls(extra=None):
    c = dict(Ghost.cls or {})
    if extra:
        c.update(extra)
    return c


# ----------------------------------------------------------------------------- C14: trace clauses


TRACE_CLAUSES = (
    ("delivers-every-nonempty-combination", "missing"),
    ("delivers-nothing-else-and-each-exactly-once", "extra"),
    ("rowids-equal-bruteforce-rows", "rows"),
    ("rowids-uint32-strictly-increasing-nonempty", "form"),
    ("never-presents-common-category", "common"),
)


def judge_trace(segment, expected, nfuncs, commons):
    """One pass over what was delivered; a verdict (True or message) per clause.

    segment   [(func position, coords, (dtype name, row ids as delivered))] in delivery order
    expected  {coords: rows} - the brute-force set; every func must receive exactly this
    commons   per coordinate position the dimension's common value (None: position of an earlier
              dimension, not handled by the call under contract)"""
    v = {"missing": True, "extra": True, "rows": True, "form": True, "common": True}

    def fail(key, k, msg):
        if v[key] is True:
            v[key] = "func #%d of %d: %s" % (k, nfuncs, msg)

    seen = [dict() for _ in range(nfuncs)]
    ncoord = len(commons)
    for k, c, (dt, rws) in segment:
        if not (0 <= k < nfuncs):
            fail("extra", k, "delivery to an unknown func position")
            continue
        got = seen[k]
        if c in got:
            fail("extra", k, "combination %r delivered more than once" % (c,))
        got[c] = rws
        exp = expected.get(c) if type(c) is tuple else None
        if exp is None:
            fail("extra", k, "delivered %r with rows %r, which is not a non-empty uncommon/marginal combination (exactly %r are)" % (
                c, list(rws), sorted(expected)[:12]))
        elif rws != exp:
            fail("rows", k, "at %r delivered row ids %r, brute force on the dense views gives %r" % (c, list(rws), list(exp)))
        if dt != "uint32":
            fail("form", k, "at %r delivered row ids of type/dtype %s, required a 1-D uint32 ndarray" % (c, dt))
        elif len(rws) == 0:
            fail("form", k, "at %r delivered an empty row id array" % (c,))
        elif len(rws) > 1 and any(y <= x for x, y in zip(rws, rws[1:])):
            fail("form", k, "at %r delivered row ids %r, not strictly increasing" % (c, list(rws)))
        if type(c) is not tuple or len(c) != ncoord:
            fail("common", k, "delivered coordinates %r, required a tuple of %d coordinates" % (c, ncoord))
        else:
            for pos in range(ncoord):
                if commons[pos] is not None and c[pos] == commons[pos]:
                    fail("common", k, "delivered %r: coordinate %d is that dimension's common value %r" % (c, pos, commons[pos]))
    for k in range(nfuncs):
        if len(seen[k]) < len(expected) or any(c not in seen[k] for c in expected):
            miss = [c for c in expected if c not in seen[k]]
            if miss:
                fail("missing", k, "never delivered: %r (rows %r); delivered %r" % (miss[:4], [list(expected[c]) for c in miss[:4]], sorted(seen[k])[:12]))
    return v


def trace_clauses(tag="", prefix="ensures-trace-"):
    """Clauses over old['expected'], old['nfuncs'], old['commons'] and the trace segment produced by
    old['segment'](old, res); see judge_trace."""
    sfx = "[%s]" % tag if tag else ""

    def verdicts(old, res):
        if "verdicts" not in old:
            old["verdicts"] = judge_trace(old["segment"](old, res), old["expected"], old["nfuncs"], old["commons"])
        return old["verdicts"]

    def clause(key):
        return lambda old, res, *a, **kw: verdicts(old, res)[key]

    return [(prefix + name + sfx, clause(key)) for name, key in TRACE_CLAUSES]


def _funcs_ok(funcs):
    return isinstance(funcs, (list, tuple)) and all(callable(f) for f in funcs)


def _rowids_ok(r, n):
    if r is None:
        return True
    if not (isinstance(r, np.ndarray) and r.dtype == U32 and r.ndim == 1):
        return False
    x = r.tolist()
    return all(b > a for a, b in zip(x, x[1:])) and (not x or x[-1] < n)


def _suffix_of(dims, all_dims):
    k = len(dims)
    return k <= len(all_dims) and all(a is b for a, b in zip(dims, all_dims[len(all_dims) - k:]))


def walk_signature_is_standard(fn):
    import inspect

    ps = list(inspect.signature(fn).parameters.values())
    return len(ps) == 5 and all(p.kind is p.POSITIONAL_OR_KEYWORD and p.default is p.empty for p in ps)


def install_walk(C):
    real = C.__dict__.get("_walk")
    if real is None:
        # the private recursion has another name: only the public walk / interactions contracts bind
        def real(self, *a, **k):
            raise AttributeError("_walk")
        MON.calls["stale:ccubes.ccube._walk"] += 1
    if getattr(real, "__cv_cube_layer__", False):
        return

    def traced(self, dims, base_coords, base_rowids, funcs):
        # ghost instrumentation only: the real function runs unchanged on recording funcs
        if isinstance(funcs, (list, tuple)) and not all(type(f) is Recorder for f in funcs):
            funcs = [f if type(f) is Recorder else Recorder(i, f) for i, f in enumerate(funcs)]
        return real(self, dims, base_coords, base_rowids, funcs)

    def w_requires(self, dims, base_coords, base_rowids, funcs):
        if not (dims_ok(dims, one_axis=True) and type(base_coords) is tuple and _funcs_ok(funcs)):
            return False
        n = views_of(dims)[0].shape[0] if len(dims) else 0
        return _rowids_ok(base_rowids, n) if len(dims) else (base_rowids is None or isinstance(base_rowids, np.ndarray))

    def w_old(self, dims, base_coords, base_rowids, funcs):
        commons = commons_of(dims)
        t0 = len(Ghost.trace)
        base = None if base_rowids is None else tuple(base_rowids.tolist())
        return {
            "t0": t0, "nfuncs": len(funcs), "commons": [None] * len(base_coords) + list(commons),
            "expected": memo(("trace", ids(dims), base_coords, base), lambda: S.expected_trace(lists_of(dims), commons, base_coords, base)),
            "segment": lambda old, res: Ghost.trace[old["t0"]:],
        }

    def w_describe(old, self, dims, base_coords, base_rowids, funcs):
        return {"case": Ghost.case, "call": "_walk", "dims": _dd(dims), "base_coords": list(base_coords),
                "base_rowids": None if base_rowids is None else base_rowids.tolist(), "nfuncs": len(funcs)}

    def entry_state(old, res, self, dims, base_coords, base_rowids, funcs):
        # caller's obligation, judged here so that the branch that made the call is named
        if not (dims_ok(self.dims, one_axis=True) and _suffix_of(dims, self.dims) and len(base_coords) == len(self.dims) - len(dims)):
            return True
        if all(c == S.MARGIN for c in base_coords):
            return True if base_rowids is None else "every earlier coordinate is marginal but base_rowids is %r, required None" % (base_rowids.tolist(),)
        if base_rowids is None:
            return "base_coords %r has a non-marginal coordinate but base_rowids is None" % (base_coords,)
        exp = memo(("rows", ids(self.dims[:len(base_coords)]), base_coords), lambda: S.rows(lists_of(self.dims[:len(base_coords)]), base_coords))
        return True if tuple(base_rowids.tolist()) == exp else "base_rowids %r for base_coords %r, the rows matching them are %r" % (
            base_rowids.tolist(), base_coords, list(exp))

    def variant(tag):
        return wrap(traced, Contract(
            "ccubes.ccube._walk", requires=w_requires, old=w_old, describe=w_describe,
            classify=lambda old, self, dims, *a, **kw: _cls({"walk_branch": tag, "ndims_left": len(dims)}),
            ensures=trace_clauses(tag) + [("entry-base-rowids-are-the-running-intersection[%s]" % tag, entry_state)]))

    variants = {t: variant(t) for t in ("first-dim", "middle-dim", "last-dim-unrestricted", "last-dim-restricted", "no-dim")}

    def _walk(self, dims, base_coords, base_rowids, funcs):
        try:
            n = len(dims)
        except TypeError:
            n = -1
        if n > 1:
            tag = "first-dim" if base_rowids is None else "middle-dim"
        elif n == 1:
            tag = "last-dim-unrestricted" if base_rowids is None else "last-dim-restricted"
        else:
            tag = "no-dim"
        return variants[tag](self, dims, base_coords, base_rowids, funcs)

    _walk.__cv_cube_layer__ = True
    _walk.__wrapped_real__ = real
    _walk.__name__ = "_walk"
    if "_walk" in C.__dict__ and walk_signature_is_standard(real):
        C._walk = _walk
    else:
        MON.calls["stale:ccubes.ccube._walk"] += 1
        # `_walk` is private: with another signature its per-branch contract does not bind (stale, not a failure);
        # the public walk / interactions contracts below still judge the whole trace, the recording moves to walk
        real_walk = C.__dict__["walk"]

        def walk_recording(self, func_or_funcs):
            if isinstance(func_or_funcs, (tuple, list)):
                fs = type(func_or_funcs)(f if type(f) is Recorder else Recorder(i, f) for i, f in enumerate(func_or_funcs))
            else:
                fs = func_or_funcs if type(func_or_funcs) is Recorder else Recorder(0, func_or_funcs)
            return real_walk(self, fs)

        walk_recording.__name__ = "walk"
        walk_recording.__doc__ = real_walk.__doc__
        C.walk = walk_recording

    # ---- walk(func_or_funcs)
    def nf(func_or_funcs):
        return len(func_or_funcs) if isinstance(func_or_funcs, (tuple, list)) else 1

    def walk_requires(self, func_or_funcs):
        fs = func_or_funcs if isinstance(func_or_funcs, (tuple, list)) else [func_or_funcs]
        return dims_ok(self.dims, one_axis=True) and _funcs_ok(fs)

    def walk_old(self, func_or_funcs):
        commons = commons_of(self.dims)
        return {"t0": len(Ghost.trace), "nfuncs": nf(func_or_funcs), "commons": list(commons),
                "expected": memo(("trace", ids(self.dims), (), None), lambda: S.expected_trace(lists_of(self.dims), commons)),
                "segment": lambda old, res: Ghost.trace[old["t0"]:]}

    attach(C, "walk", Contract(
        "ccubes.ccube.walk", requires=walk_requires, old=walk_old,
        describe=lambda old, self, func_or_funcs: {"case": Ghost.case, "call": "walk", "dims": _dd(self.dims), "nfuncs": nf(func_or_funcs)},
        classify=lambda old, self, func_or_funcs: _cls({"ndims": len(self.dims)}),
        ensures=trace_clauses()))

    # ---- interactions()
    def int_old(self):
        commons = commons_of(self.dims)

        def segment(old, res):
            out = []
            for item in res:
                c, r = item
                out.append((0, c, (str(r.dtype), tuple(r.tolist())) if isinstance(r, np.ndarray) and r.ndim == 1
                            else ("not-a-1-D-ndarray:%s" % type(r).__name__, tuple(np.asarray(r).reshape(-1).tolist()))))
            return out
        return {"nfuncs": 1, "commons": list(commons), "segment": segment,
                "expected": memo(("trace", ids(self.dims), (), None), lambda: S.expected_trace(lists_of(self.dims), commons))}

    attach(C, "interactions", Contract(
        "ccubes.ccube.interactions", requires=lambda self: dims_ok(self.dims, one_axis=True), old=int_old,
        describe=lambda old, self: {"case": Ghost.case, "call": "interactions", "dims": _dd(self.dims)},
        classify=lambda old, self: _cls({"ndims": len(self.dims)}),
        ensures=[("ensures-returns-list-of-pairs", lambda old, res, self: True if (isinstance(res, list) and all(
            isinstance(p, tuple) and len(p) == 2 for p in res)) else "returned %r" % (res,))
                 ] + trace_clauses(prefix="ensures-result-")))


# ----------------------------------------------------------------------------- C02: count chain


def _tables(cube, n0=None):
    """Spec tables of a cube (read-only; computed once per driver case): the brute-force count
    table, the working table with margins, the table as walk + fill must leave it, the margin mask."""
    def compute():
        views, commons, ish = views_of(cube.dims), commons_of(cube.dims), cube.interacting_shape
        t = {"count": S.count_table(views, ish) if cube.dims else np.array(n0, dtype=np.int64),
             "working": S.working_table(views, ish, n0), "before": S.before_differencing(views, commons, ish, n0),
             "margin": S.has_margin_coordinate_mask(views, ish)}
        for a in t.values():
            a.flags.writeable = False
        return t
    return memo(("tables", ids(cube.dims), tuple(cube.interacting_shape), n0), compute)


def _n_rows(cube, N=None):
    if N is not None:
        return N
    return cube.dims[0].shape[0] if cube.dims else None


def _eq_table(got, exp, what):
    got = np.asarray(got)
    if got.shape != exp.shape:
        return "%s: shape %r, required %r" % (what, got.shape, exp.shape)
    if np.array_equal(got, exp):
        return True
    return "%s: region %s, required %s; %s" % (what, S.brief(got), S.brief(exp), S.first_differences(got, exp))


def install_count(C, F):
    FC = F.ffunc_count
    if getattr(FC.__dict__["fill_func"], "__cv_cube_layer__", False):
        return

    # ---- get_initial_regions (unweighted)
    def gir_requires(self, cube):
        if self.weights is not None or not cube_ok(cube):
            return False
        n = _n_rows(cube, self.N)
        return n is not None and type(n) is int and (not cube.dims or n == cube.dims[0].shape[0])

    def gir_old(self, cube):
        views = views_of(cube.dims)
        ws = S.scaffold_shape(views) + tuple(e + 1 for e in cube.interacting_shape)
        corner = np.zeros(ws, dtype=bool)
        corner[(slice(None),) * len(S.scaffold_shape(views)) + (-1,) * len(cube.dims)] = True
        return {"ws": ws, "corner": corner, "n": _n_rows(cube, self.N)}

    def gir_shape(old, res, self, cube):
        if not (isinstance(res, tuple) and len(res) == 1 and isinstance(res[0], np.ndarray)):
            return "returned %r, required a 1-tuple holding one ndarray" % (type(res).__name__,)
        ok = res[0].shape == old["ws"] and tuple(cube.working_shape) == old["ws"]
        return True if ok else "region shape %r / cube.working_shape %r, required scaffold + (extent + 1) = %r" % (res[0].shape, cube.working_shape, old["ws"])

    def gir_corner(old, res, self, cube):
        got = res[0][old["corner"]]
        return True if (got == old["n"]).all() else "corner cell(s) %r, required the number of rows %r" % (got.tolist(), old["n"])

    def gir_rest(old, res, self, cube):
        got = res[0][~old["corner"]]
        return True if (got == 0).all() else "%d cell(s) other than the corner are not 0: %s" % (int((got != 0).sum()), S.brief(res[0]))

    attach(FC, "get_initial_regions", Contract(
        "ffuncs.ffunc_count.get_initial_regions", requires=gir_requires, old=gir_old,
        describe=lambda old, self, cube: {"case": Ghost.case, "call": "get_initial_regions", "cube": _dc(cube), "N": self.N},
        classify=lambda old, self, cube: _cls(),
        ensures=[("ensures-one-region-of-working-shape", gir_shape), ("ensures-corner-cell-equals-row-count", gir_corner),
                 ("ensures-every-other-cell-zero", gir_rest)]))

    # ---- fill_func -> the _fill closure is itself under contract
    def fill_contract(counts):
        base = counts.base if isinstance(counts.base, np.ndarray) else None

        def f_requires(x_coords, x_rowids):
            return (type(x_coords) is tuple and len(x_coords) == counts.ndim and isinstance(x_rowids, np.ndarray)
                    and all(type(c) is int and (c == -1 or 0 <= c < e - 1) for c, e in zip(x_coords, counts.shape)))

        def f_old(x_coords, x_rowids):
            return {"before": counts.copy(), "base": None if base is None else base.copy()}

        def f_cell(old, res, x_coords, x_rowids):
            got = counts[x_coords]
            return True if got == len(x_rowids) else "cell %r holds %r after the call, required len(rowids) = %d" % (x_coords, got.item(), len(x_rowids))

        def f_rest(old, res, x_coords, x_rowids):
            exp = old["before"]
            exp[x_coords] = counts[x_coords]
            return True if np.array_equal(counts, exp) else "cells other than %r changed: %s" % (x_coords, S.first_differences(counts, exp))

        def f_frame(old, res, x_coords, x_rowids):
            # cells of the stacked region outside this sub-cube's block must be untouched
            if base is None:
                return True
            exp = old["base"]
            if not (base.flags.c_contiguous and exp.flags.c_contiguous and exp.strides == base.strides):
                return "cannot locate the sub-cube block inside the stacked region (layout %r)" % (base.strides,)
            off = counts.__array_interface__["data"][0] - base.__array_interface__["data"][0]
            block = np.ndarray(shape=counts.shape, dtype=counts.dtype, buffer=exp, offset=off, strides=counts.strides)
            block[...] = counts
            return True if np.array_equal(base, exp) else "cells of the stacked region outside this sub-cube's block changed: %s" % S.first_differences(base, exp)

        return Contract(
            "ffuncs.ffunc_count.fill_func._fill", requires=f_requires, old=f_old,
            describe=lambda old, x_coords, x_rowids: {"case": Ghost.case, "call": "_fill", "coords": list(x_coords), "rowids": x_rowids.tolist()},
            classify=lambda old, x_coords, x_rowids: _cls(),
            ensures=[("ensures-cell-equals-number-of-rowids", f_cell), ("ensures-every-other-cell-unchanged", f_rest),
                     ("frame-rest-of-stacked-region-unchanged", f_frame)])

    attach(FC, "fill_func", Contract(
        "ffuncs.ffunc_count.fill_func",
        requires=lambda self, regions: self.weights is None and isinstance(regions, (tuple, list)) and len(regions) == 1 and isinstance(regions[0], np.ndarray),
        describe=lambda old, self, regions: {"case": Ghost.case, "call": "fill_func"}, classify=lambda old, self, regions: _cls(),
        ensures=[("ensures-returns-callable", lambda old, res, self, regions: True if callable(res) else "returned %r" % (res,))]))
    contracted_ff = FC.__dict__["fill_func"]

    def fill_func(self, regions):
        f = contracted_ff(self, regions)
        if self.weights is None and isinstance(regions, (tuple, list)) and len(regions) == 1 and isinstance(regions[0], np.ndarray) and callable(f):
            return wrap(f, fill_contract(regions[0]))
        return f

    fill_func.__cv_cube_layer__ = True
    fill_func.__wrapped_real__ = contracted_ff
    FC.fill_func = fill_func

    # ---- _compute_common_cells_from_marginal_diffs on an unweighted count region
    def md_tables(cube, region):
        views, commons = views_of(cube.dims), commons_of(cube.dims)
        n0 = None
        if not cube.dims:
            n0 = region[()].item() if isinstance(region, np.ndarray) and region.shape == () else None
        return views, commons, n0

    def md_requires(self, region):
        if not (cube_ok(self) and isinstance(region, np.ndarray)):
            return False
        views, commons, n0 = md_tables(self, region)
        ws = S.scaffold_shape(views) + tuple(e + 1 for e in self.interacting_shape)
        if region.shape != ws or (not self.dims and n0 is None):
            return False
        return np.array_equal(region, _tables(self, n0)["before"])

    def md_old(self, region):
        views, commons, n0 = md_tables(self, region)
        t = _tables(self, n0)
        return {"full": t["working"], "margin": t["margin"], "before": region.copy()}

    def md_block(old, res, self, region):
        m = old["margin"]
        if np.array_equal(region[~m], old["full"][~m]):
            return True
        exp = np.where(m, region, old["full"])
        return "marginless block after differencing: %s" % S.first_differences(region, exp)

    def md_margins(old, res, self, region):
        m = old["margin"]
        if np.array_equal(region[m], old["full"][m]):
            return True
        exp = np.where(m, old["full"], region)
        return "margin cells after differencing (required: the marginal totals, common coordinates included): %s" % S.first_differences(region, exp)

    attach(C, "_compute_common_cells_from_marginal_diffs", Contract(
        "ccubes.ccube._compute_common_cells_from_marginal_diffs", requires=md_requires, old=md_old,
        describe=lambda old, self, region: {"case": Ghost.case, "call": "_compute_common_cells_from_marginal_diffs", "cube": _dc(self),
                                            "region_before": None if Ghost.case is not None else S.brief(old["before"])},
        classify=lambda old, self, region: _cls(),
        ensures=[("ensures-every-cell-of-marginless-block-equals-bruteforce-count", md_block),
                 ("ensures-margin-cells-hold-bruteforce-marginal-totals", md_margins),
                 ("ensures-returns-none", lambda old, res, self, region: True if res is None else "returned %r" % (res,))]))

    # ---- reduce (unweighted) and ccube.count(weights=None)
    def red_requires(self, cube, regions):
        if not (self.weights is None and cube_ok(cube) and isinstance(regions, (tuple, list)) and len(regions) == 1 and isinstance(regions[0], np.ndarray)):
            return False
        views = views_of(cube.dims)
        if regions[0].shape != S.scaffold_shape(views) + tuple(e + 1 for e in cube.interacting_shape):
            return False
        return bool(cube.dims) or type(regions[0][()].item()) in (int, float)

    def red_old(self, cube, regions):
        views, commons = views_of(cube.dims), commons_of(cube.dims)
        n0 = regions[0][()].item() if not cube.dims else None
        t = _tables(cube, None if n0 is None else int(n0))
        return {"table": t["count"], "entry": regions[0].copy(), "entry_required": t["before"]}

    def red_entry(old, res, self, cube, regions):
        return _eq_table(old["entry"], old["entry_required"],
                         "region handed to reduce (required: brute-force count at uncommon-or-margin cells, 0 at common cells)")

    def report_clauses(fmt_of):
        return [
            ("ensures-shape-is-scaffold-plus-interacting-shape", lambda old, res, *a, **kw: S.report_shape(res, old["table"], fmt_of(*a, **kw))),
            ("ensures-missing-exactly-where-bruteforce-count-is-zero", lambda old, res, *a, **kw: S.report_missing(res, old["table"], fmt_of(*a, **kw))),
            ("ensures-cells-equal-bruteforce-count-table", lambda old, res, *a, **kw: S.report_values(res, old["table"], fmt_of(*a, **kw))),
        ]

    attach(FC, "reduce", Contract(
        "ffuncs.ffunc_count.reduce", requires=red_requires, old=red_old,
        describe=lambda old, self, cube, regions: {"case": Ghost.case, "call": "reduce", "cube": _dc(cube), "return_missing_as": repr(self.return_missing_as),
                                                   "region": None if Ghost.case is not None else S.brief(old["entry"])},
        classify=lambda old, self, cube, regions: _cls({"format": S.report_kind(self.return_missing_as)}),
        ensures=[("entry-region-is-what-walk-and-fill-must-leave", red_entry)] + report_clauses(lambda self, cube, regions: self.return_missing_as)))

    def cnt_requires(self, weights=None, N=None, ignore_missing=False, return_missing_as=F.NaN):
        if weights is not None or not cube_ok(self):
            return False
        if not self.dims:
            return type(N) is int and N >= 0
        return N is None or N == self.dims[0].shape[0]

    def cnt_old(self, weights=None, N=None, ignore_missing=False, return_missing_as=F.NaN):
        views = views_of(self.dims)
        return {"table": _tables(self, None if self.dims else N)["count"]}

    attach(C, "count", Contract(
        "ccubes.ccube.count", requires=cnt_requires, old=cnt_old,
        describe=lambda old, self, weights=None, N=None, ignore_missing=False, return_missing_as=F.NaN: {
            "case": Ghost.case, "call": "count", "cube": _dc(self), "N": N, "ignore_missing": ignore_missing,
            "return_missing_as": repr(return_missing_as)},
        classify=lambda old, self, weights=None, N=None, ignore_missing=False, return_missing_as=F.NaN: _cls(
            {"format": S.report_kind(return_missing_as), "weights": None}),
        ensures=report_clauses(lambda self, weights=None, N=None, ignore_missing=False, return_missing_as=F.NaN: return_missing_as)))


def install(walk=True, count=True):
    """Attach the contracts to the scratch-imported catii (after env.import_catii()).
    walk: the C14 contracts on walk/_walk/interactions; count: the C02 chain."""
    import catii.ccubes as CM
    import catii.ffuncs as FM

    if walk:
        install_walk(CM.ccube)
    if count:
        install_count(CM.ccube, FM)
    import catii

    if getattr(catii, "ccube", CM.ccube) is not CM.ccube:
        raise RuntimeError("catii.ccube is not catii.ccubes.ccube")
    return CM, FM


def property_of(obligation):
    """walk / _walk / interactions clauses are C14's; the count chain is C02's."""
    target = obligation.split("/", 1)[0]
    if target in ("ccubes.ccube.walk", "ccubes.ccube._walk", "ccubes.ccube.interactions"):
        return "C14"
    return "C02"


__all__ = ["install", "property_of", "new_case", "Ghost", "MON"]
