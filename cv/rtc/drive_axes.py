"""Small-scope driver for C13 - extra axes are outermost, in order, and index independent sub-cubes.

Relational property whose oracle the property text defines through the library itself ("the block found at any
combination of extra-axis positions equals the cube computed from the corresponding one-dimensional slices alone").
For both cube types (ccube dims: indexes built with `speclib.mk` from dense arrays of shape (N,C) / (N,C,D); xcube
dims: the same dense arrays), for dimension lists with 1-2 multi-axis dimensions whose extra extents are pairwise
different (what exposes a transposition), and every aggregate of C03 (xcube also stddev / min / max):

    <owner>.<agg>/extra-axes-shape-extra-extents-then-categories-then-fact-columns
            result.shape == extra extents (dimension order, then axis order within a dimension) + category extents (+ fact columns)
    <owner>.<agg>/extra-axes-block-equals-cube-of-1d-slices-missing-cells   |  for EVERY combination (j1..jm) of extra-axis positions
    <owner>.<agg>/extra-axes-block-equals-cube-of-1d-slices-values          |  result[j1..jm] == same aggregate over the dims sliced there
    <owner>.<agg>/extra-axes-no-raise
    <owner>.count/extra-axes-shape-with-inferred-category-extents           (interacting_shape=None)

and contracts attached to the real `ccube.product` / `xcube.product` (checked on every call the library makes):

    ccubes.ccube.product/ensures-each-coordinate-combination-exactly-once
    ccubes.ccube.product/ensures-first-dimension-outermost        (per-dimension order = whatever slices1d yields; NOT constrained)
    ccubes.ccube.product/ensures-data-is-the-1d-slice-at-its-coordinates
    xcubes.xcube.product/ensures-each-coordinate-combination-exactly-once
    xcubes.xcube.product/ensures-documented-order-first-coordinate-outermost

interacting_shape is explicit (exceeds every value and every common) and the same for the cube and its sub-cubes.
"""
import itertools

import numpy as np

from .contract import MON, Contract, wrap
from .drive_encoding import (Call, dims_from_index, evaluate, pick_calls, quiet, ramp, same_missing, same_values, spaced,
                             total_datasets)
from .speclib import describe, mk, view, wf

OWNER = {"ccube": "ccubes.ccube", "xcube": "xcubes.xcube"}


# ----------------------------------------------------------------------------- contracts on product


def install():
    import catii.ccubes as CM
    import catii.xcubes as XM

    if getattr(CM.ccube.product, "__cv_contract__", None) is not None:
        return

    # ---- ccube.product(): itertools.product over per-dimension generators of {"coords", "data"}
    raw_c = CM.ccube.__dict__["product"]

    def c_listed(self):
        return list(raw_c(self))  # materialised so that the postcondition can read it; the caller iterates the list

    def c_old(self):
        return {"views": [view(d) for d in self.dims], "commons": [d.common for d in self.dims]}

    def c_coords(res):
        return [tuple(tuple(int(x) for x in e["coords"]) for e in combo) for combo in res]

    def c_once(old, res, self):
        want = sorted(itertools.product(*[list(np.ndindex(*v.shape[1:])) for v in old["views"]]))
        got = c_coords(res)
        return True if sorted(got) == want else "coordinate combinations %r, required each of %r exactly once" % (got, want)

    def c_order(old, res, self):
        got = c_coords(res)
        seqs = []
        for d in range(len(old["views"])):
            seen = []
            for co in got:
                if co[d] not in seen:
                    seen.append(co[d])
            seqs.append(seen)
        want = list(itertools.product(*seqs))
        return True if got == want else "combinations come as %r; with the first dimension outermost they would come as %r" % (got, want)

    def c_data(old, res, self):
        for combo in res:
            for d, e in enumerate(combo):
                s, co, v = e["data"], tuple(e["coords"]), old["views"][d]
                if wf(s):
                    return "slice of dimension %d at %r is not well-formed: %r" % (d, co, wf(s))
                exp = v[(slice(None),) + co]
                if tuple(s.shape) != (v.shape[0],) or s.common != old["commons"][d] or not np.array_equal(view(s), exp):
                    return "slice of dimension %d at coordinates %r stands for %r (common %r), required %r (common %r)" % (
                        d, co, view(s).tolist(), s.common, exp.tolist(), old["commons"][d])
        return True

    def multi_axis(self):
        # C13 quantifies over dimension lists with at least one multi-axis dimension; the library also calls product()
        # on every all-1-D (sub-)cube, where it is the single empty combination - those calls are passed through
        return any(len(d.shape) > 1 for d in self.dims)

    CM.ccube.product = wrap(c_listed, Contract(
        "ccubes.ccube.product", requires=multi_axis, old=c_old,
        describe=lambda old, self: {"cube": "ccube", "dims": [describe(d) for d in self.dims], "interacting_shape": list(self.interacting_shape)},
        classify=lambda old, self: {"cube": "ccube", "extra_extents": list(self.scaffold_shape)},
        ensures=[("ensures-each-coordinate-combination-exactly-once", c_once),
                 ("ensures-first-dimension-outermost", c_order),
                 ("ensures-data-is-the-1d-slice-at-its-coordinates", c_data)]))

    # ---- xcube.product (a property): itertools.product of per-dimension coordinate tuples, None for a 1-D dim
    raw_x = XM.xcube.__dict__["product"].fget

    def x_listed(self):
        return list(raw_x(self))

    def x_want(self):
        per = []
        for d in self.dims:
            s = np.asarray(d).shape[1:]
            per.append([tuple(int(x) for x in c) for c in np.ndindex(*s)] if s else [None])
        out = [()]
        for p in per:  # lexicographic: the first dimension, and within it the first axis, is the outermost loop
            out = [o + (c,) for o in out for c in p]
        return out

    def x_norm(res):
        return [tuple(None if c is None else tuple(int(x) for x in c) for c in combo) for combo in res]

    def x_once(old, res, self):
        want, got = x_want(self), x_norm(res)
        key = lambda t: tuple((0,) if c is None else (1,) + c for c in t)  # noqa
        return True if sorted(map(key, got)) == sorted(map(key, want)) else \
            "coordinate combinations %r, required each of %r exactly once" % (got, want)

    def x_order(old, res, self):
        want, got = x_want(self), x_norm(res)
        return True if got == want else "combinations come as %r, documented order (first coordinate outermost) is %r" % (got, want)

    XM.xcube.product = property(wrap(x_listed, Contract(
        "xcubes.xcube.product", requires=multi_axis,
        describe=lambda old, self: {"cube": "xcube", "dims": [np.asarray(d).tolist() for d in self.dims],
                                    "interacting_shape": [int(e) for e in self.interacting_shape]},
        classify=lambda old, self: {"cube": "xcube", "extra_extents": list(self.scaffold_shape)},
        ensures=[("ensures-each-coordinate-combination-exactly-once", x_once),
                 ("ensures-documented-order-first-coordinate-outermost", x_order)])))


# ----------------------------------------------------------------------------- the relational clauses


def make_cube(kind, views, commons, shape):
    if kind == "ccube":
        from catii import ccube

        return ccube([mk(v, c) for v, c in zip(views, commons)], shape)
    from catii import xcube

    return xcube([v.copy() for v in views], shape)


def case_input(kind, views, commons, shape, call):
    return {"cube": kind, "dims": [v.tolist() for v in views], "commons": [int(c) for c in commons] if kind == "ccube" else None,
            "interacting_shape": None if shape is None else [int(e) for e in shape], "call": call.describe()}


def split(j, struct):
    out, p = [], 0
    for s in struct:
        out.append(tuple(j[p:p + len(s)]))
        p += len(s)
    return out


def check_axes(kind, views, commons, shape, call):
    """Shape clause and one block clause per combination of extra-axis positions; returns the number of blocks compared."""
    struct = [tuple(v.shape[1:]) for v in views]
    extra = tuple(e for s in struct for e in s)
    shape = tuple(int(e) for e in shape)
    ob = "%s.%s/extra-axes" % (OWNER[kind], call.agg)
    cls = dict(call.cls(), cube=kind, extra_extents=list(extra), dims=len(views), axes=[len(s) + 1 for s in struct])
    inp = lambda: case_input(kind, views, commons, shape, call)  # noqa
    full = evaluate(call, lambda: make_cube(kind, views, commons, shape))
    MON.check(ob + "-no-raise", full.err is None, lambda: "the call %s" % full.show(), inp, cls)
    if full.err is not None:
        return 0
    want = extra + shape + call.tail()
    MON.check(ob + "-shape-extra-extents-then-categories-then-fact-columns", all(s == want for s in full.raw_shapes),
              lambda: "result shape %r, required %r = extra extents %r + category extents %r + fact columns %r" % (
                  full.raw_shapes, want, extra, shape, call.tail()), inp, cls)
    n = 0
    for j in np.ndindex(*extra):
        parts = split(j, struct)
        sl = [v[(slice(None),) + p] for v, p in zip(views, parts)]
        sub = evaluate(call, lambda: make_cube(kind, sl, commons, shape))
        MON.check(ob + "-no-raise", sub.err is None, lambda: "the call on the 1-D slices at %r %s" % (j, sub.show()),
                  lambda: case_input(kind, sl, commons, shape, call), cls)
        if sub.err is not None:
            continue
        try:
            blk = full.block(j)
            r1, r2 = same_missing(blk, sub), same_values(blk, sub, call.fmt)
        except IndexError:
            blk = None
            r1 = r2 = "the result (shape %r) has no block at extra-axis positions %r" % (full.vals.shape, j)

        def what():
            return "block at extra-axis positions %r (per dimension %r): %s ; cube of the 1-D slices there: %s" % (
                list(j), parts, blk.show() if blk is not None else "-", sub.show())

        n += 1
        MON.check(ob + "-block-equals-cube-of-1d-slices-missing-cells", r1, what, inp, cls)
        MON.check(ob + "-block-equals-cube-of-1d-slices-values", r2, what, inp, cls)
        if call.agg == "count" and call.w_form == "none" and blk is not None:
            # an oracle that does not go through the library at all (added after a seeded fill_one_cube change made the
            # block and the cube of its slices wrong in the same way): the unweighted count of the block is the
            # brute-force contingency table of the 1-D slices
            tab = np.zeros(shape, dtype=np.int64)
            for r in range(sl[0].shape[0]):
                tab[tuple(int(v[r]) for v in sl)] += 1
            okm = blk.miss.shape == tab.shape and bool(((tab == 0) == blk.miss).all())
            okv = okm and bool((np.asarray(blk.vals, dtype=float)[tab > 0] == tab[tab > 0]).all())
            MON.check(ob + "-block-equals-bruteforce-count-of-the-slices", okm and okv,
                      lambda: "block at %r: %s ; brute-force count table %r" % (list(j), blk.show(), tab.tolist()), inp, cls)
    return n


def check_axes_after_mutation(views, commons, shape):
    """The block clause on cubes built from the SAME index objects before and after a library operation mutates one of
    them (a whole entry of a multi-axis dimension removed by difference_update, then rows appended): whatever an index
    remembers between cubes has to follow its content.  Oracle: brute-force count table of the 1-D slices of the
    mutated dimension's spec view."""
    from catii import ccube

    struct = [tuple(v.shape[1:]) for v in views]
    multi = [i for i, s_ in enumerate(struct) if s_]
    if not multi:
        return 0
    N = views[0].shape[0]
    call = Call(("count", None, 0, "none", False, "nan"), N, 0, 0)
    idx = [mk(v, c) for v, c in zip(views, commons)]
    cube1 = ccube(idx, shape)
    evaluate(call, lambda: cube1)  # the first aggregate, on a cube that is used again below
    i = multi[0]
    x = idx[i]
    if len(x) == 0:
        return 0
    k0 = sorted(x.keys())[0]
    other = type(x)({k0: np.array(x[k0], dtype=np.uint32)}, x.common, x.shape)
    try:
        x.difference_update(other)
    except Exception:  # noqa  (C06 judges the operation itself)
        return 0
    if wf(x):
        return 0
    views2 = list(views)
    views2[i] = view(x)
    extra = tuple(e for s_ in struct for e in s_)
    shape = tuple(int(e) for e in shape)
    n = 0
    for which, full in (("a new cube over the same index objects", evaluate(call, lambda: ccube(idx, shape))), ("the same cube object", evaluate(call, lambda: cube1))):
        n += _blocks_against_current_content(full, which, views, views2, commons, shape, struct, extra, call, i, k0, N)
    return n


def _blocks_against_current_content(full, which, views, views2, commons, shape, struct, extra, call, i, k0, N):
    ob = "ccubes.ccube.count/extra-axes-after-mutation-of-a-dimension"
    cls = {"cube": "ccube", "extra_extents": list(extra), "dims": len(views), "history": "count, difference_update(one whole entry), count on " + which}
    inp = lambda: dict(case_input("ccube", views, commons, shape, call), history=["c = ccube(dims); c.count()", "dims[%d].difference_update({%r: its rows})" % (i, list(k0)), "count() on " + which])  # noqa
    MON.check(ob + "-no-raise", full.err is None, lambda: "the call %s" % full.show(), inp, cls)
    if full.err is not None:
        return 0
    n = 0
    for j in np.ndindex(*extra):
        parts = split(j, struct)
        sl = [v[(slice(None),) + p_] for v, p_ in zip(views2, parts)]
        try:
            blk = full.block(j)
        except IndexError:
            MON.check(ob + "-block-equals-bruteforce-count-of-the-current-slices", "no block at %r" % (j,), None, inp, cls)
            continue
        tab = np.zeros(shape, dtype=np.int64)
        for r in range(N):
            tab[tuple(int(v[r]) for v in sl)] += 1
        okm = blk.miss.shape == tab.shape and bool(((tab == 0) == blk.miss).all())
        okv = okm and bool((np.asarray(blk.vals, dtype=float)[tab > 0] == tab[tab > 0]).all())
        MON.check(ob + "-block-equals-bruteforce-count-of-the-current-slices", okm and okv,
                  lambda: "block at %r: %s ; brute-force count table of the current content %r" % (list(j), blk.show(), tab.tolist()), inp, cls)
        n += 1
    return n


def check_inferred_shape(kind, views, commons):
    """count with interacting_shape=None: shape == extra extents + inferred category extents."""
    struct = [tuple(v.shape[1:]) for v in views]
    extra = tuple(e for s in struct for e in s)
    call = Call(("count", None, 0, "none", False, "nan"), views[0].shape[0], 0, 0)
    if kind == "ccube":
        want = extra + tuple(max(int(v.max()), int(c)) + 1 for v, c in zip(views, commons))
    else:
        want = extra + tuple(int(v.max()) + 1 for v in views)
    try:
        r = call.run(make_cube(kind, views, commons, None))
        got = tuple(int(e) for e in np.shape(r))
    except Exception as e:  # noqa
        got = "raised %s: %s" % (type(e).__name__, e)
    MON.check("%s.count/extra-axes-shape-with-inferred-category-extents" % OWNER[kind], got == want,
              lambda: "result shape %r, required %r" % (got, want), lambda: case_input(kind, views, commons, None, call),
              dict(call.cls(), cube=kind, extra_extents=list(extra), inferred_shape=True))


# ----------------------------------------------------------------------------- scope


def structures(max_dims=3, extents=(1, 2, 3, 4), max_multi=2):
    """Every dimension list of 1..max_dims dims, 1..max_multi of them with 1 or 2 extra axes, extra extents pairwise different."""
    out = []
    for k in range(1, max_dims + 1):
        for pat in itertools.product((0, 1, 2), repeat=k):
            nm = sum(1 for p in pat if p)
            if not (1 <= nm <= max_multi) or sum(pat) > len(extents):
                continue
            for ext in itertools.permutations(extents, sum(pat)):
                st, p = [], 0
                for a in pat:
                    st.append(tuple(ext[p:p + a]))
                    p += a
                out.append(st)
    return out + EQUAL_EXTENT_LISTS


# also inside the property's quantifier: several extra axes of EQUAL extent - there a transposed block does not fall outside
# the result (no IndexError), so only the block equation can notice it
EQUAL_EXTENT_LISTS = [[(2,), (2,)], [(3,), (3,)], [(2, 2)], [(3, 3)], [(2,), (), (2,)], [(2, 2), (3,)], [(2,), (3, 2)], [(), (3,), (3,)]]


def scopes(tier):
    if tier == "thorough":
        return dict(Ns=(1, 2, 3), q=3, cap=128, K=6, cc=(2, 6), xc=(2, 6, 3), Emax=3, inferred=True)
    return dict(Ns=(1, 2, 3), q=2, cap=16, K=2, cc=(1, 4), xc=(1, 4, 2), Emax=3, inferred=True)


def jobs(tier, seed):
    """Yield (struct index, struct, N, E, views, m)."""
    sc = scopes(tier)
    for si, st in enumerate(structures()):
        k = len(st)
        combos = list(itertools.product(range(1, sc["Emax"] + 1), repeat=k))
        m = 0
        for N in sc["Ns"]:
            for E in [combos[i] for i in spaced(len(combos), sc["q"], (si * 5 + N) % len(combos))]:
                tot = total_datasets(st, N, E)
                if tot <= sc["cap"]:
                    ixs = range(tot)
                else:
                    off = (si * 101 + N * 17 + (seed * 7919 if tier == "thorough" else 0)) % tot
                    ixs = spaced(tot, sc["K"], off)
                for ix in ixs:
                    yield si, st, N, E, dims_from_index(ix, st, N, E), m
                    m += 1
                if tot > sc["cap"]:
                    for a in (1, 2):
                        yield si, st, N, E, ramp(st, N, E, a), m
                        m += 1
    # medium-size datasets (12-30 rows, category extents 4-7, 4-5 columns): reach size-threshold code paths
    base = len(structures())
    for k, (st, N, E) in enumerate((([(5,)], 12, (4,)), ([(4,), ()], 16, (5, 4)), ([(), (3,)], 30, (7, 3)), ([(2, 3)], 14, (5,)), ([(3,), (2,)], 20, (4, 4)),
                                   ([(17,)], 3, (3,)), ([(18,), ()], 4, (2, 3)), ([(), (9,)], 5, (3, 2)))):
        tot = total_datasets(st, N, E)
        for ix in spaced(tot, 2, (k * 977 + 5) % tot):
            views = dims_from_index(ix, st, N, E)
            yield base + k, st, N, E, views, ix % 97
            # the same data with the trailing extra-axis positions holding a single category (all-common slices)
            v2 = [v.copy() for v in views]
            for v in v2:
                if v.ndim > 1 and v.shape[1] > 2:
                    v[:, -2:] = 0
            yield base + k, st, N, E, v2, (ix + 1) % 97


def is_sampled(tier):
    return True  # data of the larger shapes and the aggregate configurations are a deterministic covering sample


class Stats:
    def __init__(self):
        self.calls = 0
        self.nontrivial = 0
        self.samples = []


def work(args):
    """One shard. args = (tier, shard, nshards[, seed])."""
    tier, shard, nshards = args[:3]
    seed = int(args[3]) if len(args) > 3 and args[3] is not None else 0
    from .. import env

    env.import_catii()
    install()
    quiet()
    sc = scopes(tier)
    st = Stats()
    j = 0
    for si, struct, N, E, views, m in jobs(tier, seed):
        if j % nshards == shard:
            commons = [(m + d) % e for d, e in enumerate(E)]
            axes = sorted(len(s) + 1 for s in struct if s)
            MON.calls["C13:dimension-lists/axes-of-multi-axis-dims=%r" % (axes,)] += 1
            for kind in ("ccube", "xcube"):
                calls = pick_calls(m + 7 * si, N, *(sc["cc"] if kind == "ccube" else sc["xc"]))
                for call in calls:
                    n = check_axes(kind, views, commons, E, call)
                    st.calls += 1
                    if n:
                        st.nontrivial += 1
                    if len(st.samples) < 4 and st.calls % 1499 == 1:
                        st.samples.append(dict(case_input(kind, views, commons, E, call), blocks=n))
                if sc["inferred"]:
                    check_inferred_shape(kind, views, commons)
                if kind == "ccube":
                    check_axes_after_mutation(views, commons, E)
        j += 1
    out = MON.dump()
    out.update(driver_calls=st.calls, nontrivial=st.nontrivial, samples=st.samples, jobs=j)
    return out


def replay_case(inp):
    install()
    quiet()
    if inp["dims"] and isinstance(inp["dims"][0], dict):  # recorded by the product contract: index descriptions
        views = [np.array(x["dense"], dtype=np.int64).reshape(x["shape"]) for x in inp["dims"]]
        commons = [x["common"] for x in inp["dims"]]
    else:
        views = [np.array(x, dtype=np.int64) for x in inp["dims"]]
        commons = inp.get("commons") or [0] * len(views)
    kind = inp["cube"]
    if "call" in inp:
        call = Call.from_description(inp["call"])
    else:
        call = Call(("count", None, 0, "none", False, "nan"), views[0].shape[0], 0, 0)
    if inp.get("interacting_shape") is None:
        check_inferred_shape(kind, views, commons)
    else:
        n = check_axes(kind, views, commons, tuple(inp["interacting_shape"]), call)
        print("%d blocks compared" % n)
    return list(MON.failures)
