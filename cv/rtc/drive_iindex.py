"""Exhaustive small-scope driver for the iindex operation contracts (C06 / C07 / C15).

Every well-formed state in scope (not only states reachable from a fresh index) is built with
`mk` and handed to every operation with every argument in scope; the contracts attached to the
real methods (contracts_iindex) judge each call, including the nested calls the library makes.
Work is sharded over processes by job number.
"""
import collections
import itertools

import numpy as np

from . import contracts_iindex
from .contract import MON
from .speclib import U32, describe, is_mode, mk, snap, states1, states2, states3, view, wf


def scopes(tier):
    if tier == "thorough":
        return dict(V1=(-1, 0, 1, 2), N1=4, V2=(0, 1, 2), N2=3, C2=2, V3=(0, 1), N3=2, T3=((2, 2), (2, 3), (3, 2)),
                    PV1=(-1, 0, 1, 2), PN1=3, PV2=(0, 1), PN2=2, PC2=2, max_maps=200, max_updates=700)
    return dict(V1=(-1, 0, 1, 2), N1=3, V2=(0, 1, 2), N2=2, C2=2, V3=(0, 1), N3=1, T3=((2, 2), (2, 3), (3, 2)),
                PV1=(-1, 0, 1, 2), PN1=2, PV2=(0, 1), PN2=2, PC2=2, max_maps=60, max_updates=160)


def _spread(seq, k):
    seq = list(seq)
    if len(seq) <= k:
        return seq
    step = len(seq) / float(k)
    return [seq[int(i * step)] for i in range(k)]


def unary_jobs(sc):
    fam = []
    fam += [("1d", d, c) for d, c in states1(sc["N1"], sc["V1"])]
    fam += [("2d", d, c) for d, c in states2(sc["N2"], sc["C2"], sc["V2"])]
    for t3 in sc["T3"]:
        fam += [("3d", d, c) for d, c in states3(sc["N3"], t3, sc["V3"])]
    # boundary magnitudes: values that need wider dtypes, many rows of one value
    for d, c in [([300, 0, 300], 0), ([70000, 1, 1], 1), ([0] * 6 + [2, 2, 3], 0), ([5, 5, 5, 5], 9)]:
        fam.append(("1d", np.array(d, dtype=np.int64), c))
    return fam


def pair_jobs(sc):
    s1 = list(states1(sc["PN1"], sc["PV1"]))
    s2 = list(states2(sc["PN2"], sc["PC2"], sc["PV2"]))
    for a in range(len(s1)):
        for b in range(len(s1)):
            yield ("1d", s1[a], s1[b])
    for a in range(len(s2)):
        for b in range(len(s2)):
            yield ("2d", s2[a], s2[b])
    # mixed 1-D / 2-D for column_stack
    s1s = list(states1(2, (0, 1)))
    for a in s1s:
        for b in s2:
            if a[0].shape[0] == b[0].shape[0]:
                yield ("mix", a, b)
                yield ("mix", b, a)


class Stats:
    def __init__(self):
        self.calls = 0
        self.nontrivial = 0
        self.samples = []

    def call(self, nontrivial, sample=None):
        self.calls += 1
        if nontrivial:
            self.nontrivial += 1
        if sample is not None and len(self.samples) < 6 and self.calls % 997 == 1:
            self.samples.append(sample)


def _try(f):
    try:
        return True, f()
    except Exception:
        return False, None  # the contract wrapper has already recorded the raise


def do_unary(fam, d, c, sc, st):
    nz = d.size > 0
    ex = {"dense": d.tolist(), "common": c}
    vals = sorted(set(d.reshape(-1).tolist()) | {c})
    if d.ndim <= 2:
        do_unary_12d(d, c, sc, st, nz, ex, vals)
    do_unary_slicing(d, c, sc, st, nz, ex, vals)


def do_unary_12d(d, c, sc, st, nz, ex, vals):
    from catii import ccube

    # shift_common
    for v in [None] + sorted(set(vals) | {9}):
        x = mk(d, c)
        _try(lambda: x.shift_common(v) if v is not None else x.shift_common())
        st.call(nz, {"op": "shift_common", "state": ex, "arg": v})
    # copy
    x = mk(d, c)
    _try(lambda: x.copy())
    st.call(nz)
    # filtered
    n = d.shape[0]
    for m in itertools.product([False, True], repeat=n):
        m = np.array(m, dtype=bool)
        x = mk(d, c)
        _try(lambda: x.filtered(m, int(m.sum())))
        st.call(nz, {"op": "filtered", "state": ex, "mask": m.tolist()})
    # reindexed
    maps = [None]
    for img in itertools.product([None, 0, 1, 5], repeat=len(vals)):
        maps.append({v: t for v, t in zip(vals, img) if t is not None})
    for mp in _spread(maps, sc["max_maps"]):
        for kw in ({}, {"copy": False}, {"shift": False}, {"assume_unique": True}, {"assume_unique": True, "shift": False}):
            if kw and "assume_unique" not in kw and (mp is None or len(mp) % 2):
                continue
            if kw.get("assume_unique") and mp is not None and len(set(mp.values())) == len(mp):
                continue  # nothing is merged by an injective mapping: same as the default call
            x = mk(d, c)
            _try(lambda: x.reindexed(dict(mp) if mp is not None else None, **kw))
            st.call(nz, {"op": "reindexed", "state": ex, "mapping": mp, "kw": kw})
    # forced observers
    x = mk(d, c)
    if d.ndim == 1:
        _try(lambda: x.common_rowids())
    elif d.ndim == 2:
        for col in range(d.shape[1]):
            _try(lambda: x.common_rowids(col))
    if d.ndim <= 2:
        _try(lambda: x.to_dict(force=True))
        _try(lambda: x.to_dict())
        hi = [()] if d.ndim == 1 else [(j,) for j in range(d.shape[1])]
        for v in vals + [9]:
            for h in hi:
                _try(lambda: x.get((v,) + h, force=True))
        # items(force=True) yields every stored entry plus the common rows per column
        ok, its = _try(lambda: [(k, np.asarray(r).tolist()) for k, r in x.items(force=True)])
        if ok:
            exp = [(k, v.tolist()) for k, v in dict.items(x)]
            for h in hi:
                col = d if d.ndim == 1 else d[:, h[0]]
                exp.append(((c,) + h, np.nonzero(col == c)[0].tolist()))
            MON.check("iindexes.iindex.items/ensures-forced-items", its == exp, lambda: "items(force=True) %r, expected %r" % (its, exp), ex)
    st.call(nz)
    # C07 observers: abscissae / sparsity / inferred cube shape never include a phantom category
    x = mk(d, c)
    ok, r = _try(lambda: x.abscissae)
    if ok:
        MON.check("iindexes.iindex.abscissae/observer-equals-unique-of-view", r == set(d.reshape(-1).tolist()),
                  lambda: "abscissae %r, distinct values %r" % (r, sorted(set(d.reshape(-1).tolist()))), ex)
    ok, r = _try(lambda: x.sparsity)
    if ok:
        expsp = (100.0 * float((d == c).sum()) / d.size) if d.size else 0
        MON.check("iindexes.iindex.sparsity/observer-fraction-common", abs(r - expsp) < 1e-9, lambda: "sparsity %r, expected %r" % (r, expsp), ex)
    if d.ndim == 1 and min(vals) >= 0:
        ok, r = _try(lambda: ccube([x]).interacting_shape)
        if ok:
            MON.check("ccubes.ccube.__init__/observer-inferred-shape", tuple(r) == (max(vals) + 1,),
                      lambda: "inferred shape %r, expected %r" % (r, (max(vals) + 1,)), ex)
    # raw entries (a plain dict, as update() documents) that carry an EMPTY row list or None, for an absent and for a
    # present coordinate: nothing may be stored for them, the index stays well-formed and its content unchanged
    if d.ndim <= 2 and d.size <= 6:
        tails = [()] if d.ndim == 1 else [(j,) for j in range(d.shape[1])]
        absent = max(vals + [c]) + 1
        present = sorted(k for k in mk(d, c).keys())[:1]
        for key in [(absent,) + tails[0]] + present:
            for name in ("union_update", "update"):
                for val, vname in ((np.array([], dtype=U32), "empty array"), (None, "None")):
                    if name == "update" and val is None:
                        continue  # update() documents row lists only
                    x = mk(d, c)
                    ok, _ = _try(lambda: getattr(x, name)({key: val}))
                    w = wf(x) if ok else ["raised"]
                    MON.check("iindexes.iindex.%s/ensures-wf-and-content-unchanged-after-raw-entries-without-rows" % name,
                              ok and not w and np.array_equal(view(x), d) and x.common == c,
                              lambda: "%s({%r: %s}) left %r (defects %r)" % (name, key, vname, dict(x), w), dict(ex, entries={"key": list(key), "rows": vname}))
        # raw entries whose row ids come in another container / integer dtype (a list, int64 from numpy.nonzero, int32):
        # what is stored must be uint32 and the content the one the operation documents
        col = tails[0]
        column = d if d.ndim == 1 else d[(slice(None),) + col]
        free = np.nonzero(column == c)[0]  # rows that hold the common value in that column
        if len(free):
            for key in [(absent,) + col] + present[:1]:
                if key[1:] != col:
                    continue
                for name in ("union_update", "update"):
                    for rows, rname in ((free.astype(np.int64), "int64 array"), (free.astype(np.int32), "int32 array"), (free.tolist(), "python list"),
                                        (free.astype(np.uint64), "uint64 array")):
                        x = mk(d, c)
                        want = d.copy()
                        want[(free,) + col] = key[0]
                        ok, _ = _try(lambda: getattr(x, name)({key: rows}))
                        w = wf(x) if ok else ["raised"]
                        MON.check("iindexes.iindex.%s/ensures-wf-and-documented-content-for-row-ids-in-another-container-or-dtype" % name,
                                  ok and not w and np.array_equal(view(x), want),
                                  lambda: "%s({%r: %s %r}) left %r (defects %r)" % (name, key, rname, free.tolist(), {k: (str(getattr(v, "dtype", type(v).__name__)), list(v)) for k, v in dict(x).items()}, w),
                                  dict(ex, entries={"key": list(key), "rows": free.tolist(), "as": rname}))
        st.call(nz)
    # update: every partial assignment of cells
    if d.size <= 4 and d.ndim <= 2:
        cells = list(np.ndindex(*d.shape))
        choices = [None] + sorted(set(vals) | {5})[:4]
        asgs = list(itertools.product(choices, repeat=len(cells)))
        for asg in _spread(asgs, sc["max_updates"]):
            ent = collections.defaultdict(list)
            for cell, v in zip(cells, asg):
                if v is not None:
                    ent[(v,) + tuple(cell[1:])].append(cell[0])
            ent = {k: np.array(v, dtype=U32) for k, v in ent.items()}
            x = mk(d, c)
            _try(lambda: x.update(ent))
            st.call(nz, {"op": "update", "state": ex, "assign": [list(map(int, cl)) + [v] for cl, v in zip(cells, asg) if v is not None]})


def check_slices1d(x, d, c, ex):
    """slices1d of the index object `x`, whose current dense view is `d` and common value `c`."""
    s0 = snap(x)
    ok, sl = _try(lambda: list(x.slices1d()))
    if not ok:
        return
    want = list(itertools.product(*[range(e) for e in d.shape[1:]]))
    MON.check("iindexes.iindex.slices1d/ensures-view-coords-each-exactly-once", sorted(co for co, _ in sl) == want,
              lambda: "coordinates %r, expected %r" % ([co for co, _ in sl], want), ex)
    for co, s in sl:
        if tuple(co) not in set(want):
            continue  # a phantom coordinate: already reported by the coordinates clause above
        w = wf(s)
        MON.check("iindexes.iindex.slices1d/ensures-wf-of-slice", not w, lambda: "slice %r not well-formed: %r" % (co, w), ex)
        okv = (not w) and s.shape == (d.shape[0],) and np.array_equal(view(s), d[(slice(None),) + tuple(co)]) and s.common == c
        MON.check("iindexes.iindex.slices1d/ensures-view-of-slice", bool(okv),
                  lambda: "slice %r has view %r, expected %r" % (co, view(s).tolist() if not w else None, d[(slice(None),) + tuple(co)].tolist()), ex)
    MON.check("iindexes.iindex.slices1d/frame-self-unchanged", snap(x) == s0, "receiver changed", ex)


def do_observer_history(d, c, st, nz, ex, vals):
    """Slice iteration is an observer: on ONE index object it must describe the current content after every mutating
    operation of the library (whole entries removed and re-added, cells reassigned, common value shifted, rows appended) -
    anything the object remembers between calls has to follow.  The operations are judged by their own contracts; here
    `slices1d` is judged against the object's current view after each of them."""
    if d.ndim < 2 or d.shape[0] == 0 or d.size > 24:
        return
    x = mk(d, c)
    if wf(x) or len(x) == 0:
        return
    steps = []

    def observe(step):
        steps.append(step)
        w = wf(x)
        if w:
            return  # the operation's own contract reports it
        check_slices1d(x, view(x), x.common, dict(ex, history=list(steps)))

    observe("slices1d")
    k0 = sorted(x.keys())[0]
    whole = mk(d, c)
    only = {k0: np.array(x[k0], dtype=U32)}
    other = type(x)(only, x.common, x.shape)
    _try(lambda: x.difference_update(other))  # removes one whole entry (set_if drops the emptied key)
    observe("difference_update(one whole entry)")
    _try(lambda: x.union_update(other))
    observe("union_update(that entry)")
    _try(lambda: x.set_if(k0, None))
    observe("set_if(key, None)")
    _try(lambda: x.update(only))
    observe("update(that entry)")
    keep = type(x)({k: np.array(v, dtype=U32) for k, v in list(whole.items())[1:]}, x.common, x.shape)
    _try(lambda: x.intersection_update(keep))
    observe("intersection_update(all but the first entry)")
    if d.ndim == 2:
        for v in [v for v in vals if v != x.common][:1]:
            _try(lambda: x.shift_common(v))
            observe("shift_common(%r)" % (v,))
    y = mk(d, c)
    _try(lambda: x.append(y))
    observe("append(original)")
    st.call(nz, {"op": "observer-history", "state": ex})


def do_unary_slicing(d, c, sc, st, nz, ex, vals):
    # 2-D / 3-D: sliced, slices1d ; 2-D: collapsed
    x = mk(d, c)
    _try(lambda: x.copy())
    if d.ndim >= 2:
        per_axis = []
        for ax in range(1, d.ndim):
            C = d.shape[ax]
            o = [None] + list(range(C)) + [list(p) for r in range(0, C + 1) for p in itertools.permutations(range(C), r)]
            per_axis.append(o)
        combos = [()] + list(itertools.product(*per_axis))
        for orders in _spread(combos, 80):
            x = mk(d, c)
            _try(lambda: x.sliced(*orders))
            st.call(nz, {"op": "sliced", "state": ex, "orders": [o for o in orders]})
        x = mk(d, c)
        check_slices1d(x, d, c, ex)
        do_observer_history(d, c, st, nz, ex, vals)
        st.call(nz)
    if d.ndim == 2:
        pool = vals + [9, -1]
        for L in (1, 2, 3):
            for p in itertools.permutations(pool, L):
                x = mk(d, c)
                _try(lambda: x.collapsed(list(p)))
                st.call(nz, {"op": "collapsed", "state": ex, "precedence": list(p)})


def do_pair(fam, a, b, sc, st):
    from catii.iindexes import column_stack

    (d, c), (e, k) = a, b
    nz = d.size > 0 or e.size > 0
    ex = {"left": {"dense": d.tolist(), "common": c}, "right": {"dense": e.tolist(), "common": k}}
    if fam != "mix":
        # append
        if d.shape[1:] == e.shape[1:]:
            x, y = mk(d, c), mk(e, k)
            ok, _ = _try(lambda: x.append(y))
            st.call(nz, {"op": "append", "state": ex})
            if ok and not wf(x):
                tw = mk(np.concatenate([d, e]), x.common)
                okk, eqv = _try(lambda: x == tw)
                if okk:
                    MON.check("iindexes.iindex.__eq__/eq-append-result-equals-directly-built-twin", bool(eqv) is True,
                              lambda: "append result %r != twin %r" % (dict(x), dict(tw)), ex)
        # == / !=
        x, y = mk(d, c), mk(e, k)
        same = d.shape == e.shape and c == k and np.array_equal(d, e)
        ok, r = _try(lambda: x == y)
        MON.check("iindexes.iindex.__eq__/eq-no-raise", ok, "== raised", ex)
        if ok:
            MON.check("iindexes.iindex.__eq__/eq-iff-same-shape-common-content", bool(r) == same,
                      lambda: "(a == b) is %r but shape/common/content %s" % (r, "coincide" if same else "differ"), ex)
            ok3, r3 = _try(lambda: y == x)
            MON.check("iindexes.iindex.__eq__/eq-symmetric", ok3 and bool(r3) == bool(r), "a == b differs from b == a", ex)
        try:
            r2 = x != y
            ok2 = True
        except Exception as exn:
            ok2, r2 = False, exn
        MON.check("iindexes.iindex.__ne__/eq-ne-never-raises", ok2, lambda: "!= raised %r" % (r2,), ex,
                  cls={"op": "!="})
        if ok and ok2:
            MON.check("iindexes.iindex.__ne__/eq-ne-is-negation-of-eq", (r2 is (not r)) or (bool(r2) == (not bool(r)) and isinstance(r2, (bool, np.bool_))),
                      lambda: "(a != b) is %r while (a == b) is %r" % (r2, r), ex, cls={"op": "!="})
        if d is e or (d.shape == e.shape and c == k and np.array_equal(d, e)):
            okr, rr = _try(lambda: x == x)
            MON.check("iindexes.iindex.__eq__/eq-reflexive", okr and bool(rr) is True, "x == x is not True", ex)
            MON.check("iindexes.iindex.__eq__/eq-false-against-non-index", (x == 5) is False and (x == "a") is False and (x == None) is False,  # noqa
                      "comparison with a non-index is not False", ex)
        st.call(nz)
        # entry-wise set updates
        if d.shape == e.shape:
            for name in ("union_update", "intersection_update", "difference_update"):
                x, y = mk(d, c), mk(e, k)
                _try(lambda: getattr(x, name)(y))
                st.call(nz, {"op": name, "state": ex})
    # column_stack
    if d.shape[0] == e.shape[0]:
        for nc in (None, c, 9):
            for cp in (False, True):
                x, y = mk(d, c), mk(e, k)
                _try(lambda: column_stack([x, y], new_common=nc, copy=cp))
                st.call(nz, {"op": "column_stack", "state": ex, "new_common": nc, "copy": cp})
        if fam == "1d":
            x, y, z = mk(d, c), mk(e, k), mk(d, k)
            _try(lambda: column_stack([x, y, z]))
            st.call(nz)


def work(args):
    """One shard. args = (tier, shard, nshards)."""
    tier, shard, nshards = args
    from .. import env

    env.import_catii()
    contracts_iindex.install()
    sc = scopes(tier)
    st = Stats()
    j = 0
    for fam, d, c in unary_jobs(sc):
        if j % nshards == shard:
            do_unary(fam, d, c, sc, st)
        j += 1
    for fam, a, b in pair_jobs(sc):
        if j % nshards == shard:
            do_pair(fam, a, b, sc, st)
        j += 1
    for fam, d, c in big_states():
        if j % nshards == shard:
            do_big(fam, d, c, sc, st)
        j += 1
    out = MON.dump()
    out.update(driver_calls=st.calls, nontrivial=st.nontrivial, samples=st.samples, jobs=j)
    return out


# ----------------------------------------------------------------------------- medium-size family ("big")
# Exhaustive tiny scopes cannot reach code that only engages above a size threshold (fast paths, chunking, caches,
# strategy switches).  This family adds a few dozen medium-size states (9-64 rows, 6-9 distinct values, 3-5 columns)
# with patterned - not exhaustive - arguments, and histories of several mutating operations, all judged by the same
# contracts.  Deterministic (fixed multiplicative generator), so the quick tier stays reproducible.


def _lcg(seed):
    x = seed & 0x7FFFFFFF or 1
    while True:
        x = (x * 48271) % 2147483647
        yield x


def big_states():
    out = []
    g = _lcg(20261003)
    for n, k in ((9, 5), (17, 7), (33, 6), (64, 9)):
        for skew in (0, 1):
            vals = []
            for i in range(n):
                r = next(g) % 100
                v = (0 if (skew and r < 70) else r % k)
                vals.append(v)
            d = np.array(vals, dtype=np.int64)
            for c in (0, int(d[-1]), k + 3):
                out.append(("1d", d, c))
    # many distinct values (17-40), long sparse arrays (100-300 rows, few uncommon cells)
    for n, k in ((19, 17), (48, 24), (90, 40)):
        d = np.array([(i * 7 + (next(g) % 3)) % k for i in range(n)], dtype=np.int64)
        for c in (0, k // 2, k + 1):
            out.append(("1d", d, c))
    for n in (100, 300):
        d = np.zeros(n, dtype=np.int64)
        for _ in range(5):
            d[next(g) % n] = 1 + next(g) % 6
        for c in (0, 3):
            out.append(("1d", d, c))
    for (n, cols, k) in ((10, 3, 5), (18, 5, 6), (40, 4, 7), (11, 8, 5), (6, 10, 6), (70, 2, 4)):
        cells = [(0 if next(g) % 10 < 6 else next(g) % k) for _ in range(n * cols)]
        d = np.array(cells, dtype=np.int64).reshape(n, cols)
        d[:, cols - 1] = 0  # a column holding only one value
        for c in (0, 2, k + 1):
            out.append(("2d", d, c))
    # very wide 2-D states (17+ columns) whose trailing columns hold only the common value
    for (n, cols, k) in ((4, 18, 3), (3, 20, 2)):
        d = np.array([[(r + cc) % k if cc < cols - 3 and (r + cc) % 4 else 0 for cc in range(cols)] for r in range(n)], dtype=np.int64)
        for c in (0, 1):
            out.append(("2d", d, c))
    # wide 2-D states without a dominant value (32+ entries; the most frequent value is decided by a narrow margin)
    for (n, cols, k) in ((6, 8, 5), (12, 9, 4), (5, 12, 6)):
        d = np.array([[(r + 2 * cc + (next(g) % 2)) % k for cc in range(cols)] for r in range(n)], dtype=np.int64)
        for c in (0, 1, k):
            out.append(("2d", d, c))
    return out


def do_big(fam, d, c, sc, st):
    from catii.iindexes import column_stack

    ex = {"dense": d.tolist(), "common": c}
    n = d.shape[0]
    vals = sorted(set(d.reshape(-1).tolist()) | {c})
    for v in [None] + vals + [99]:
        x = mk(d, c)
        _try(lambda: x.shift_common(v) if v is not None else x.shift_common())
        st.call(True)
    x = mk(d, c)
    _try(lambda: x.copy())
    col0 = d if d.ndim == 1 else d[:, 0]
    masks = [np.ones(n, bool), np.zeros(n, bool), np.arange(n) % 2 == 0, np.arange(n) < n // 2, col0 != c, col0 == c,
             (np.arange(n) * 7) % 5 < 3, np.arange(n) > 2]
    for m in masks:
        x = mk(d, c)
        _try(lambda: x.filtered(m, int(m.sum())))
        st.call(True, {"op": "filtered(big)", "rows": n})
    maps = [None, {v: v for v in vals}, {v: v // 2 for v in vals}, {v: c for v in vals[:3]}, {v: v + 1 for v in vals}, {vals[0]: vals[-1]},
            {v: (v * 3) % 4 for v in vals}]
    for mp in maps:
        for kw in ({}, {"assume_unique": True}, {"copy": False, "shift": False}):
            x = mk(d, c)
            _try(lambda: x.reindexed(dict(mp) if mp is not None else None, **kw))
            st.call(True)
    x = mk(d, c)
    if d.ndim == 1:
        _try(lambda: x.common_rowids())
    else:
        for col in range(d.shape[1]):
            _try(lambda: x.common_rowids(col))
    _try(lambda: x.to_dict(force=True))
    for v in vals:
        for h in ([()] if d.ndim == 1 else [(j,) for j in range(d.shape[1])]):
            _try(lambda: x.get((v,) + h, force=True))
    # updates: patterned assignments (incl. cells set to the common value) applied one after another to the SAME index
    x = mk(d, c)
    cells = list(np.ndindex(*d.shape))
    plans = [cells[::3], cells[1::4], cells[: len(cells) // 2], cells[-5:]]
    newvals = [c, vals[-1], 9, vals[0]]
    for plan, nv in zip(plans, newvals):
        ent = collections.defaultdict(list)
        for cell in plan:
            ent[(nv,) + tuple(cell[1:])].append(cell[0])
        ent = {k: np.array(sorted(v), dtype=U32) for k, v in ent.items()}
        _try(lambda: x.update(ent))
        _try(lambda: x.shift_common())
        st.call(True, {"op": "update-history(big)"})
    # sparse updates: one or two cells of a large index (set to the common value, to a listed value, to a new value)
    for cell in (cells[0], cells[len(cells) // 2], cells[-1]):
        for nv in (c, vals[-1], 9):
            x = mk(d, c)
            ent = {(nv,) + tuple(cell[1:]): np.array([cell[0]], dtype=U32)}
            _try(lambda: x.update(ent))
            other = cells[(len(cells) // 3)]
            if other != cell:
                ent2 = {(c,) + tuple(other[1:]): np.array([other[0]], dtype=U32)}
                _try(lambda: x.update(ent2))
            st.call(True, {"op": "sparse-update(big)"})
    if d.ndim == 2:
        C = d.shape[1]
        for o in (None, 0, C - 1, list(range(C)), list(range(C - 1, -1, -1)), [C - 1, 0], []):
            x = mk(d, c)
            _try(lambda: x.sliced(o))
        x = mk(d, c)
        ok, sl = _try(lambda: list(x.slices1d()))
        if ok:
            MON.check("iindexes.iindex.slices1d/ensures-view-coords-each-exactly-once", sorted(co for co, _ in sl) == [(j,) for j in range(C)], "coordinates", ex)
            for co, s in sl:
                if co in [(j,) for j in range(C)]:
                    MON.check("iindexes.iindex.slices1d/ensures-view-of-slice", (not wf(s)) and np.array_equal(view(s), d[:, co[0]]), "slice %r" % (co,), ex)
        for p in (vals, vals[::-1], vals[1::2] + [c], [vals[-1], -1], [9] + vals[:2], vals[:1]):
            if len(set(p)) == len(p) and p:
                x = mk(d, c)
                _try(lambda: x.collapsed(list(p)))
                st.call(True)
    # histories in which the most frequent value changes: append blocks holding a single uncommon value
    for v in vals[:3]:
        x = mk(d, c)
        blk = np.full((max(2, n // 2),) + d.shape[1:], v, dtype=np.int64)
        _try(lambda: x.append(mk(blk, v)))
        _try(lambda: x.append(mk(blk, c)))
        _try(lambda: x.shift_common())
        m2 = np.arange(x.shape[0]) % 3 != 0
        _try(lambda: x.filtered(m2, int(m2.sum())))
        st.call(True, {"op": "mode-changing-history(big)"})
    # binary operations and a history of several mutating operations on one object
    e = d[::-1].copy()
    for k in (c, vals[0], 77):
        x, y = mk(d, c), mk(e, k)
        _try(lambda: x.append(y))
        _try(lambda: x.append(mk(d[:3], vals[-1])))
        _try(lambda: x.shift_common(vals[0]))
        _try(lambda: x.append(y))
        st.call(True, {"op": "append-history(big)"})
        x, y = mk(d, c), mk(e, k)
        okq, r = _try(lambda: x == y)
        MON.check("iindexes.iindex.__eq__/eq-iff-same-shape-common-content", okq and bool(r) == (c == k and np.array_equal(d, e)), "== on big states", ex)
        x2 = mk(d, c)
        d2 = d.copy()
        d2.reshape(-1)[-1] = (d2.reshape(-1)[-1] + 1) % (max(vals) + 2)
        y2 = mk(d2, c)
        okq, r = _try(lambda: x2 == y2)
        okq2, r2 = _try(lambda: y2 == x2)
        MON.check("iindexes.iindex.__eq__/eq-iff-same-shape-common-content", okq and okq2 and bool(r) is False and bool(r2) is False,
                  "indexes differing in one cell compare equal", ex)
        for name in ("union_update", "intersection_update", "difference_update"):
            x, y = mk(d, c), mk(e, c)
            _try(lambda: getattr(x, name)(y))
        for cp in (False, True):
            _try(lambda: column_stack([mk(d, c), mk(e, k), mk(d, k)], copy=cp))
            _try(lambda: column_stack([mk(d, c), mk(e, k)], new_common=vals[-1], copy=cp))
        st.call(True)
