"""Small-scope driver for C05 - cube output is independent of which category is stored as common.

C05 is a *relational* property whose oracle the property text defines in terms of the library
itself: "the same cube under another encoding".  For every cube in scope and every aggregate call
the driver computes the output under EVERY encoding tuple (one common value per dimension, each
in 0..extent-1, so values that are frequent, rare and absent all occur) and states, with
`MON.check`, for every pair of encodings that differ in exactly one dimension d (common a -> v):

    ccubes.ccube.<agg>/encoding-independent-missing-cells     same shape, missing cells identical
    ccubes.ccube.<agg>/encoding-independent-values            every cell within 1e-9*max(1,|total|)
    .../after-renormalising-shift_common                      the same two clauses after dimension d
                                                              (built with common v) has been
                                                              renormalised by the library's
                                                              `shift_common()`
    ccubes.ccube.<agg>/encoding-independent-no-raise          no encoding makes the call raise

The re-encodings are built directly with `speclib.mk(view_d, v)` - never through `shift_common`
(only the `after-renormalising` clauses call it, on purpose).  `interacting_shape` is explicit and
identical for all encodings (an inferred shape legitimately depends on the common value).
Preconditions from the code: the explicit extent exceeds every value and every common; weights >= 0.

The helper layer (argument forms, output normalisation, comparison, deterministic enumeration) is
shared with drive_axes (C13).
"""
import itertools
import math
import warnings

import numpy as np

from .contract import MON
from .speclib import mk

NaN = float("nan")
FACT_VALUES = (0.0, 1.0, 2.5, NaN)
WEIGHT_VALUES = (0.0, 0.7, 0.1, NaN)  # NaN == a missing weight; NON-dyadic on purpose: marginal differencing then leaves rounding
# residues in reconstructed cells, which the library must still report by the rule (values are compared within the tolerance)
GARBAGE = (7.0, NaN)  # what lies under a False validity (arbitrary, including NaN)
AGG_OWNER = "ccubes.ccube"


# ----------------------------------------------------------------------------- enumeration helpers


def prod(xs):
    p = 1
    for x in xs:
        p *= int(x)
    return p


def decode(ix, radix, n):
    """n digits (most significant first) of ix in base radix."""
    out = [0] * n
    for i in range(n - 1, -1, -1):
        ix, out[i] = divmod(ix, radix)
    return out


def stride(total):
    """Odd step close to total/golden-ratio and coprime with total: i -> i*step % total walks the whole
    index range of an exhaustive enumeration, evenly spread, without repetition (deterministic; no RNG)."""
    s = int(total * 0.6180339887498949) | 1
    while math.gcd(s, total) != 1:
        s += 2
    return s


def spaced(total, k, offset=0):
    """k distinct, evenly spread indices into range(total) (all of them when total <= k)."""
    if total <= k:
        return list(range(total))
    st = stride(total)
    return [(offset + j * st) % total for j in range(k)]


def dims_from_index(ix, struct, N, extents):
    """Decode one index of the exhaustive enumeration of dense dimension data.
    struct: per dimension the tuple of extra-axis extents; extents: category extent per dimension."""
    out = []
    for extra, E in reversed(list(zip(struct, extents))):
        cells = N * prod(extra)
        ix, r = divmod(ix, E ** cells)
        out.append(np.array(decode(r, E, cells), dtype=np.int64).reshape((N,) + tuple(extra)))
    return out[::-1]


def total_datasets(struct, N, extents):
    return prod(E ** (N * prod(extra)) for extra, E in zip(struct, extents))


def ramp(struct, N, extents, a):
    """Structured data in which every extra-axis position carries different rows (exposes a transposition)."""
    out = []
    for d, (extra, E) in enumerate(zip(struct, extents)):
        arr = np.zeros((N,) + tuple(extra), dtype=np.int64)
        for cell in np.ndindex(*arr.shape):
            arr[cell] = (a * cell[0] + sum((t + 1 + a) * c for t, c in enumerate(cell[1:])) + d) % E
        out.append(arr)
    return out


def logical(values, ix, shape):
    cells = prod(shape)
    return np.array([values[g] for g in decode(ix % (4 ** cells), 4, cells)], dtype=float).reshape(shape)


def as_form(L, form):
    """A logical array (NaN == missing) as NaN-marked array or as (values, validity) with garbage under False."""
    if form == "nan":
        return L.copy()
    valid = ~np.isnan(L)
    vals = L.copy()
    flat = vals.reshape(-1)
    for t, p in enumerate(np.nonzero(~valid.reshape(-1))[0]):
        flat[p] = GARBAGE[t % 2]
    return (vals, valid)


# ----------------------------------------------------------------------------- aggregate calls

W_FORMS_COUNT = ("none", "scalar2", "scalar0", "array", "pair")
W_FORMS_FACT = ("none", "array", "pair")
COUNT_CFGS = [("count", None, 0, w, ig, fmt) for w in W_FORMS_COUNT for ig in (False, True) for fmt in ("nan", "pair")]
FACT_CFGS = [(agg, ff, cols, w, ig, fmt) for agg in ("valid_count", "sum", "mean") for ff in ("nan", "pair") for cols in (1, 2)
             for w in W_FORMS_FACT for ig in (False, True) for fmt in ("nan", "pair")]
XONLY_CFGS = ([("stddev", ff, cols, w, ig, fmt) for ff in ("nan", "pair") for cols in (1, 2) for w in W_FORMS_FACT
               for ig in (False, True) for fmt in ("nan", "pair")]
              # min / max: one-column facts only (C18's quantifier; several columns are outside what the library supports)
              + [(agg, ff, 1, "none", ig, fmt) for agg in ("min", "max") for ff in ("nan", "pair")
                 for ig in (False, True) for fmt in ("nan", "pair")])


class Call:
    """One aggregate call with concrete fact / weight data."""

    def __init__(self, cfg, N, fix, wix):
        self.agg, self.fact_form, self.cols, self.w_form, self.ignore, self.fmt = cfg
        self.N = N
        self.F = None if self.agg == "count" else logical(FACT_VALUES, fix, (N,) if self.cols == 1 else (N, self.cols))
        self.W = logical(WEIGHT_VALUES, wix, (N,)) if self.w_form in ("array", "pair") else None

    def weights(self):
        if self.w_form == "none":
            return None
        if self.w_form == "scalar2":
            return 2.0
        if self.w_form == "scalar0":
            return 0.0
        return as_form(self.W, "nan" if self.w_form == "array" else "pair")

    def run(self, cube):
        rma = NaN if self.fmt == "nan" else (0, False)
        if self.agg == "count":
            return cube.count(self.weights(), None, self.ignore, rma)
        if self.agg in ("min", "max"):
            return getattr(cube, self.agg)(as_form(self.F, self.fact_form), self.ignore, rma)
        return getattr(cube, self.agg)(as_form(self.F, self.fact_form), self.weights(), self.ignore, rma)

    def tail(self):
        return () if self.F is None else tuple(self.F.shape[1:])

    def cls(self):
        return {"aggregate": self.agg, "weights": "scalar" if self.w_form.startswith("scalar") else self.w_form,
                "fact": None if self.F is None else {"nan": "nan-marked", "pair": "values-validity"}[self.fact_form],
                "columns": self.cols, "ignore_missing": self.ignore, "format": self.fmt}

    def describe(self):
        from ..core import jsonable

        return {"aggregate": self.agg, "fact_form": self.fact_form, "columns": self.cols, "weights_form": self.w_form,
                "ignore_missing": self.ignore, "format": self.fmt, "N": self.N,
                "fact_logical": None if self.F is None else jsonable(self.F.tolist()),
                "weights_logical": None if self.W is None else jsonable(self.W.tolist()),
                "note": "logical arrays: NaN == missing; form 'pair' passes (values with 7.0/NaN garbage under False, validity)"}

    @classmethod
    def from_description(cls, d):
        def arr(x):
            return None if x is None else np.array([[NaN if v == "NaN" else v for v in r] if isinstance(r, list) else (NaN if r == "NaN" else r)
                                                    for r in x], dtype=float)

        c = cls.__new__(cls)
        c.agg, c.fact_form, c.cols, c.w_form, c.ignore, c.fmt = (d["aggregate"], d["fact_form"], d["columns"], d["weights_form"],
                                                                 d["ignore_missing"], d["format"])
        c.N = d["N"]
        c.F = arr(d["fact_logical"])
        c.W = arr(d["weights_logical"])
        return c


def pick_calls(m, N, n_count, n_fact, n_extra=0):
    """Deterministic covering choice of aggregate calls for the m-th (dataset) of a family: consecutive m walk through
    the configuration lists with a stride coprime to their length, and through the fact / weight data likewise."""
    out = []
    f1, f2, wt = 4 ** N, 4 ** (2 * N), 4 ** N
    for j in range(n_count):
        q = m * n_count + j
        out.append(Call(COUNT_CFGS[(q * 7) % len(COUNT_CFGS)], N, 0, (q * stride(wt) + 1) % wt))
    for j in range(n_fact):
        q = m * n_fact + j
        cfg = FACT_CFGS[(q * 37) % len(FACT_CFGS)]
        tot = f1 if cfg[2] == 1 else f2
        out.append(Call(cfg, N, (q * stride(tot) + 3) % tot, (q * stride(wt) + 2) % wt))
    for j in range(n_extra):
        q = m * n_extra + j
        cfg = XONLY_CFGS[(q * 41) % len(XONLY_CFGS)]
        tot = f1 if cfg[2] == 1 else f2
        out.append(Call(cfg, N, (q * stride(tot) + 5) % tot, (q * stride(wt) + 4) % wt))
    return out


def all_calls(N, variants, m=0):
    """Every configuration, each with `variants` different fact / weight data sets."""
    out = []
    f1, f2, wt = 4 ** N, 4 ** (2 * N), 4 ** N
    for t in range(variants):
        q = m * variants + t
        for cfg in COUNT_CFGS:
            out.append(Call(cfg, N, 0, (q * stride(wt) + 1) % wt))
        for i, cfg in enumerate(FACT_CFGS):
            tot = f1 if cfg[2] == 1 else f2
            out.append(Call(cfg, N, ((q * 5 + i) * stride(tot) + 3) % tot, ((q * 3 + i) * stride(wt) + 2) % wt))
    return out


# ----------------------------------------------------------------------------- outputs


class Out:
    """Normalised aggregate output: float values, boolean missing mask (or the exception raised)."""
    __slots__ = ("vals", "miss", "err", "raw_shapes")

    def __init__(self, vals=None, miss=None, err=None, raw_shapes=None):
        self.vals, self.miss, self.err, self.raw_shapes = vals, miss, err, raw_shapes

    def block(self, j):
        return Out(self.vals[j], self.miss[j])

    def show(self):
        if self.err is not None:
            return "raised %s" % self.err
        return "values %r missing %r" % (self.vals.tolist(), self.miss.astype(int).tolist())


def evaluate(call, cube_factory):
    try:
        r = call.run(cube_factory())
    except Exception as e:  # noqa
        return Out(err="%s: %s" % (type(e).__name__, str(e)[:160]))
    if call.fmt == "nan":
        v = np.asarray(r, dtype=float)
        return Out(v, np.isnan(v), raw_shapes=[tuple(np.shape(r))])
    v, ok = r
    return Out(np.asarray(v, dtype=float), ~np.asarray(ok, dtype=bool), raw_shapes=[tuple(np.shape(v)), tuple(np.shape(ok))])


def same_missing(a, b):
    if a.miss.shape != b.miss.shape or a.vals.shape != b.vals.shape:
        return "shapes differ: %r / %r" % (a.vals.shape, b.vals.shape)
    if not np.array_equal(a.miss, b.miss):
        return "missing cells differ"
    return True


def same_values(a, b, fmt):
    """Cell-wise |a-b| <= 1e-9*max(1,|grand total|).  NaN format: over cells present in both (the missing sets are the
    other clause); (value, validity) format: every cell of the value array, placeholders under False included."""
    if a.vals.shape != b.vals.shape:
        return "shapes differ: %r / %r" % (a.vals.shape, b.vals.shape)
    x, y = a.vals, b.vals
    fin = x[np.isfinite(x)]
    tol = 1e-9 * max(1.0, float(np.abs(fin).sum()) if fin.size else 0.0)
    na, nb = np.isnan(x), np.isnan(y)
    with np.errstate(all="ignore"):
        ok = (x == y) | (np.abs(x - y) <= tol) | (na & nb)
    if fmt == "nan":
        ok = ok | na | nb
    return True if bool(ok.all()) else "values differ beyond %.3g" % tol


def quiet():
    warnings.simplefilter("ignore")
    np.seterr(all="ignore")


# ----------------------------------------------------------------------------- C05 proper


def kind_of(view, v):
    if view.size == 0:
        return "empty"
    vals, cnt = np.unique(view, return_counts=True)
    n = dict(zip(vals.tolist(), cnt.tolist())).get(v, 0)
    if n == 0:
        return "empty"
    return "most_frequent" if n == int(cnt.max()) else "rare"


def class_key(cls):
    return "%s weights=%s fact=%s columns=%s ignore_missing=%s" % (cls["aggregate"], cls["weights"], cls["fact"], cls["columns"], cls["ignore_missing"])


def case_input(views, shape, ca, d, v, renorm, call):
    return {"dims": [x.tolist() for x in views], "interacting_shape": [int(e) for e in shape], "commons": [int(c) for c in ca],
            "dimension": int(d), "new_common": int(v), "renormalise": bool(renorm), "call": call.describe()}


def check_dataset(views, shape, call, st):
    """All encodings of one cube under one aggregate call; returns the number of comparisons made."""
    from catii import ccube

    k = len(views)
    shape = tuple(int(e) for e in shape)
    ob = "%s.%s/encoding-independent" % (AGG_OWNER, call.agg)
    idx = [[mk(views[d], v) for v in range(shape[d])] for d in range(k)]
    kinds = [[kind_of(views[d], v) for v in range(shape[d])] for d in range(k)]
    base_cls = call.cls()
    base_cls["dims"] = k
    base_cls["multi_axis"] = any(x.ndim > 1 for x in views)
    encodings = list(itertools.product(*[range(e) for e in shape]))
    out = {}
    for c in encodings:
        o = evaluate(call, lambda: ccube([idx[d][c[d]] for d in range(k)], shape))
        out[c] = o
        for d in range(k):
            MON.calls["C05:common-cell/" + kinds[d][c[d]]] += 1
        MON.check(ob + "-no-raise", o.err is None, lambda: "with commons %r the call %s" % (list(c), o.show()),
                  lambda: case_input(views, shape, c, 0, c[0], False, call), lambda: dict(base_cls, common_kind=[kinds[d][c[d]] for d in range(k)]))
    ncmp = 0
    for c in encodings:
        a = out[c]
        if a.err is not None:
            continue
        for d in range(k):
            # direct re-encodings (unordered pairs: the relation is symmetric)
            for v in range(c[d] + 1, shape[d]):
                c2 = c[:d] + (v,) + c[d + 1:]
                b = out[c2]
                if b.err is not None:
                    continue
                ncmp += 1
                _relate(ob, "", a, b, call, views, shape, c, d, v, False, base_cls, kinds)
    # renormalised: dimension d, built with common v, then shift_common() by the library
    for d in range(k):
        if views[d].ndim > 2:
            continue  # shift_common handles 1-D and 2-D indexes only (its own precondition)
        for v in range(shape[d]):
            r = mk(views[d], v)
            try:
                r.shift_common()
                err = None
            except Exception as e:  # noqa
                err = "%s: %s" % (type(e).__name__, e)
            MON.check(ob + "-no-raise/after-renormalising-shift_common", err is None, lambda: "shift_common() raised %s" % err,
                      lambda: case_input(views, shape, [v if t == d else 0 for t in range(k)], d, v, True, call), lambda: dict(base_cls))
            if err is not None or not (0 <= r.common < shape[d]):
                continue
            for c in encodings:
                if c[d] != v or out[c].err is not None:
                    continue
                b = evaluate(call, lambda: ccube([r if t == d else idx[t][c[t]] for t in range(k)], shape))
                MON.check(ob + "-no-raise/after-renormalising-shift_common", b.err is None,
                          lambda: "after renormalising dimension %d (common %d -> %d) the call %s" % (d, v, r.common, b.show()),
                          lambda: case_input(views, shape, c, d, v, True, call), lambda: dict(base_cls, common_kind=kinds[d][v]))
                if b.err is None:
                    ncmp += 1
                    _relate(ob, "/after-renormalising-shift_common", out[c], b, call, views, shape, c, d, v, True, base_cls, kinds)
    # the SAME cube object, before and after one of its dimensions is re-encoded in place (shift_common(w)): anything the
    # cube remembers about the encoding of its dimensions has to follow
    for d in range(k):
        if views[d].ndim > 2 or shape[d] < 2:
            continue
        for v in range(shape[d]):
            c = tuple(v if t == d else 0 for t in range(k))
            if c not in out or out[c].err is not None:
                continue
            objs = [mk(views[t], c[t]) for t in range(k)]
            cube = ccube(objs, shape)
            first = evaluate(call, lambda: cube)
            w = (v + 1) % shape[d]
            try:
                objs[d].shift_common(w)
            except Exception:  # noqa  (C06 judges shift_common itself)
                continue
            b = evaluate(call, lambda: cube)
            MON.check(ob + "-no-raise/same-cube-after-shift_common-in-place", first.err is None and b.err is None,
                      lambda: "the call on the same cube after dimension %d went from common %d to %d %s" % (d, v, w, b.show()),
                      lambda: case_input(views, shape, c, d, w, True, call), lambda: dict(base_cls, common_kind=kinds[d][v]))
            if first.err is None and b.err is None:
                ncmp += 1
                _relate(ob, "/same-cube-after-shift_common-in-place", first, b, call, views, shape, c, d, w, True, base_cls, kinds)
    return ncmp


def _relate(ob, suffix, a, b, call, views, shape, c, d, v, renorm, base_cls, kinds):
    def what():
        if renorm:
            return "dimension %d built with common %d then shift_common(): commons %r gives %s ; renormalised gives %s" % (
                d, v, list(c), a.show(), b.show())
        return "dimension %d re-encoded from common %d to %d (other commons %r): %s ; re-encoded %s" % (d, c[d], v, list(c), a.show(), b.show())

    def cls():
        return dict(base_cls, common_kind=kinds[d][v], other_common_kind=kinds[d][c[d]], renormalised=renorm)

    def inp():
        return case_input(views, shape, c, d, v, renorm, call)

    ok1 = MON.check(ob + "-missing-cells" + suffix, same_missing(a, b), what, inp, cls)
    ok2 = MON.check(ob + "-values" + suffix, same_values(a, b, call.fmt), what, inp, cls)
    if not (ok1 and ok2):
        MON.calls["C05:failing-class/" + class_key(base_cls)] += 1


# ----------------------------------------------------------------------------- scope


def families(tier):
    """(name, struct, Ns, extent tuples, cap on exhaustive data, sample size, call plan)."""
    E123 = (1, 2, 3)
    if tier == "thorough":
        return [
            dict(name="1dim", struct=[()], Ns=(0, 1, 2, 3, 4), extents=[(e,) for e in (1, 2, 3, 4)], cap=10 ** 9, K=0, plan=("all", 4)),
            dict(name="2dims", struct=[(), ()], Ns=(0, 1, 2, 3), extents=list(itertools.product((1, 2, 3, 4), repeat=2)), cap=5000, K=600,
                 plan=("pick", 6, 20)),
            dict(name="2dims-4rows", struct=[(), ()], Ns=(4,), extents=list(itertools.product((2, 3), repeat=2)), cap=7000, K=0,
                 plan=("pick", 4, 12)),
            dict(name="3dims", struct=[(), (), ()], Ns=(1, 2, 3), extents=list(itertools.product(E123, repeat=3)), cap=800, K=400,
                 plan=("pick", 3, 10)),
            dict(name="4dims", struct=[(), (), (), ()], Ns=(2, 3), extents=list(itertools.product((1, 2), repeat=4)), cap=300, K=120,
                 plan=("pick", 2, 8)),
            dict(name="2axis", struct=[(2,)], Ns=(1, 2, 3), extents=[(e,) for e in E123], cap=800, K=400, plan=("pick", 10, 30)),
            dict(name="3cols", struct=[(3,)], Ns=(1, 2), extents=[(e,) for e in E123], cap=800, K=300, plan=("pick", 6, 20)),
            dict(name="2axis+1", struct=[(2,), ()], Ns=(1, 2, 3), extents=list(itertools.product(E123, repeat=2)), cap=300, K=200,
                 plan=("pick", 4, 16)),
            dict(name="1+2axis", struct=[(), (2,)], Ns=(1, 2, 3), extents=list(itertools.product(E123, repeat=2)), cap=300, K=200,
                 plan=("pick", 4, 16)),
            dict(name="2axis+3cols", struct=[(2,), (3,)], Ns=(1, 2), extents=list(itertools.product((2, 3), repeat=2)), cap=100, K=100,
                 plan=("pick", 3, 10)),
            dict(name="3axis", struct=[(2, 3)], Ns=(1, 2), extents=[(2,), (3,)], cap=100, K=100, plan=("pick", 4, 12)),
        ] + MEDIUM
    return [
        dict(name="1dim", struct=[()], Ns=(0, 1, 2, 3), extents=[(e,) for e in E123], cap=10 ** 9, K=0, plan=("all", 4)),
        dict(name="2dims", struct=[(), ()], Ns=(0, 1, 2, 3), extents=list(itertools.product(E123, repeat=2)), cap=10 ** 9, K=0,
             plan=("pick", 8, 24)),
        dict(name="3dims-2cat", struct=[(), (), ()], Ns=(1, 2, 3), extents=list(itertools.product((1, 2), repeat=3)), cap=10 ** 9, K=0,
             plan=("pick", 3, 10)),
        dict(name="3dims-3cat", struct=[(), (), ()], Ns=(2, 3), extents=[(3, 3, 3), (3, 2, 3), (2, 3, 1), (1, 3, 3), (3, 3, 2)], cap=0, K=40,
             plan=("pick", 3, 6)),
        dict(name="2axis", struct=[(2,)], Ns=(1, 2), extents=[(e,) for e in E123], cap=100, K=60, plan=("pick", 5, 16)),
        dict(name="3cols", struct=[(3,)], Ns=(1, 2), extents=[(2,), (3,)], cap=64, K=40, plan=("pick", 3, 8)),
        dict(name="2axis+1", struct=[(2,), ()], Ns=(1, 2), extents=[(2, 2), (2, 3), (3, 2), (1, 2)], cap=64, K=48, plan=("pick", 3, 8)),
        dict(name="1+2axis", struct=[(), (2,)], Ns=(1, 2), extents=[(2, 2), (2, 3), (3, 2), (2, 1)], cap=64, K=48, plan=("pick", 3, 8)),
        dict(name="2axis+3cols", struct=[(2,), (3,)], Ns=(1, 2), extents=[(2, 2), (3, 2)], cap=32, K=24, plan=("pick", 2, 6)),
        dict(name="3axis", struct=[(2, 3)], Ns=(1, 2), extents=[(2,), (3,)], cap=64, K=30, plan=("pick", 3, 8)),
    ] + MEDIUM


# medium-size datasets (12-40 rows, extents 4-8, 4-5 columns): reach size-threshold code paths; evenly spaced samples
MEDIUM = [
    dict(name="medium-1dim", struct=[()], Ns=(12, 40), extents=[(5,), (8,)], cap=0, K=5, plan=("pick", 4, 10)),
    dict(name="medium-2dims", struct=[(), ()], Ns=(24,), extents=[(5, 4), (7, 3)], cap=0, K=5, plan=("pick", 3, 8)),
    dict(name="medium-3dims", struct=[(), (), ()], Ns=(18,), extents=[(4, 3, 5)], cap=0, K=4, plan=("pick", 2, 6)),
    dict(name="medium-5cols", struct=[(5,)], Ns=(12,), extents=[(4,)], cap=0, K=4, plan=("pick", 3, 8)),
    dict(name="medium-4cols+1", struct=[(4,), ()], Ns=(16,), extents=[(4, 5)], cap=0, K=3, plan=("pick", 2, 6)),
    dict(name="medium-9cols", struct=[(9,)], Ns=(3,), extents=[(3,)], cap=0, K=4, plan=("pick", 3, 6)),
    dict(name="medium-17cols", struct=[(17,)], Ns=(2,), extents=[(2,)], cap=0, K=3, plan=("pick", 2, 5)),
    dict(name="medium-long-lists", struct=[(), ()], Ns=(70,), extents=[(2, 7)], cap=0, K=4, plan=("pick", 3, 8)),
]


def is_sampled(tier):
    for fam in families(tier):
        for N in fam["Ns"]:
            for E in fam["extents"]:
                if total_datasets(fam["struct"], N, E) > fam["cap"]:
                    return True
        if fam["plan"][0] != "all":
            return True
    return False


def exhaustive_families(tier):
    return [fam["name"] for fam in families(tier)
            if all(total_datasets(fam["struct"], N, E) <= fam["cap"] for N in fam["Ns"] for E in fam["extents"])]


def jobs(tier, seed):
    """Yield (family name, views, shape, N, m) - m numbers the datasets of a family (drives the call choice)."""
    for fam in families(tier):
        m = 0
        for N in fam["Ns"]:
            for E in fam["extents"]:
                tot = total_datasets(fam["struct"], N, E)
                if tot <= fam["cap"]:
                    ixs = range(tot)
                else:
                    off = (seed * 7919 + 13) % tot if tier == "thorough" else 0
                    ixs = spaced(tot, fam["K"], off)
                for ix in ixs:
                    yield fam, dims_from_index(ix, fam["struct"], N, E), E, N, m
                    m += 1
                if tot > fam["cap"]:
                    for a in (1, 2):
                        yield fam, ramp(fam["struct"], N, E, a), E, N, m
                        m += 1


def calls_for(fam, N, m):
    plan = fam["plan"]
    if plan[0] == "all":
        return all_calls(N, plan[1], m)
    return pick_calls(m, N, plan[1], plan[2])


class Stats:
    def __init__(self):
        self.calls = 0
        self.nontrivial = 0
        self.samples = []


def work(args):
    """One shard. args = (tier, shard, nshards[, seed])."""
    tier, shard, nshards = args[:3]
    seed = int(args[3]) if len(args) > 3 and args[3] is not None else 0
    from .. import env

    env.import_catii()
    quiet()
    st = Stats()
    j = 0
    for fam, views, shape, N, m in jobs(tier, seed):
        if j % nshards == shard:
            for call in calls_for(fam, N, m):
                n = check_dataset(views, shape, call, st)
                st.calls += 1
                if n:
                    st.nontrivial += 1
                if len(st.samples) < 4 and st.calls % 1499 == 1:
                    st.samples.append({"family": fam["name"], "dims": [x.tolist() for x in views], "interacting_shape": list(shape),
                                       "call": call.describe(), "comparisons": n})
        j += 1
    out = MON.dump()
    out.update(driver_calls=st.calls, nontrivial=st.nontrivial, samples=st.samples, jobs=j)
    return out


def replay_case(inp):
    """Re-run one recorded comparison; returns the list of failures recorded."""
    from catii import ccube

    quiet()
    views = [np.array(x, dtype=np.int64) for x in inp["dims"]]
    shape = tuple(inp["interacting_shape"])
    call = Call.from_description(inp["call"])
    c, d, v = tuple(inp["commons"]), inp["dimension"], inp["new_common"]
    k = len(views)
    ob = "%s.%s/encoding-independent" % (AGG_OWNER, call.agg)
    a = evaluate(call, lambda: ccube([mk(views[t], c[t]) for t in range(k)], shape))
    other = mk(views[d], v)
    if inp["renormalise"]:
        other.shift_common()
    b = evaluate(call, lambda: ccube([other if t == d else mk(views[t], c[t]) for t in range(k)], shape))
    suffix = "/after-renormalising-shift_common" if inp["renormalise"] else ""
    print("commons %r          : %s" % (list(c), a.show()))
    print("dimension %d common %d%s: %s" % (d, v, " + shift_common()" if inp["renormalise"] else "", b.show()))
    MON.check(ob + "-no-raise" + suffix, a.err is None and b.err is None, "a call raised", inp)
    if a.err is None and b.err is None:
        MON.check(ob + "-missing-cells" + suffix, same_missing(a, b), "missing cells / shape differ between the two encodings", inp)
        MON.check(ob + "-values" + suffix, same_values(a, b, call.fmt), "values differ between the two encodings", inp)
    return list(MON.failures)
