"""Contracts on the real iindex operations (C06 / C07 / C15; DESIGN §6 C06 table).

One contract per operation, postcondition over the WHOLE dense view (not only the touched
cells), `requires wf(self) [and wf(other)]` plus the operation's own argument preconditions
read off the code and its call sites.  Clause names:

    ensures-view*            C06   the dense view after the call equals NumPy's result on the old view
    ensures-common-*         C06   the common value is the one requested / unchanged
    frame-*  no-shared-*     C06   other operands byte-identical afterwards; requested copies share no storage
    no-raise                 C06   the operation does not raise inside its precondition
    ensures-wf-<conjunct>    C07   each conjunct of well-formedness of the result
    ensures-validate         C07   the library's own validate(True) accepts the result
    ensures-common-is-mode   C15   a library-chosen common value is a most frequent value
"""
import numpy as np

from .contract import Contract, attach
from .speclib import U32, WF_CONJUNCTS, describe, is_mode, shares_storage, snap, view, wf


def _is_idx(x):
    from catii import iindex

    return isinstance(x, iindex)


def wf_ok(x):
    return _is_idx(x) and not wf(x)


def wf_clauses(get):
    """ensures-wf-<conjunct> for the index returned by get(old, res, *a, **kw)."""
    out = []
    for cj in WF_CONJUNCTS:
        def cl(old, res, *a, _cj=cj, **kw):
            x = get(old, res, *a, **kw)
            bad = wf(x)
            return True if _cj not in bad else "result violates well-formedness conjunct %r: entries %r common %r shape %r" % (
                _cj, {k: v.tolist() for k, v in dict.items(x)}, x.common, x.shape)
        out.append(("ensures-wf-" + cj, cl))

    def validate(old, res, *a, **kw):
        x = get(old, res, *a, **kw)
        try:
            x.validate(True)
        except ValueError as e:
            return "validate(True) rejects the result: %s" % e
        return True

    out.append(("ensures-validate", validate))
    return out


def view_clause(get, expect, name="ensures-view"):
    def cl(old, res, *a, **kw):
        x = get(old, res, *a, **kw)
        exp = np.asarray(expect(old, res, *a, **kw))
        try:
            v = view(x)
        except Exception as e:
            return "view of the result cannot be formed (%s: %s); entries %r" % (
                type(e).__name__, e, {k: np.asarray(r).tolist() for k, r in dict.items(x)})
        if tuple(x.shape) != tuple(exp.shape):
            return "shape %r, expected %r" % (x.shape, exp.shape)
        if not np.array_equal(v, exp):
            return "dense view %r, expected %r" % (v.tolist(), exp.tolist())
        return True
    return (name, cl)


def mode_clause(get):
    def cl(old, res, *a, **kw):
        x = get(old, res, *a, **kw)
        v = view(x)
        return True if is_mode(v, x.common) else "common %r is not a most frequent value of %r" % (x.common, v.tolist())
    return ("ensures-common-is-mode", cl)


SELF = lambda old, res, self, *a, **kw: self  # noqa
RES = lambda old, res, *a, **kw: res  # noqa


def _desc_self(old, self, *a, **kw):
    return {"self": old["self_desc"], "args": [_j(x) for x in a], "kwargs": {k: _j(v) for k, v in kw.items()}}


def _j(x):
    if _is_idx(x):
        return {"iindex": describe(x)}
    if isinstance(x, np.ndarray):
        return {"ndarray": x.tolist(), "dtype": str(x.dtype)}
    if isinstance(x, dict):
        return {"dict": [[_j(k), _j(v)] for k, v in x.items()]}
    if isinstance(x, (list, tuple)):
        return [_j(v) for v in x]
    if isinstance(x, np.generic):
        return x.item()
    return x


def _old_self(self, *a, **kw):
    return {"view": view(self), "common": self.common, "shape": self.shape, "snap": snap(self), "self_desc": describe(self),
            "others": [snap(x) for x in a if _is_idx(x)]}


# --------------------------------------------------------------------------- expected results (NumPy on the view)


def _map_array(v, fn):
    out = np.empty(v.shape, dtype=np.int64)
    flat = v.reshape(-1)
    o = out.reshape(-1)
    for i in range(flat.size):
        o[i] = fn(int(flat[i]))
    return out


def install():
    import catii.iindexes as M

    I = M.iindex

    # ---- shift_common
    def sc_requires(self, new_common=None):
        return wf_ok(self) and len(self.shape) in (1, 2) and (new_common is None or type(new_common) is int)

    attach(I, "shift_common", Contract(
        "iindexes.iindex.shift_common", requires=sc_requires, old=_old_self, describe=_desc_self,
        ensures=[
            view_clause(SELF, lambda old, res, self, new_common=None: old["view"]),
            ("ensures-common-as-requested", lambda old, res, self, new_common=None:
                True if (new_common is None or self.common == new_common) else "common %r, requested %r" % (self.common, new_common)),
            ("ensures-common-is-mode", lambda old, res, self, new_common=None:
                True if (new_common is not None or is_mode(old["view"], self.common)) else
                "library-chosen common %r is not a most frequent value of %r" % (self.common, old["view"].tolist())),
        ] + wf_clauses(SELF)))

    # ---- copy
    attach(I, "copy", Contract(
        "iindexes.iindex.copy", requires=lambda self: wf_ok(self), old=_old_self, describe=_desc_self,
        ensures=[
            view_clause(RES, lambda old, res, self: old["view"]),
            ("ensures-common-unchanged", lambda old, res, self: True if res.common == old["common"] else "common %r" % (res.common,)),
            ("frame-self-unchanged", lambda old, res, self: True if snap(self) == old["snap"] else "receiver changed"),
            ("no-shared-storage", lambda old, res, self: True if not shares_storage(res, self) else "copy shares row-id storage with its source"),
        ] + wf_clauses(RES)))

    # ---- filtered
    def f_requires(self, mask, new_length):
        m = np.asarray(mask)
        return (wf_ok(self) and len(self.shape) in (1, 2) and m.dtype == bool and m.ndim == 1 and len(m) == self.shape[0]
                and int(m.sum()) == new_length)

    attach(I, "filtered", Contract(
        "iindexes.iindex.filtered", requires=f_requires, old=_old_self, describe=_desc_self,
        ensures=[
            view_clause(RES, lambda old, res, self, mask, new_length: old["view"][np.asarray(mask)]),
            ("frame-self-unchanged", lambda old, res, self, mask, new_length: True if snap(self) == old["snap"] else "receiver changed"),
            # (no storage clause here: the property demands unshared storage only of EXPLICITLY requested copies - copy(),
            #  copy=True - and a filter that keeps every row may legitimately reuse the receiver's arrays)
            mode_clause(RES),
        ] + wf_clauses(RES)))

    # ---- sliced
    def sl_requires(self, *orders):
        # "int | order list | None per axis": one argument per higher axis (or none at all)
        if not wf_ok(self) or len(orders) not in (0, len(self.shape) - 1):
            return False
        for ax, o in enumerate(orders, 1):
            if o is None:
                continue
            if type(o) is int:
                if not 0 <= o < self.shape[ax]:
                    return False
            elif isinstance(o, list):
                if len(set(o)) != len(o) or any(type(x) is not int or not 0 <= x < self.shape[ax] for x in o):
                    return False
            else:
                return False
        return True

    def sl_expect(old, res, self, *orders):
        v = old["view"]
        ix = [slice(None)]
        for o in orders:
            ix.append(slice(None) if o is None else o)
        # apply one axis at a time so that several list orders select an outer product, like the index does
        out = v
        axis = 1
        for o in orders:
            if o is None:
                axis += 1
            elif type(o) is int:
                out = np.take(out, o, axis=axis)
            else:
                out = np.take(out, np.array(o, dtype=np.int64), axis=axis)
                axis += 1
        return out

    attach(I, "sliced", Contract(
        "iindexes.iindex.sliced", requires=sl_requires, old=_old_self, describe=_desc_self,
        ensures=[
            view_clause(RES, sl_expect),
            ("ensures-common-unchanged", lambda old, res, self, *o: True if res.common == old["common"] else "common %r" % (res.common,)),
            ("frame-self-unchanged", lambda old, res, self, *o: True if snap(self) == old["snap"] else "receiver changed"),
        ] + wf_clauses(RES)))

    # ---- reindexed
    def re_requires(self, mapping=None, copy=True, shift=True, assume_unique=False):
        # assume_unique=True requires that no row is shared by two merged entries: merged entries have the same
        # higher coordinates, so for a well-formed (exclusive) index this always holds
        if not wf_ok(self) or len(self.shape) not in (1, 2):
            return False
        if mapping is not None:
            if not isinstance(mapping, dict) or any(type(k) is not int or type(v) is not int for k, v in mapping.items()):
                return False
        return True

    def re_mapping(old, self, mapping):
        if mapping is None:
            listed = sorted({k[0] for k in old["snap"][2]})
            return {v: i for i, v in enumerate(listed)}
        return mapping

    def re_expect(old, res, self, mapping=None, copy=True, shift=True, assume_unique=False):
        mm = re_mapping(old, self, mapping)
        return _map_array(old["view"], lambda v: mm.get(v, v))

    def re_old(self, mapping=None, **kw):
        o = _old_self(self)
        o["mapping"] = None if mapping is None else dict(mapping)
        return o

    def re_cls(old, self, mapping=None, **kw):
        return {"default_mapping": mapping is None, "ndim": len(old["shape"])}

    attach(I, "reindexed", Contract(
        "iindexes.iindex.reindexed", requires=re_requires, old=re_old, describe=_desc_self, classify=re_cls,
        ensures=[
            view_clause(RES, re_expect),
            ("frame-self-unchanged", lambda old, res, self, *a, **kw: True if snap(self) == old["snap"] else "receiver changed"),
            ("frame-mapping-unchanged", lambda old, res, self, mapping=None, *a, **kw:
                True if (mapping is None or dict(mapping) == old["mapping"]) else "mapping argument changed"),
            ("no-shared-storage(copy=True)", lambda old, res, self, mapping=None, copy=True, **kw:
                True if (not copy or not shares_storage(res, self)) else "copy=True result shares storage with receiver"),
        ] + wf_clauses(RES)))

    # ---- collapsed
    def co_requires(self, precedence, mapping=None):
        return (wf_ok(self) and len(self.shape) == 2 and mapping is None and isinstance(precedence, list) and len(precedence) > 0
                and len(set(precedence)) == len(precedence) and all(type(p) is int for p in precedence))

    def co_expect(old, res, self, precedence, mapping=None):
        v = old["view"]
        out = [next((p for p in precedence if p in row), precedence[-1]) for row in v.tolist()]
        return np.array(out, dtype=np.int64).reshape(v.shape[0])

    def co_old(self, precedence, mapping=None):
        o = _old_self(self)
        o["precedence"] = list(precedence)
        return o

    def co_cls(old, self, precedence, mapping=None):
        vals = set(old["view"].reshape(-1).tolist())
        return {"negative_precedence": min(precedence) < 0, "omits_present_value": bool(vals - set(precedence)),
                "rows": old["shape"][0]}

    attach(I, "collapsed", Contract(
        "iindexes.iindex.collapsed", requires=co_requires, old=co_old, describe=_desc_self, classify=co_cls,
        ensures=[
            view_clause(RES, co_expect),
            ("frame-self-unchanged", lambda old, res, self, precedence, mapping=None: True if snap(self) == old["snap"] else "receiver changed"),
            ("frame-precedence-unchanged", lambda old, res, self, precedence, mapping=None:
                True if list(precedence) == old["precedence"] else "precedence list changed"),
            mode_clause(RES),
        ] + wf_clauses(RES)))

    # ---- append
    def ap_requires(self, other):
        return (wf_ok(self) and wf_ok(other) and other is not self and len(self.shape) in (1, 2)
                and self.shape[1:] == other.shape[1:])

    def ap_old(self, other):
        o = _old_self(self)
        o["other_view"] = view(other)
        o["other_snap"] = snap(other)
        o["other_desc"] = describe(other)
        return o

    def ap_desc(old, self, other):
        return {"self": old["self_desc"], "other": old["other_desc"]}

    def ap_cls(old, self, other):
        ov = old["other_view"]
        return {"other_common_has_rows": bool((ov == other.common).any()), "ndim": len(old["shape"])}

    attach(I, "append", Contract(
        "iindexes.iindex.append", requires=ap_requires, old=ap_old, describe=ap_desc, classify=ap_cls,
        ensures=[
            view_clause(SELF, lambda old, res, self, other: np.concatenate([old["view"], old["other_view"]])),
            ("frame-other-unchanged", lambda old, res, self, other: True if snap(other) == old["other_snap"] else "appended operand changed"),
            mode_clause(SELF),
        ] + wf_clauses(SELF)))

    # ---- update
    def up_requires(self, entries):
        if not wf_ok(self) or not isinstance(entries, dict):
            return False
        seen = set()
        for k, r in entries.items():
            if type(k) is not tuple or len(k) != len(self.shape) or any(type(c) is not int for c in k):
                return False
            if any(not 0 <= c < e for c, e in zip(k[1:], self.shape[1:])):
                return False
            if not isinstance(r, np.ndarray) or r.dtype != U32 or r.ndim != 1 or len(r) == 0:
                return False
            rr = r.astype(np.int64)
            if (len(rr) > 1 and not (rr[1:] > rr[:-1]).all()) or rr[-1] >= self.shape[0]:
                return False
            for x in rr.tolist():
                cell = (x,) + k[1:]
                if cell in seen:
                    return False
                seen.add(cell)
        return True

    def up_old(self, entries):
        o = _old_self(self)
        o["entries"] = {k: v.copy() for k, v in entries.items()}
        return o

    def up_expect(old, res, self, entries):
        exp = old["view"].copy()
        for k, r in old["entries"].items():
            exp[(r.astype(np.int64),) + tuple(k[1:])] = k[0]
        return exp

    attach(I, "update", Contract(
        "iindexes.iindex.update", requires=up_requires, old=up_old,
        describe=lambda old, self, entries: {"self": old["self_desc"], "entries": {str(k): v.tolist() for k, v in old["entries"].items()}},
        ensures=[
            view_clause(SELF, up_expect),
            ("ensures-common-unchanged", lambda old, res, self, entries: True if self.common == old["common"] else "common changed to %r" % (self.common,)),
            ("frame-entries-unchanged", lambda old, res, self, entries:
                True if (set(entries) == set(old["entries"]) and all(np.array_equal(entries[k], old["entries"][k]) for k in entries)) else "entries argument changed"),
        ] + wf_clauses(SELF)))

    # ---- entry-wise set updates
    def su_requires(self, other):
        return wf_ok(self) and wf_ok(other) and other is not self and self.shape == other.shape

    def su_old(self, other):
        o = _old_self(self)
        o["before"] = {k: set(v.tolist()) for k, v in dict.items(self)}
        o["oth"] = {k: set(v.tolist()) for k, v in dict.items(other)}
        o["other_snap"] = snap(other)
        o["other_desc"] = describe(other)
        return o

    def su_clause(kind):
        def cl(old, res, self, other):
            before, oth = old["before"], old["oth"]
            exp = {}
            for k in set(before) | set(oth):
                if kind == "intersection":
                    if k in oth and k in before:
                        r = before[k] & oth[k]
                    else:
                        continue
                elif kind == "union":
                    r = before.get(k, set()) | oth.get(k, set())
                else:
                    r = before.get(k, set()) - oth.get(k, set())
                if r:
                    exp[k] = sorted(r)
            got = {k: v.tolist() for k, v in dict.items(self)}
            if got != exp:
                return "entries after %s_update %r, expected %r" % (kind, got, exp)
            for v in dict.values(self):
                if v.dtype != U32:
                    return "entry dtype %s" % v.dtype
            return True
        return ("ensures-entrywise-set-algebra", cl)

    for kind in ("union", "intersection", "difference"):
        attach(I, kind + "_update", Contract(
            "iindexes.iindex.%s_update" % kind, requires=su_requires, old=su_old,
            describe=lambda old, self, other: {"self": old["self_desc"], "other": old["other_desc"]},
            ensures=[
                su_clause(kind),
                ("frame-other-unchanged", lambda old, res, self, other: True if snap(other) == old["other_snap"] else "operand changed"),
                ("ensures-wf-empty-entry", lambda old, res, self, other: True if "empty-entry" not in wf(self) else "empty entry left behind"),
                ("ensures-wf-not-strictly-increasing", lambda old, res, self, other:
                    True if "not-strictly-increasing" not in wf(self) else "entry not strictly increasing"),
                ("ensures-wf-rowids-dtype", lambda old, res, self, other: True if "rowids-dtype" not in wf(self) else "entry dtype"),
            ]))

    # ---- observers
    def cr_requires(self, colindex=None):
        if not wf_ok(self):
            return False
        if len(self.shape) == 1:
            return colindex is None
        return len(self.shape) == 2 and type(colindex) is int and 0 <= colindex < self.shape[1]

    def cr_clause(old, res, self, colindex=None):
        v = old["view"]
        col = v if v.ndim == 1 else v[:, colindex]
        exp = np.nonzero(col == old["common"])[0]
        if not (isinstance(res, np.ndarray) and res.dtype == U32):
            return "result dtype %r" % getattr(res, "dtype", None)
        return True if res.tolist() == exp.tolist() else "common rows %r, expected %r" % (res.tolist(), exp.tolist())

    attach(I, "common_rowids", Contract(
        "iindexes.iindex.common_rowids", requires=cr_requires, old=_old_self, describe=_desc_self,
        ensures=[("ensures-rows-where-view-is-common", cr_clause),
                 ("frame-self-unchanged", lambda old, res, self, colindex=None: True if snap(self) == old["snap"] else "receiver changed")]))

    def td_clause(old, res, self, force=False):
        v, c = old["view"], old["common"]
        exp = {k: np.frombuffer(b, dtype=np.uint32).tolist() for k, (b, dt, sh) in old["snap"][2].items()}
        if force:
            if v.ndim == 1:
                exp[(c,)] = np.nonzero(v == c)[0].tolist()
            else:
                for col in range(v.shape[1]):
                    exp[(c, col)] = np.nonzero(v[:, col] == c)[0].tolist()
        return True if res == exp else "to_dict(force=%r) %r, expected %r" % (force, res, exp)

    attach(I, "to_dict", Contract(
        "iindexes.iindex.to_dict", requires=lambda self, force=False: wf_ok(self) and len(self.shape) in (1, 2),
        old=_old_self, describe=_desc_self,
        ensures=[("ensures-content", td_clause),
                 ("frame-self-unchanged", lambda old, res, self, force=False: True if snap(self) == old["snap"] else "receiver changed")]))

    def get_clause(old, res, self, key, default=None, force=False):
        v, c = old["view"], old["common"]
        if type(key) is tuple and len(key) == v.ndim and all(type(x) is int for x in key) and \
                all(0 <= x < e for x, e in zip(key[1:], v.shape[1:])):
            col = v if v.ndim == 1 else v[(slice(None),) + tuple(key[1:])]
            rows = np.nonzero(col == key[0])[0].tolist()
            if key[0] == c and not force:
                rows = []
            if not rows:
                return True if res is default else "get(%r, force=%r) returned %r for a value with no rows" % (key, force, res)
            if res is default or np.asarray(res).tolist() != rows:
                return "get(%r, force=%r) %r, expected %r" % (key, force, None if res is None else np.asarray(res).tolist(), rows)
        return True

    attach(I, "get", Contract(
        "iindexes.iindex.get",
        requires=lambda self, key, default=None, force=False: wf_ok(self) and len(self.shape) in (1, 2) and default is None and force,
        old=_old_self, describe=_desc_self, ensures=[("ensures-rows-of-value", get_clause)]))

    # ---- column_stack (module-level function)
    def cs_requires(iindexes, new_common=None, copy=False):
        return (isinstance(iindexes, (list, tuple)) and len(iindexes) > 0 and all(wf_ok(x) and len(x.shape) in (1, 2) for x in iindexes)
                and len({x.shape[0] for x in iindexes}) == 1 and (new_common is None or type(new_common) is int))

    def cs_old(iindexes, new_common=None, copy=False):
        return {"views": [view(x) for x in iindexes], "snaps": [snap(x) for x in iindexes], "descs": [describe(x) for x in iindexes]}

    def cs_expect(old, res, iindexes, new_common=None, copy=False):
        n = old["views"][0].shape[0]
        cols = [v.reshape(n, 1) if v.ndim == 1 else v for v in old["views"]]
        return np.concatenate(cols, axis=1)

    attach(M, "column_stack", Contract(
        "iindexes.column_stack", requires=cs_requires, old=cs_old,
        describe=lambda old, iindexes, new_common=None, copy=False: {"inputs": old["descs"], "new_common": new_common, "copy": copy},
        ensures=[
            view_clause(RES, cs_expect),
            ("ensures-common-as-requested", lambda old, res, iindexes, new_common=None, copy=False:
                True if (new_common is None or res.common == new_common) else "common %r, requested %r" % (res.common, new_common)),
            ("frame-inputs-unchanged", lambda old, res, iindexes, new_common=None, copy=False:
                True if [snap(x) for x in iindexes] == old["snaps"] else "an input index changed"),
            ("no-shared-storage(copy=True)", lambda old, res, iindexes, new_common=None, copy=False:
                True if (not copy or not any(shares_storage(res, x) for x in iindexes)) else "copy=True result shares storage with an input"),
        ] + wf_clauses(RES)))
    import catii

    if hasattr(catii, "column_stack"):
        catii.column_stack = M.column_stack
    return M


def property_of(obligation):
    """Which property a clause belongs to."""
    name = obligation.rsplit("/", 1)[-1]
    if name.startswith("ensures-wf-") or name == "ensures-validate" or name.startswith("observer-"):
        return "C07"
    if name == "ensures-common-is-mode" or name.startswith("eq-"):
        return "C15"
    return "C06"
