"""Exhaustive small-scope driver for the aggregate contracts (C03 / C04).

Family A ("every cube x covering design"): every cube in scope - 0-3 dimensions of 1-D indexes /
arrays, all dense rows over the value set, every common per dimension including one that is absent
from the data, explicit and inferred shape - is run with a pairwise-covering design over

    fact form  x  weight form  x  missing policy  x  dtype of the array cube's dims  x  format set

(every pair of factor levels occurs with every cube; the design is built by a deterministic greedy
construction and its coverage is asserted), all four aggregates, BOTH cube types per design row.
A format set is the NaN format (the reference of the relational clauses) plus one other format in
the quick tier - (0, False), (-7.5, False) or plain 0 - and all four formats in the thorough tier.
The fact and weight *contents* of a design row are drawn, deterministically, from the exhaustive
list of grid tuples (a full-cycle walk through grid^(N*K), so no content is privileged):

    fact grid {0, 1, 2.5, -3, NaN}; forms: NaN-marked / (values, validity) with garbage (NaN, 99, -1)
    under False / int64 with validity / plain int64; shapes (N,), (N,2) (thorough: also (N,3))
    weights: None, 0.0, 2.0, arrays over {0, .5, 2} and NaN-marked over {0, 2, .5, NaN},
    (values, validity) with garbage (NaN, -1, 7) under False

Family B ("exhaustive data"): for the 1-dimension cubes over two categories (N <= 3 rows for (N,)
facts, N <= 2 for (N,2) facts; commons 0 and the absent 2) the contents are enumerated exhaustively:
every fact over the full grid with weights None and 2.0, and every weight array over {0, 2, NaN}
with every fact over {0, 2.5, NaN} (thorough: full grid, commons 0/1/2); both policies, NaN format,
both cube types.

The contracts attached to the real methods (contracts_agg) judge every call, including the nested
calls the library makes; the relational clauses (formats agree; ccube ~ xcube) are stated here.
Work is sharded over processes by job number (conventions of drive_iindex).
"""
import itertools

import numpy as np

from . import contracts_agg as CA
from . import spec_agg as S
from .contract import MON
from .speclib import mk

NaN = float("nan")
B_FACT_SMALL = (0.0, 2.5, NaN)
GRID = (0.0, 1.0, 2.5, -3.0, NaN)
WGRID = (0.0, 2.0, 0.7, NaN)  # 0.7 (with 0.1 below) is non-dyadic on purpose: differencing residues must not change the missing set
WGRID_VALID = (0.0, 0.7, 0.1)
FORMATS = (("nan", NaN), ("tuple0", (0, False)), ("tupleS", (-7.5, False)), ("plain", 0))
FACT_AGGS = ("valid_count", "sum", "mean")
# the NaN format is the reference of the relational clauses: every design row runs it plus the
# other format(s) of its "format set" (quick: one other format per row, every pair of (format,
# other factor level) with every cube; thorough: all four formats on every row)
FORMAT_SETS_QUICK = (("nan", "tuple0"), ("nan", "tupleS"), ("nan", "plain"))
FORMAT_SETS_THOROUGH = (("nan", "tuple0", "tupleS", "plain"),)

FACT_FORMS_QUICK = ("nan1", "pair1", "nan2", "pair2", "int")
FACT_FORMS_THOROUGH = ("nan1", "pair1", "nan23", "pair23", "intpair", "int1plain")
WEIGHT_FORMS = ("none", "scalar0", "scalar2", "array", "pair")
XDTYPES_QUICK = ("int64", "uint8", "uint16", "uint32")
XDTYPES_THOROUGH = ("int64", "uint8", "uint16", "uint32", "int8", "int16", "int32", "uint64")


def scopes(tier):
    """A1: (values per dim, max rows); A2: list of (values per dim, max rows, commons 'all' | 'edge');
    A3: list of (values per dim, max rows, common patterns 'all' | 'some')."""
    if tier == "thorough":
        return dict(thorough=True, fact_forms=FACT_FORMS_THOROUGH, xdtypes=XDTYPES_THOROUGH, format_sets=FORMAT_SETS_THOROUGH,
                    N0=5, A1=(3, 5), A2_inferred="edge",
                    A2=[((2, 2), 3, "all"), ((3, 3), 2, "edge"), ((2, 3), 2, "all"), ((3, 2), 2, "all")],
                    A3=[((2, 2, 2), 2, "all"), ((2, 3, 2), 2, "some")],
                    BN=3, BN2=2, Bcommons=(0, 2), Bgrid_under_array_weights=GRID)
    return dict(fact_forms=FACT_FORMS_QUICK, xdtypes=XDTYPES_QUICK, format_sets=FORMAT_SETS_QUICK,
                N0=4, A1=(3, 4), A2_inferred="edge",
                A2=[((2, 2), 3, "all"), ((2, 3), 2, "edge"), ((3, 2), 2, "edge")],
                A3=[((2, 2, 2), 2, "some")],
                BN=3, BN2=2, Bcommons=(0, 2), Bgrid_under_array_weights=B_FACT_SMALL)


# ----------------------------------------------------------------------------- covering design


def covering(levels):
    """Deterministic greedy pairwise-covering array: rows of level indices, one per factor, such that
    every pair of levels of two different factors occurs in some row."""
    k = len(levels)
    need = set()
    for i in range(k):
        for j in range(i + 1, k):
            for a in range(levels[i]):
                for b in range(levels[j]):
                    need.add((i, a, j, b))
    cands = list(itertools.product(*[range(n) for n in levels]))
    rows = []
    while need:
        best, gain = None, -1
        for c in cands:
            g = sum(1 for i in range(k) for j in range(i + 1, k) if (i, c[i], j, c[j]) in need)
            if g > gain:
                best, gain = c, g
        rows.append(best)
        for i in range(k):
            for j in range(i + 1, k):
                need.discard((i, best[i], j, best[j]))
    return rows


def check_covering(rows, levels):
    k = len(levels)
    for i in range(k):
        for j in range(i + 1, k):
            seen = {(r[i], r[j]) for r in rows}
            if len(seen) != levels[i] * levels[j]:
                raise AssertionError("design does not cover factor pair %d/%d" % (i, j))


_DESIGNS = {}


def designs(sc):
    """(rows for the fact aggregates, rows for count): level indices of
    (fact form, weight form, policy, xcube dim dtype, format set) resp. (weight form, policy, dtype, format set)."""
    key = (sc["fact_forms"], sc["xdtypes"], sc["format_sets"])
    if key not in _DESIGNS:
        lv = [len(sc["fact_forms"]), len(WEIGHT_FORMS), 2, len(sc["xdtypes"]), len(sc["format_sets"])]
        fact_rows = covering(lv)
        check_covering(fact_rows, lv)
        lc = lv[1:]
        count_rows = covering(lc)
        check_covering(count_rows, lc)
        _DESIGNS[key] = (fact_rows, count_rows)
    return _DESIGNS[key]


# ----------------------------------------------------------------------------- data


def grid_tuple(grid, n, idx):
    """The element number (7919*idx + 13) mod |grid|^n of grid^n: a full-cycle walk (7919 is prime)."""
    total = len(grid) ** n
    t = (7919 * idx + 13) % total
    out = []
    for _ in range(n):
        out.append(grid[t % len(grid)])
        t //= len(grid)
    return out


def form_K(form):
    """number of fact columns encoded in a fact-form name (nan2 -> 2, int1pair -> 1)"""
    return int([ch for ch in form if ch.isdigit()][0])


def fact_from_grid(form, N, g, idx):
    """Build the fact argument of the given form from a tuple g of N*K grid values."""
    K = form_K(form)
    a = np.array(g, dtype=np.float64).reshape((N, K) if K > 1 else (N,))
    missing = np.isnan(a)
    if form.startswith("nan"):
        return a
    if form.startswith("pair"):
        vals = a.copy()
        vals[missing] = (NaN, 99.0, -1.0)[idx % 3]  # arbitrary (incl. NaN) under a False validity
        return (vals, ~missing)
    if form.startswith("int") and form.endswith("pair"):
        vals = np.where(missing, 77, np.trunc(np.nan_to_num(a))).astype(np.int64)
        return (vals, ~missing)
    if form.startswith("int") and form.endswith("plain"):
        return np.where(missing, 5, np.trunc(np.nan_to_num(a))).astype(np.int64)
    raise ValueError(form)


def make_fact(form, N, idx):
    if form == "int":  # quick tier: one level alternating between the three integer forms
        form = ("int1pair", "int2pair", "int1plain")[idx % 3]
    # thorough tier: levels alternating between two and three fact columns
    form = {"nan23": ("nan2", "nan3"), "pair23": ("pair2", "pair3"), "intpair": ("int1pair", "int2pair", "int3pair")}.get(form, (form,))[idx % len(
        {"nan23": (0, 1), "pair23": (0, 1), "intpair": (0, 1, 2)}.get(form, (0,)))]
    return form, fact_from_grid(form, N, grid_tuple(GRID, N * form_K(form), idx), idx)


def weights_from_grid(form, N, g, idx):
    if form == "none":
        return None
    if form == "scalar0":
        return 0.0
    if form == "scalar2":
        return 2.0
    a = np.array(g, dtype=np.float64).reshape(N)
    if form in ("array", "arraynan"):
        return a
    missing = np.isnan(a)
    vals = a.copy()
    vals[missing] = (NaN, -1.0, 7.0)[idx % 3]
    return (vals, ~missing)


def make_weights(form, N, idx):
    if form == "array":  # one level alternating between arrays with zeros (no NaN) and NaN-marked arrays
        form = ("array", "arraynan")[(idx // 2) % 2]
    grid = WGRID_VALID if form == "array" else WGRID
    return form, weights_from_grid(form, N, grid_tuple(grid, N, idx // 3 + 1), idx)


def copy_var(x):
    if isinstance(x, tuple):
        return (x[0].copy(), x[1].copy())
    if x is None or np.ndim(x) == 0:
        return x
    return x.copy()


# ----------------------------------------------------------------------------- cubes


def dense_rows(N, extents):
    """every list of dense arrays with n <= N rows, dim d over range(extents[d])"""
    cells = list(itertools.product(*[range(e) for e in extents]))
    for n in range(N + 1):
        for rows in itertools.product(cells, repeat=n):
            yield [np.array([r[d] for r in rows], dtype=np.int64) for d in range(len(extents))]


def cube_specs(sc):
    """(family, dense arrays, commons, explicit shape | None, row count if no dims) for family A."""
    # zero dimensions
    for n in range(sc["N0"] + 1):
        yield ("A0", [], [], (), n)
    # one dimension: values < V, every common < V (absent ones included), explicit (V,) and inferred
    V, N1 = sc["A1"]
    for dense in dense_rows(N1, (V,)):
        for c in range(V):
            yield ("A1", dense, [c], (V,), None)
            yield ("A1", dense, [c], None, None)
    # two dimensions: data over `vals`, commons 0 .. vals[d] (the last one never occurs in the data), explicit
    # extents vals+1 (larger than the data) and inferred (quick: inferred for the commons 0 / absent only - the
    # array cube's inferred shape does not depend on the common value)
    done = set()
    for vals, N, which in sc["A2"]:
        ext = tuple(v + 1 for v in vals)
        per_dim = [range(e) if which == "all" else sorted({0, e - 2, e - 1}) for e in ext]
        for dense in dense_rows(N, vals):
            for cs in itertools.product(*per_dim):
                yield ("A2", dense, list(cs), ext, None)
                if sc["A2_inferred"] == "all" or all(c in (0, e - 1) for c, e in zip(cs, ext)):
                    yield ("A2", dense, list(cs), None, None)
    # three dimensions: explicit extents == value ranges, inferred for the two uniform common patterns
    for vals, N, which in sc["A3"]:
        for dense in dense_rows(N, vals):
            key = (vals, tuple(d.tobytes() for d in dense))
            if key in done:
                continue
            done.add(key)
            lo, hi = tuple(0 for v in vals), tuple(v - 1 for v in vals)
            alt = tuple(i % 2 for i in range(len(vals)))
            pats = list(itertools.product(*[range(v) for v in vals])) if which == "all" else [lo, hi, alt, tuple(1 - a for a in alt)]
            for cs in pats:
                yield ("A3", dense, list(cs), tuple(vals), None)
                if cs in (lo, hi):
                    yield ("A3", dense, list(cs), None, None)


class Stats:
    def __init__(self):
        self.calls = 0
        self.nontrivial = 0
        self.samples = []
        self.cubes = 0
        self.family = "?"

    def call(self, nontrivial, sample=None):
        self.calls += 1
        MON.calls["driver:family-" + self.family] += 1
        if nontrivial:
            self.nontrivial += 1
        if sample is not None and len(self.samples) < 4 and self.calls % 9973 == 1:
            self.samples.append(sample)


FAILED = object()


_noraise_seen = [0]


def _try(f):
    """Run a call that is under contract.  The wrapper records a raise as a failed `no-raise` clause; an
    exception that left no such record came from the checker's own code (a snapshot / description) and
    is reported as a checker error, never swallowed."""
    try:
        return f()
    except Exception as e:
        now = sum(v for k, v in MON.fail_counts.items() if k.endswith("/no-raise"))
        if now == _noraise_seen[0]:
            MON.check("checker.drive_agg/exception-outside-any-contract-clause", "%s: %s" % (type(e).__name__, str(e)[:300]), None,
                      {"case": CA.CASE_DESC}, None)
        _noraise_seen[0] = now
        return FAILED


def _try_plain(f):
    """Run a call that is not itself under contract (the cube constructors); the caller states the clause."""
    try:
        return f()
    except Exception:
        _noraise_seen[0] = sum(v for k, v in MON.fail_counts.items() if k.endswith("/no-raise"))
        return FAILED


def obs(res, kind):
    """(values float 1-D, missing bool 1-D | None) of a raw result, or None when malformed."""
    try:
        if kind.startswith("tuple"):
            v, k = np.asarray(res[0]), np.asarray(res[1])
            if k.dtype != np.bool_ or v.shape != k.shape:
                return None
            return v.astype(np.float64).reshape(-1), (~k).reshape(-1)
        v = np.asarray(res).astype(np.float64).reshape(-1)
        return v, (np.isnan(v) if kind == "nan" else None)
    except Exception:
        return None


class Cubes:
    """The two cube objects of one cube spec (built once, re-used across aggregates as the API allows)."""

    def __init__(self, fam, dense, commons, shape, N0, M):
        self.fam, self.dense, self.commons, self.shape = fam, dense, commons, shape
        self.N = N0 if N0 is not None else (int(dense[0].shape[0]) if dense else 0)
        self.M = M
        self.desc = {"dims": [{"dense": d.tolist(), "common": c} for d, c in zip(dense, commons)],
                     "interacting_shape": None if shape is None else list(shape), "N": self.N}
        self.cls = {"shape": "inferred" if shape is None else "explicit", "ndims": len(dense), "family": fam}
        self._x = {}
        self.cc = None
        vals_and_common = [max(d.tolist() + [c]) + 1 for d, c in zip(dense, commons)]
        self.c_ext = tuple(shape) if shape is not None else tuple(vals_and_common)
        self.x_ext = tuple(shape) if shape is not None else (tuple(max(d.tolist()) + 1 for d in dense) if self.N else None)

    def ccube(self):
        if self.cc is None:
            CA.CASE_CLS, CA.CASE_DESC = dict(self.cls, cube="ccube"), self.desc
            idx = [mk(d, c) for d, c in zip(self.dense, self.commons)]
            cube = _try_plain(lambda: self.M["ccube"](idx, self.shape) if self.shape is not None else self.M["ccube"](idx))
            MON.check("ccubes.ccube.__init__/no-raise", cube is not FAILED, "constructor raised", {"case": self.desc}, self.cls)
            if cube is not FAILED and self.shape is None:
                got = tuple(int(e) for e in cube.interacting_shape)
                MON.check("ccubes.ccube.__init__/ensures-inferred-extents-cover-values-and-common", got == self.c_ext,
                          lambda: "inferred %r, expected %r" % (got, self.c_ext), {"case": self.desc}, self.cls)
            self.cc = cube
        return self.cc

    def xcube(self, dt):
        if dt not in self._x:
            if self.x_ext is None:  # inferred shape needs at least one row (max of an empty sequence)
                self._x[dt] = None
                return None
            cls = dict(self.cls, cube="xcube", xdtype=dt)
            CA.CASE_CLS, CA.CASE_DESC = cls, dict(self.desc, xdtype=dt)

            def holding(d):
                # the requested dtype, widened (same signedness) until it holds every category of this dimension
                t = np.dtype(dt)
                while d.size and int(d.max()) > np.iinfo(t).max:
                    t = np.dtype("%s%d" % ("uint" if t.kind == "u" else "int", t.itemsize * 16))
                return t

            arrs = [d.astype(holding(d)) for d in self.dense]
            cube = _try_plain(lambda: self.M["xcube"](arrs, self.shape) if self.shape is not None else self.M["xcube"](arrs))
            MON.check("xcubes.xcube.__init__/no-raise", cube is not FAILED, "constructor raised", {"case": CA.CASE_DESC}, cls)
            if cube is not FAILED and self.shape is None:
                got = tuple(int(e) for e in cube.interacting_shape)
                MON.check("xcubes.xcube.__init__/ensures-inferred-extents-are-max-plus-one", got == self.x_ext,
                          lambda: "inferred %r, expected %r" % (got, self.x_ext), {"case": CA.CASE_DESC}, cls)
            self._x[dt] = None if cube is FAILED else cube
        return self._x[dt]


def run_case(cb, agg, fact, weights, ignore, xdt, st, formats=FORMATS, fact_form=None, weight_form=None):
    """One (cube, aggregate, fact, weights, policy): every report format on both cube types, then the
    relational clauses."""
    N = cb.N
    case = dict(cb.desc, agg=agg, arr=CA.enc_var(fact), weights=CA.enc_var(weights), ignore_missing=bool(ignore), xdtype=xdt,
                formats=[f for f, _ in formats])
    cls = dict(cb.cls, agg=agg, weights=CA.var_kind(weights), weight_form=weight_form, fact=CA.var_kind(fact), fact_form=fact_form,
               fact_ndim=0 if fact is None else int(np.ndim(fact[0] if isinstance(fact, tuple) else fact)),
               ignore_missing=bool(ignore), xdtype=xdt)
    outs = {}
    cubes = {"ccube": cb.ccube(), "xcube": cb.xcube(xdt)}
    for kind in ("ccube", "xcube"):
        cube = cubes[kind]
        if cube is None or cube is FAILED:
            continue
        for fname, fmt in formats:
            CA.CASE_CLS, CA.CASE_DESC = dict(cls, cube=kind, format=CA.fmt_kind(fmt)), case
            w = copy_var(weights)
            if agg == "count":
                needN = not cb.dense
                out = _try(lambda: cube.count(w, N if needN else None, ignore, fmt))
            else:
                f = copy_var(fact)
                out = _try(lambda: getattr(cube, agg)(f, w, ignore, fmt))
            st.call(N > 0, {"cube": kind, "case": case, "format": fname})
            if out is not FAILED:
                outs[kind, fname] = obs(out, fname)
    # ---- C03 "agree": the natural use hands the SAME caller-owned arrays to the array cube and then to the index cube
    #      (added after a seeded in-place write in xfunc_mean.__init__ made only the *later* call wrong)
    if agg != "count" and cubes["ccube"] not in (None, FAILED) and cubes["xcube"] not in (None, FAILED) and ("ccube", "nan") in outs:
        fs, ws = copy_var(fact), copy_var(weights)
        CA.CASE_CLS, CA.CASE_DESC = dict(cls, cube="shared", format="nan"), case
        first = _try(lambda: getattr(cubes["xcube"], agg)(fs, ws, ignore, NaN))
        second = _try(lambda: getattr(cubes["ccube"], agg)(fs, ws, ignore, NaN))
        if first is not FAILED and second is not FAILED:
            o2 = obs(second, "nan")
            ref = outs["ccube", "nan"]
            same = o2[0].shape == ref[0].shape and np.array_equal(o2[1], ref[1]) and bool(np.array_equal(o2[0][~ref[1]], ref[0][~ref[1]]))
            MON.check("cubes.%s/agree-when-both-cubes-are-given-the-same-caller-arrays" % agg, bool(same),
                      lambda: "ccube result after the array cube used the same arrays: %r missing %r; with private copies: %r missing %r" % (
                          o2[0].tolist(), o2[1].astype(int).tolist(), ref[0].tolist(), ref[1].astype(int).tolist()), {"case": case}, dict(cls, cube="shared"))
    CA.CASE_CLS, CA.CASE_DESC = cls, case
    shortcut = agg == "valid_count" and not ignore  # with the plain format: excluded by C04
    # ---- C04: the report formats describe the same missing set and identical values elsewhere
    for kind, mod in (("ccube", "ccubes"), ("xcube", "xcubes")):
        qual = "%s.%s.%s" % (mod, kind, agg)
        have = {f: outs.get((kind, f)) for f, _ in formats}
        if any(v is None for v in have.values()) or "nan" not in have or len(have) < 2:
            continue  # a raise / malformed result is already a failed clause of the call itself
        c2 = dict(cls, cube=kind)
        ref_v, ref_m = have["nan"]
        tup = [f for f in have if f.startswith("tuple")]
        if tup:
            same = all(np.array_equal(have[f][1], ref_m) for f in tup)
            MON.check(qual + "/formats-same-missing-set", same,
                      lambda: "missing cells: NaN format %r, %s" % (ref_m.astype(int).tolist(), ", ".join(
                          "%s %r" % (f, have[f][1].astype(int).tolist()) for f in tup)), {"case": case}, c2)
        others = [f for f in have if f != "nan" and not (f == "plain" and shortcut)]
        keep = ~ref_m
        for f in others:
            if have[f][1] is not None:
                keep = keep & ~have[f][1]
        # "identical values elsewhere": up to floating-point rounding (the tolerance of C03's quantifier, which C04 inherits:
        # "for all inputs as in C03"). With non-dyadic weights marginal differencing leaves residues of ~1e-16 that the
        # plain-replacement path rounds to 0 and the other formats do not; demanding bit-identity was a false alarm of this check.
        tol_f = S.tolerance(fact, weights, agg, N)
        with np.errstate(invalid="ignore"):
            ident = all(have[f][0].shape == ref_v.shape and bool(np.all(np.abs(have[f][0][keep] - ref_v[keep]) <= tol_f)) for f in others)
        if others:
            MON.check(qual + "/formats-identical-values-on-nonmissing-cells", ident,
                  lambda: "values: NaN format %r, %s" % (ref_v.tolist(), ", ".join("%s %r" % (f, have[f][0].tolist()) for f in others)), {"case": case}, c2)
        if "plain" in have and not shortcut:
            pz = bool(np.all(have["plain"][0][ref_m] == 0))
            MON.check(qual + "/formats-plain-zero-where-nan-format-is-missing", pz,
                      lambda: "plain-0 format %r, NaN format %r" % (have["plain"][0].tolist(), ref_v.tolist()), {"case": case}, c2)
    # ---- C03: the two cube types agree (stated directly; also a lemma of the two postconditions)
    if cubes["ccube"] not in (None, FAILED) and cubes["xcube"] not in (None, FAILED) and cb.c_ext == cb.x_ext:
        tol = S.tolerance(fact, weights, agg, N)
        for fname, _ in formats:
            a, b = outs.get(("ccube", fname)), outs.get(("xcube", fname))
            if a is None or b is None:
                continue
            c2 = dict(cls, format=fname)
            qual = "cubes.%s" % agg
            if a[0].shape != b[0].shape:
                MON.check(qual + "/agree-ccube-xcube-missing-cells", "results differ in size: %r vs %r" % (a[0].shape, b[0].shape), None, {"case": case}, c2)
                continue
            keep = np.ones(a[0].shape, dtype=bool)
            if a[1] is not None:
                MON.check(qual + "/agree-ccube-xcube-missing-cells", bool(np.array_equal(a[1], b[1])),
                          lambda: "missing cells: ccube %r, xcube %r" % (a[1].astype(int).tolist(), b[1].astype(int).tolist()), {"case": case}, c2)
                keep = ~a[1] & ~b[1]
            with np.errstate(invalid="ignore"):
                close = bool(np.all(np.abs(a[0][keep] - b[0][keep]) <= tol))
            MON.check(qual + "/agree-ccube-xcube-values", close, lambda: "values: ccube %r, xcube %r (tolerance %.3g)" % (a[0].tolist(), b[0].tolist(), tol),
                      {"case": case}, c2)


def memory_forms(arr):
    """The same values in other memory forms / container types (arr: C-contiguous float64, 1-D or 2-D)."""
    yield "python-list", arr.tolist()
    ro = arr.copy()
    ro.flags.writeable = False
    yield "read-only", ro
    if arr.ndim == 2:
        yield "fortran-ordered", np.asfortranarray(arr)
        wide = np.full((arr.shape[0], arr.shape[1] + 2), 77.0)
        wide[:, 1:-1] = arr
        yield "non-contiguous-view", wide[:, 1:-1]
    else:
        w2 = np.full(2 * len(arr), 77.0)
        w2[::2] = arr
        yield "strided-view", w2[::2]
    yield "negative-stride-view", np.ascontiguousarray(arr[::-1])[::-1]
    if not np.isnan(arr).any() and np.all(arr == np.round(arr)):
        yield "int32", arr.astype(np.int32)
        yield "float32", arr.astype(np.float32)


def check_forms(cb, st, jobno):
    """C03 quantifies over fact and weight ARRAYS: the same values handed over as a list, read-only, Fortran-ordered, as a
    strided / negative-stride view or in a narrower dtype must give the same cells on both cube types (reference: the
    C-contiguous float64 form, itself judged by the contracts), and must leave the caller's object as it was."""
    N = cb.N
    if N == 0:
        return
    base1 = np.array([(1.5, NaN, 2.0, 0.0, 4.25, NaN, 3.0)[(i + jobno) % 7] for i in range(N)])
    base2 = np.column_stack([base1, np.array([(2.0, 1.0, NaN, 5.0)[(i + jobno) % 4] for i in range(N)])])
    ints = np.array([float((3 * i + jobno) % 5) for i in range(N)])
    wts = np.array([(1.0, 0.7, 0.0, 2.0, 0.1)[(i + 2 * jobno) % 5] for i in range(N)])
    wbool = np.array([float((i + jobno) % 3 != 0) for i in range(N)])
    cubes = {"ccube": cb.ccube(), "xcube": cb.xcube("int64")}
    for kind, cube in cubes.items():
        if cube in (None, FAILED):
            continue
        for agg in FACT_AGGS:
            for pol in (False, True):
                for fact, weights in ((base1, None), (base2, wts), (ints, wts), (base1, wbool)):
                    ref = _try(lambda: getattr(cube, agg)(fact.copy(), None if weights is None else weights.copy(), pol, NaN))
                    if ref is FAILED:
                        continue
                    ro = obs(ref, "nan")
                    tol = S.tolerance(fact, weights, agg, N)
                    variants = [("fact", n, f, weights) for n, f in memory_forms(fact)]
                    if weights is not None:
                        variants += [("weights", n, fact, w) for n, w in memory_forms(weights)]
                        if set(np.unique(weights).tolist()) <= {0.0, 1.0}:
                            variants.append(("weights", "bool", fact, weights.astype(bool)))
                    for which, name, f, w in variants:
                        keep = (f, w)
                        before = (np.array(f, dtype=float).copy(), None if w is None else np.array(w, dtype=float).copy())
                        ex = {"case": dict(cb.desc, agg=agg, ignore_missing=pol, cube=kind, argument=which, form=name,
                                           arr=CA.enc_var(fact), weights=CA.enc_var(weights))}
                        cls = dict(cb.cls, cube=kind, agg=agg, argument=which, form=name)
                        out = _try(lambda: getattr(cube, agg)(f, w, pol, NaN))
                        ob = "%ss.%s.%s/same-cells-for-the-same-values-in-another-memory-form" % (kind, kind, agg)
                        if out is FAILED:
                            MON.check(ob, "raised for the %s given as %s" % (which, name), None, ex, cls)
                            continue
                        o = obs(out, "nan")
                        with np.errstate(invalid="ignore"):
                            same = o is not None and o[0].shape == ro[0].shape and bool(np.array_equal(o[1], ro[1])) and bool(np.all(np.abs(o[0][~ro[1]] - ro[0][~ro[1]]) <= tol))
                        MON.check(ob, bool(same), lambda: "%s as %s: %r ; as C-contiguous float64: %r" % (which, name, None if o is None else o[0].tolist(), ro[0].tolist()), ex, cls)
                        after = (np.array(keep[0], dtype=float), None if keep[1] is None else np.array(keep[1], dtype=float))
                        unchanged = np.array_equal(after[0], before[0], equal_nan=True) and (after[1] is None or np.array_equal(after[1], before[1], equal_nan=True))
                        MON.check(ob.replace("same-cells-for-the-same-values-in-another-memory-form", "caller-object-in-another-memory-form-unchanged"), bool(unchanged),
                                  lambda: "the %s given as %s changed" % (which, name), ex, cls)
                        st.call(True)


def do_cube_A(spec, sc, st, jobno):
    fam, dense, commons, shape, N0 = spec
    st.family = fam
    MON.calls["driver:cubes-" + fam] += 1
    cb = Cubes(fam, dense, commons, shape, N0, CA.install())
    N = cb.N
    fact_rows, count_rows = designs(sc)
    if fam == "M" and N > 100:
        # the 255/256/257-row cubes: a thinned design (every factor level still occurs) keeps the quick tier quick
        fact_rows, count_rows = fact_rows[::4], count_rows[::3]
    if fam == "M" and shape is not None and int(np.prod(shape)) > 65536 and not sc.get("thorough"):
        # cubes of more than 65536 cells cost seconds per call on the spec side: three design rows in the quick tier
        fact_rows, count_rows = fact_rows[::9][:2], count_rows[::5][:1]
    base = jobno * 131
    if (fam == "M" and 10 < N <= 50 and jobno % 3 == 0) or (fam != "M" and N == 3 and jobno % 41 == 0):
        check_forms(cb, st, jobno)
    if fam == "M" and N > 100:
        # cells of exactly 255 / 256 / 257 rows matter only when EVERY row of the cell counts: facts without a missing value,
        # one and two columns, unweighted and with all-positive weights, both policies - stated explicitly, not left to the
        # walk through the grids (a reordering of the jobs once moved the all-valid fact away from these cubes)
        full1 = np.arange(N, dtype=np.float64) + 0.5
        full2 = np.column_stack([full1, 2.0 * full1 + 1.0])
        wpos = 0.5 + (np.arange(N) % 7) * 0.25
        for fact, form in ((full1, "nan1"), (full2, "nan2"), ((full1.copy(), np.ones(N, dtype=bool)), "pair1")):
            for weights, wform in ((None, "none"), (wpos, "array")):
                for pol in (False, True):
                    for agg in FACT_AGGS:
                        run_case(cb, agg, fact, weights, pol, "int64", st, formats=FORMATS[:2], fact_form=form, weight_form=wform)
    for i, (fi, wi, pi, di, ri) in enumerate(fact_rows):
        idx = base + i
        form, fact = make_fact(sc["fact_forms"][fi], N, idx)
        wform, weights = make_weights(WEIGHT_FORMS[wi], N, idx)
        fmts = tuple(f for f in FORMATS if f[0] in sc["format_sets"][ri])
        for agg in FACT_AGGS:
            run_case(cb, agg, fact, weights, bool(pi), sc["xdtypes"][di], st, formats=fmts, fact_form=form, weight_form=wform)
    for i, (wi, pi, di, ri) in enumerate(count_rows):
        idx = base + 61 + i
        wform, weights = make_weights(WEIGHT_FORMS[wi], N, idx)
        fmts = tuple(f for f in FORMATS if f[0] in sc["format_sets"][ri])
        run_case(cb, "count", None, weights, bool(pi), sc["xdtypes"][di], st, formats=fmts, weight_form=wform)
    st.cubes += 1


B_WEIGHT_GRID = (0.0, 2.0, NaN)


def family_B(sc):
    """(dense, common, K, weight form): fact contents are enumerated exhaustively inside the job.
    One job per (cube, weight argument) keeps the shards balanced."""
    for K, NB in ((1, sc["BN"]), (2, sc["BN2"])):
        for dense in dense_rows(NB, (2,)):
            N = int(dense[0].shape[0])
            for c in sc["Bcommons"]:
                yield ("B", dense, [c], (3,), (K, "none", None, GRID))
                yield ("B", dense, [c], (3,), (K, "scalar2", 2.0, GRID))
                if N:
                    for g in itertools.product(B_WEIGHT_GRID, repeat=N):
                        yield ("B", dense, [c], (3,), (K, "arraynan", np.array(g, dtype=np.float64), sc["Bgrid_under_array_weights"]))


def do_cube_B(spec, sc, st, jobno):
    fam, dense, commons, shape, (K, wform, weights, grid) = spec
    st.family = fam
    MON.calls["driver:cubes-" + fam] += 1
    cb = Cubes(fam, dense, commons, shape, None, CA.install())
    N = cb.N
    fmts = (FORMATS[0],)
    for ignore in (False, True):
        run_case(cb, "count", None, weights, ignore, "int64", st, formats=fmts, weight_form=wform)
    for g in itertools.product(grid, repeat=N * K):
        fact = np.array(g, dtype=np.float64).reshape((N, K) if K > 1 else (N,))
        for ignore in (False, True):
            for agg in FACT_AGGS:
                run_case(cb, agg, fact, weights, ignore, "int64", st, formats=fmts, fact_form="nan%d" % K, weight_form=wform)
    st.cubes += 1


def medium_specs():
    """Medium-size cubes (11-48 rows, extents 4-8) with the same factor design: reaches code that only engages above a
    size threshold (bins() vs bincount switches, chunking, caches), which the exhaustive tiny scope cannot. Deterministic."""
    x = [20261004]

    def nxt(m):
        x[0] = (x[0] * 48271) % 2147483647
        return x[0] % m

    for lay in (((11, 4),), ((24, 5), (24, 4)), ((48, 8),), ((30, 3), (30, 4), (30, 2)), ((17, 6), (17, 2))):
        for variant in range(2):
            dense, commons, shape = [], [], []
            for (n, k) in lay:
                cells = [(0 if (variant and nxt(10) < 6) else nxt(k)) for _ in range(n)]
                dense.append(np.array(cells, dtype=np.int64))
                c = (0, k)[variant]  # a frequent common / a common that never occurs (extent k + 1)
                commons.append(c)
                shape.append(k + 1)
            yield ("M", dense, commons, tuple(shape), None)
    # a cell holding a long, nearly contiguous run of rows (one gap), and cells holding exactly 255 / 256 / 257 rows
    for run in ([1] * 16 + [0] + [1] * 17, [1] * 20 + [0] + [1] * 19 + [2, 2], [2] + [1] * 40):
        for c in (0, 3):
            yield ("M", [np.array(run, dtype=np.int64)], [c], (4,), None)
    for n in (255, 256, 257):
        yield ("M", [np.ones(n, dtype=np.int64)], [0], (2,), None)
        yield ("M", [np.array([1] * n + [0, 0], dtype=np.int64), np.array([0] * n + [1, 0], dtype=np.int64)], [0, 1], (2, 2), None)


def many_cell_specs(thorough=False):
    """Cubes with MANY cells although every extent is small: the flat cell number crosses 256 (16x17, 7x7x7, 5x5x5x5) or
    65536 (256x257, 41x41x41) while no single extent does - whatever is sized from one extent instead of the product
    (strides, cell-number dtypes, bin counts) shows only here.  Rows sit in the first cell, the last cell and the cells
    numbered just below / at / above the power of two."""
    for shape in ((16, 17), (7, 7, 7), (5, 5, 5, 5), (256, 257), (41, 41, 41), (300, 2)):
        size = int(np.prod(shape))
        if size > 65536 and not thorough and shape != (256, 257):
            continue
        numbers = sorted({0, 1, size - 1, size - 2, size // 2} | {n for n in (255, 256, 257, 65535, 65536, 65537) if n < size})
        coords = [np.unravel_index(n, shape) for n in numbers]
        rows = coords + coords[-2:] + coords[:1]  # some cells hold two rows
        dense = [np.array([int(c[d]) for c in rows], dtype=np.int64) for d in range(len(shape))]
        yield ("M", dense, [0] * len(shape), tuple(shape), None)
        if size <= 65536 or thorough:
            yield ("M", dense, [int(e) - 1 for e in shape], tuple(shape), None)


def big_cell_specs(thorough=False):
    """One cell holding 65537 rows (and a second cell of one row): counters of valid / missing rows that cross 65536."""
    n = 65537
    yield ("M", [np.array([1] * n + [0], dtype=np.int64)], [0], (2,), None)
    if thorough:
        yield ("M", [np.array([1] * n + [0], dtype=np.int64)], [1], (2,), None)


def do_big_cell(spec, sc, st, jobno):
    """Explicit fact patterns on the 65538-row cubes: every row valid; exactly 65536 missing rows and one valid row in the
    big cell; 65536 valid rows and one missing - unweighted and positively weighted, both policies, NaN and (0, False)."""
    fam, dense, commons, shape, N0 = spec
    st.family = fam
    MON.calls["driver:cubes-" + fam] += 1
    cb = Cubes(fam, dense, commons, shape, N0, CA.install())
    N = cb.N
    full = (np.arange(N, dtype=np.float64) % 11) + 0.5
    miss_many = full.copy()
    miss_many[:65536] = NaN           # the big cell: 65536 missing rows, then one valid row
    miss_one = full.copy()
    miss_one[65536] = NaN             # the big cell: 65536 valid rows and one missing
    wpos = 0.5 + (np.arange(N) % 7) * 0.25
    thorough = bool(sc.get("thorough"))
    plan = [(miss_many, "nan1", None, "none"), (full, "nan1", None, "none"), (miss_one, "nan1", wpos, "array")]
    if thorough:
        plan += [(miss_many, "nan1", wpos, "array"), (full, "nan1", wpos, "array"), (miss_one, "nan1", None, "none"), ((full.copy(), ~np.isnan(miss_many)), "pair1", None, "none")]
    for fact, form, weights, wform in plan:
        for pol in (False, True):
            for agg in FACT_AGGS:
                run_case(cb, agg, fact, weights, pol, "int64", st, formats=FORMATS[:1] if not thorough else FORMATS[:2], fact_form=form, weight_form=wform)
    if thorough:
        wm = wpos.copy()
        wm[:65536] = NaN
        for pol in (False, True):
            run_case(cb, "count", None, wm, pol, "int64", st, formats=FORMATS[:2], weight_form="arraynan")


def check_object_reuse(st):
    """An aggregate object that does not carry per-row arrays (a count, unweighted or with a scalar weight) may be handed to
    calculate() of several cubes: on a cube of ANOTHER row count it must give what a fresh object gives."""
    from catii import ccube, xcube, ffuncs, xfuncs

    cases = []
    for n1, n2 in ((8, 2), (3, 8), (5, 5)):
        d1 = np.array([(i * 2) % 3 for i in range(n1)], dtype=np.int64)
        d2 = np.array([1 + (i % 2) for i in range(n2)], dtype=np.int64)  # category 0 (the common value) has no row
        cases.append((d1, d2))
    for d1, d2 in cases:
        for kind in ("ccube", "xcube"):
            for wname, wt in (("none", None), ("scalar", 2.0)):
                for fmt_name, fmt in FORMATS[:3] + (("plain", 0),):
                    for pol in (False, True):
                        def mkcube(d):
                            return ccube([mk(d, 0)], (3,)) if kind == "ccube" else xcube([d.copy()], (3,))

                        def mkf():
                            mod = ffuncs.ffunc_count if kind == "ccube" else xfuncs.xfunc_count
                            return mod(wt, ignore_missing=pol, return_missing_as=fmt) if wt is not None else mod(ignore_missing=pol, return_missing_as=fmt)
                        ex = {"case": {"cube": kind, "first": d1.tolist(), "then": d2.tolist(), "common": 0, "interacting_shape": [3], "weights": wname,
                                       "ignore_missing": pol, "return_missing_as": fmt_name}}
                        cls = {"cube": kind, "weights": wname, "format": fmt_name, "family": "object-reuse"}
                        ob = "%ss.%s.calculate/missing-rule-and-values-unchanged-when-the-aggregate-object-was-used-on-another-cube-before" % (kind, kind)
                        try:
                            f = mkf()
                            mkcube(d1).calculate([f])
                            got = mkcube(d2).calculate([f])[0]
                            want = mkcube(d2).calculate([mkf()])[0]
                        except Exception as e:  # noqa
                            MON.check(ob, "raised %s: %s" % (type(e).__name__, e), None, ex, cls)
                            continue
                        a, b = obs(got, fmt_name if fmt_name != "plain" else "plain"), obs(want, fmt_name if fmt_name != "plain" else "plain")
                        same = a is not None and b is not None and a[0].shape == b[0].shape and np.array_equal(a[0], b[0], equal_nan=True) and (
                            (a[1] is None and b[1] is None) or np.array_equal(a[1], b[1]))
                        MON.check(ob, bool(same), lambda: "re-used object: %r ; fresh object: %r" % (None if a is None else [x.tolist() if x is not None else None for x in a],
                                                                                                    None if b is None else [x.tolist() if x is not None else None for x in b]), ex, cls)
                        st.call(True)


def jobs(sc):
    # (new families are appended at the END: the job number seeds the fact / weight patterns of every earlier job)
    for spec in cube_specs(sc):
        yield do_cube_A, spec
    for spec in medium_specs():
        yield do_cube_A, spec
    for spec in many_cell_specs(sc.get("thorough", False)):
        yield do_cube_A, spec
    for spec in family_B(sc):
        yield do_cube_B, spec
    for spec in big_cell_specs(sc.get("thorough", False)):
        yield do_big_cell, spec


def work(args):
    """One shard. args = (tier, shard, nshards)."""
    tier, shard, nshards = args[:3]
    from .. import env

    env.import_catii()
    CA.install()
    sc = scopes(tier)
    st = Stats()
    j = 0
    for fn, spec in jobs(sc):
        if j % nshards == shard:
            fn(spec, sc, st, j)
        j += 1
    if shard == 3 % nshards:
        check_object_reuse(st)
    CA.materialize()
    out = MON.dump()
    out.update(driver_calls=st.calls, nontrivial=st.nontrivial, samples=st.samples, jobs=j, cubes=st.cubes)
    return out


# ----------------------------------------------------------------------------- replay


def replay_input(inp):
    """Re-run a recorded failing input under the same contracts (see props/c03.replay)."""
    M = CA.install()
    if "call" in inp:
        c = inp["call"]
        shape = None if c["interacting_shape"] is None else tuple(c["interacting_shape"])
        if c["cube"] == "ccube":
            dims = [mk(np.array(d["dense"], dtype=np.int64), d["common"]) for d in c["dims"]]
        else:
            dims = [np.array(d["dense"], dtype=d.get("dtype", "int64")) for d in c["dims"]]
        CA.CASE_CLS = {"shape": "inferred" if shape is None else "explicit"}
        try:
            cube = M[c["cube"]](dims, shape) if shape is not None else M[c["cube"]](dims)
            fmt = CA.dec_fmt(c["return_missing_as"])
            if c["agg"] == "count":
                cube.count(CA.dec_var(c["weights"]), c.get("N"), c["ignore_missing"], fmt)
            else:
                getattr(cube, c["agg"])(CA.dec_var(c["arr"]), CA.dec_var(c["weights"]), c["ignore_missing"], fmt)
        except Exception as e:  # noqa
            print("call raised %s: %s" % (type(e).__name__, e))
        return
    c = inp["case"]
    dense = [np.array(d["dense"], dtype=np.int64) for d in c["dims"]]
    commons = [d["common"] for d in c["dims"]]
    shape = None if c["interacting_shape"] is None else tuple(c["interacting_shape"])
    cb = Cubes("replay", dense, commons, shape, c["N"], M)
    fmts = tuple(f for f in FORMATS if f[0] in c.get("formats", [f[0] for f in FORMATS]))
    if "agg" not in c:
        cb.ccube()
        cb.xcube(c.get("xdtype", "int64"))
        return
    run_case(cb, c["agg"], CA.dec_var(c["arr"]), CA.dec_var(c["weights"]), c["ignore_missing"], c.get("xdtype", "int64"), Stats(), formats=fmts)
