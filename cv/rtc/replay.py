"""./check <id> --replay <file> for engine-C violations: re-run the recorded call under the same contract."""
import json

import numpy as np

from .. import core, env
from .contract import MON


def _unj(x):
    if isinstance(x, dict):
        if "iindex" in x:
            from .speclib import from_description

            return from_description(x["iindex"])
        if "ndarray" in x:
            return np.array(x["ndarray"], dtype=x.get("dtype"))
        if "dict" in x:
            return {_key(_unj(k)): _unj(v) for k, v in x["dict"]}
        if "dense" in x and "common" in x:
            from .speclib import from_description

            return from_description(x)
        return {k: _unj(v) for k, v in x.items()}
    if isinstance(x, list):
        return [_unj(v) for v in x]
    return x


def _key(k):
    return tuple(k) if isinstance(k, list) else k


def replay_iindex(path):
    rec = json.load(open(path))
    env.import_catii()
    from . import contracts_iindex

    M = contracts_iindex.install()
    ob = rec["obligation"]
    target = ob.split("/")[0]
    inp = rec["input"] or {}
    op = target.rsplit(".", 1)[-1]
    try:
        if target == "iindexes.column_stack":
            M.column_stack([_unj(d) for d in inp["inputs"]], new_common=inp.get("new_common"), copy=inp.get("copy", False))
        elif "self" in inp and "other" in inp:
            getattr(_unj(inp["self"]), op)(_unj(inp["other"]))
        elif "self" in inp and "entries" in inp:
            ent = {tuple(int(t) for t in k.strip("()").split(",") if t.strip()): np.array(v, dtype=np.uint32) for k, v in inp["entries"].items()}
            getattr(_unj(inp["self"]), op)(ent)
        elif "self" in inp:
            args = [_unj(a) for a in inp.get("args", [])]
            kwargs = {k: _unj(v) for k, v in inp.get("kwargs", {}).items()}
            if op == "filtered":
                args[0] = np.array(args[0], dtype=bool)
            getattr(_unj(inp["self"]), op)(*args, **kwargs)
        else:
            print("this replay file records a driver-level clause; re-run the check itself: ./check %s" % rec["property"])
            return core.EXIT_UNDECIDED
    except Exception as e:  # noqa
        print("call raised %s: %s" % (type(e).__name__, e))
    bad = [f for f in MON.failures if f.obligation == ob]
    for f in MON.failures:
        print("FAILED %s: %s" % (f.obligation, f.what))
    if bad:
        print("VIOLATION property=%s replay=%s" % (rec["property"], path))
        return core.EXIT_VIOLATION
    print("clause %s holds on the recorded input" % ob)
    return core.EXIT_OK
