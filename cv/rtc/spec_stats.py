"""Spec layer for C18: per-cell textbook statistics (pure NumPy, independent of catii).

Everything here reads the *raw* arguments of a cube call (dimension arrays, fact, weights) and
computes, for every output cell, the statistic "directly over the rows that fall in that cell":

    rows(c)       the rows whose dimension values are the cell's coordinates
    valid         per row and fact column: fact not missing and weight not missing
    missing(c)    C04's rule: rows(c) empty, or (ignoring ? no valid row : some row not valid);
                  standard deviation additionally: fewer than two valid rows;
                  matrix entry (a, b): fewer than two usable rows, or (propagating) a missing row in a or b
    stddev        unweighted: sqrt(sum (x - mean)^2 / (n - 1));
                  weighted:   sqrt(sum w (x - mu_w)^2 / sum w  *  n / (n - 1)),  n = number of valid rows
    quantile      numpy.quantile (linear interpolation) of the valid rows
    min / max     of the valid rows, in the fact's own dtype (float, int, datetime64)
    covariance    numpy.cov of the two columns over the usable rows (aweights when weighted)
    corrcoef      that covariance / the two sample standard deviations

Every function returns three arrays of the output shape: V (values), M (missing), C (compared).
C is False exactly where the textbook statistic is mathematically undefined although the cell is
not missing by the rule (weights of the valid rows sum to zero; a correlation with a constant
column; a weighted covariance whose effective degrees of freedom are <= 0): such entries are
not compared, as the property says.

For the weighted quantile (judged by three laws only) `wquantile` returns M, the [lo, hi] bounds
of the cell's valid values, C, and Z (ZR): the input class "probability 1 and zero weight on the row
that sorts last among the valid rows" (see `last_sorted_valid_row_has_zero_weight`).
"""
import itertools
import warnings

import numpy as np

NaN = float("nan")


# ----------------------------------------------------------------------------- reading the inputs


def split(arr):
    """(values, validity) of a NaN/NaT-marked array or of a (values, validity) pair."""
    if isinstance(arr, tuple):
        v, ok = arr
        return np.asarray(v), np.asarray(ok).astype(bool)
    v = np.asarray(arr)
    if v.dtype.kind in "mM":
        ok = ~np.isnat(v)
    elif v.dtype.kind in "fc":
        ok = ~np.isnan(v)
    else:
        ok = np.ones(v.shape, dtype=bool)
    return v, ok


def nrows_of(fact):
    return int(split(fact)[0].shape[0])


def combined_validity(fact, weights):
    """valid[r(, k)] = fact valid and weight valid; plus the weight values (None when unweighted)."""
    x, fv = split(fact)
    if weights is None:
        return x, fv, None, None
    w, wv = split(weights)
    w = np.asarray(w, dtype=float)
    ok = (fv.T & wv).T
    return x, ok, w, wv


# ----------------------------------------------------------------------------- rows of a cell


def cells_of_dims(dims, interacting_shape, nrows):
    """(output shape without fact axes, [(output index, row ids)]) of an array cube.

    Extra axes of a dimension are outermost, in dimension order (C13); zero dimensions give the
    single cell (0,) that holds every row (the array cube wraps it as shape (1,))."""
    dims = [np.asarray(d) for d in dims]
    if not dims:
        return (1,), [((0,), np.arange(nrows))]
    extents = tuple(int(e) for e in interacting_shape)
    scaffold = [list(itertools.product(*[range(e) for e in d.shape[1:]])) for d in dims]
    shape = tuple(int(e) for d in dims for e in d.shape[1:]) + extents
    out = []
    for sc in itertools.product(*scaffold):
        cols = [d[(slice(None),) + c] for d, c in zip(dims, sc)]
        head = tuple(x for c in sc for x in c)
        for cat in itertools.product(*[range(e) for e in extents]):
            m = np.ones(nrows, dtype=bool)
            for col, c in zip(cols, cat):
                m &= col == c
            out.append((head + cat, np.nonzero(m)[0]))
    return shape, out


def cells_of_coordinates(coordinates, size, nrows):
    """The same for the flattened cell numbers a fill method receives (None: one cell, every row)."""
    if coordinates is None:
        return (1,), [((0,), np.arange(nrows))]
    co = np.asarray(coordinates)
    return (int(size),), [((b,), np.nonzero(co == b)[0]) for b in range(int(size))]


# ----------------------------------------------------------------------------- per-cell kernels


def rule_missing(ok, ignore):
    """C04's rule on the validity flags of one cell's rows (one fact column)."""
    if len(ok) == 0:
        return True
    return (not ok.any()) if ignore else (not ok.all())


def sd_cell(x, ok, w, ignore):
    """(value, missing, compared) of the sample standard deviation of one cell / column."""
    nv = int(ok.sum())
    if rule_missing(ok, ignore) or nv < 2:
        return NaN, True, True
    xv = np.asarray(x[ok], dtype=float)
    if w is None:
        mu = xv.sum() / nv
        return float(np.sqrt(((xv - mu) ** 2).sum() / (nv - 1))), False, True
    wv = w[ok]
    sw = wv.sum()
    if not sw > 0:
        return NaN, False, False  # 0/0: reliability-weighted variance undefined
    mu = (wv * xv).sum() / sw
    var = (wv * (xv - mu) ** 2).sum() / sw
    return float(np.sqrt(var * nv / (nv - 1.0))), False, True


def quantile_cell(x, ok, p, ignore):
    if rule_missing(ok, ignore):
        return NaN, True, True
    return float(np.quantile(np.asarray(x[ok], dtype=float), p)), False, True


def last_sorted_valid_row_has_zero_weight(x, ok, w):
    """Input class of the weighted-quantile 0/0 defect, computed from the input alone: sort the
    cell's column (missing rows as NaN, which sort last) with numpy's default argsort - the
    permutation is a function of the input array only -, drop the rows that are not valid; is the
    weight of the last remaining row zero?"""
    if not ok.any():
        return False
    a = np.where(ok, np.asarray(x, dtype=float), NaN)
    ind = a.argsort()
    ind = ind[ok[ind]]
    return bool(w[ind[-1]] == 0)


def minmax_cell(x, ok, ignore, op):
    if rule_missing(ok, ignore):
        return None, True, True
    return op(x[ok]), False, True


def matrix_cell(X, OK, w, ignore, corr):
    """(K,K) value / missing / compared of one cell: covariance or correlation matrix."""
    K = X.shape[1]
    V = np.full((K, K), NaN)
    M = np.zeros((K, K), dtype=bool)
    C = np.ones((K, K), dtype=bool)
    if ignore:
        keep = OK.all(axis=1)
        X, OK = X[keep], OK[keep]
        w = None if w is None else w[keep]
    n = X.shape[0]
    for a in range(K):
        for b in range(K):
            if n < 2 or not (OK[:, a].all() and OK[:, b].all()):
                M[a, b] = True
                continue
            xa, xb = np.asarray(X[:, a], dtype=float), np.asarray(X[:, b], dtype=float)
            try:
                with warnings.catch_warnings(), np.errstate(all="ignore"):
                    warnings.simplefilter("ignore")
                    c = np.cov(np.vstack([xa, xb]), aweights=w)[0, 1]
            except ZeroDivisionError:  # numpy refuses weights that sum to zero
                c = NaN
            if not np.isfinite(c):
                C[a, b] = False  # zero weight mass / no degree of freedom left: undefined
                continue
            if corr:
                if np.ptp(xa) == 0 or np.ptp(xb) == 0:
                    C[a, b] = False  # zero-variance column: undefined, not compared
                    continue
                c = c / (np.std(xa, ddof=1) * np.std(xb, ddof=1))
            V[a, b] = c
    return V, M, C


# ----------------------------------------------------------------------------- whole-cube expectations


def scale_of(fact):
    x, ok = split(fact)
    if x.dtype.kind not in "fiu" or not ok.any():
        return 1.0
    return float(max(1.0, np.abs(np.asarray(x[ok], dtype=float)).max()))


def tolerance(stat, fact):
    s = scale_of(fact)
    if stat == "covariance":
        s = s * s
    elif stat == "corrcoef":
        s = 1.0
    return 1e-9 * max(1.0, s)


def expected(stat, shape, cells, fact, weights=None, ignore=False, p=None):
    """V, M, C of shape `shape + fact axes` for stat in stddev | quantile (unweighted) | min | max |
    covariance | corrcoef."""
    x, ok, w, _ = combined_validity(fact, weights)
    if stat in ("covariance", "corrcoef"):
        K = x.shape[1]
        V = np.full(shape + (K, K), NaN)
        M = np.zeros(shape + (K, K), dtype=bool)
        C = np.ones(shape + (K, K), dtype=bool)
        for idx, rows in cells:
            V[idx], M[idx], C[idx] = matrix_cell(x[rows], ok[rows], None if w is None else w[rows], ignore, stat == "corrcoef")
        return V, M, C
    tail = x.shape[1:]
    if stat in ("min", "max"):
        op = np.min if stat == "min" else np.max
        V = np.zeros(shape, dtype=x.dtype)
        M = np.zeros(shape, dtype=bool)
        for idx, rows in cells:
            v, M[idx], _ = minmax_cell(x[rows], ok[rows], ignore, op)
            if v is not None:
                V[idx] = v
        return V, M, np.ones(shape, dtype=bool)
    V = np.full(shape + tail, NaN)
    M = np.zeros(shape + tail, dtype=bool)
    C = np.ones(shape + tail, dtype=bool)
    cols = [()] if not tail else [(k,) for k in range(tail[0])]
    for idx, rows in cells:
        for k in cols:
            xc = x[(rows,) + k]
            okc = ok[(rows,) + k]
            if stat == "stddev":
                r = sd_cell(xc, okc, None if w is None else w[rows], ignore)
            elif stat == "quantile":
                r = quantile_cell(xc, okc, p, ignore)
            else:
                raise ValueError(stat)
            V[idx + k], M[idx + k], C[idx + k] = r
    return V, M, C


def wquantile(shape, cells, fact, weights, ignore, p):
    """Weighted quantile, judged by its three laws only: M (missing rule), LO/HI (min and max of
    the cell's valid values), C (False when the valid weights sum to zero: no weight mass, the
    quantile is undefined), Z (input class: p == 1, positive weight mass, zero weight on the last
    sorted valid row) and ZR (the same without the condition on p)."""
    x, ok, w, _ = combined_validity(fact, weights)
    tail = x.shape[1:]
    M = np.zeros(shape + tail, dtype=bool)
    C = np.ones(shape + tail, dtype=bool)
    ZR = np.zeros(shape + tail, dtype=bool)
    LO = np.full(shape + tail, NaN)
    HI = np.full(shape + tail, NaN)
    cols = [()] if not tail else [(k,) for k in range(tail[0])]
    for idx, rows in cells:
        for k in cols:
            xc = np.asarray(x[(rows,) + k], dtype=float)
            okc = ok[(rows,) + k]
            wc = w[rows]
            if rule_missing(okc, ignore):
                M[idx + k] = True
                continue
            LO[idx + k], HI[idx + k] = xc[okc].min(), xc[okc].max()
            if not wc[okc].sum() > 0:
                C[idx + k] = False
                continue
            ZR[idx + k] = last_sorted_valid_row_has_zero_weight(xc, okc, wc)
    return M, LO, HI, C, (ZR if p == 1 else np.zeros_like(ZR)), ZR


def has_zero_mass_cell(cells, fact, weights, ignore):
    """Input class of a weighted matrix call: some cell has at least one usable row (complete rows
    when ignoring, all rows otherwise) and the weights of its usable rows sum to exactly zero - the
    weighted covariance of that cell is undefined (0/0)."""
    if weights is None:
        return False
    x, ok, w, wv = combined_validity(fact, weights)
    wn = np.where(wv, w, NaN)
    for _, rows in cells:
        if ignore:
            rows = rows[ok[rows].all(axis=1)] if ok.ndim > 1 else rows[ok[rows]]
        if len(rows) and wn[rows].sum() == 0:
            return True
    return False


def cell_class(rows, fact, weights, col=None):
    """Classification attributes of one cell (for known-finding matching), from the input alone."""
    x, ok, w, wv = combined_validity(fact, weights)
    okc = ok[rows] if (ok.ndim == 1 or col is None) else ok[rows, col]
    nvalid = int(okc.sum()) if okc.ndim == 1 else int(okc.all(axis=1).sum())
    out = {"cell_valid_rows_max2": min(nvalid, 2), "cell_has_missing_row": bool((~okc).any())}
    if w is not None:
        sel = okc if okc.ndim == 1 else okc.all(axis=1)
        wc = w[rows]
        out["cell_valid_weight_sum_zero"] = bool(not wc[sel].sum() > 0)
    return out
