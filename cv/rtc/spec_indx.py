"""Independent INDX encoder / decoder written from the format description (class docstring of
IndxIO) - the spec function `Layout` rendered to bytes.  Uses only `struct`; shares no code with
catii.  All integers unsigned little-endian:

    "INDX" "0001" | Q payload size | B index dimensions | L index length | B index word size W |
    W common | n*d words of W bytes (row-major keys) | B rowid word size R | n words of R bytes (lengths) |
    sum(lengths) words of R bytes (row ids, entry after entry)
"""
import struct

CODE = {1: "B", 2: "H", 4: "L", 8: "Q"}


def narrowest(v):
    for w in (1, 2, 4, 8):
        if v < 2 ** (8 * w):
            return w
    raise ValueError("value does not fit 8 bytes")


def encode(entries, common, W=None, R=4, dims=None):
    """entries: list of (key tuple, list of row ids) in file order."""
    keys = [k for k, _ in entries]
    n = len(keys)
    d = (len(keys[0]) if n else 0) if dims is None else dims
    mx = max([common] + [c for k in keys for c in k])
    if W is None:
        W = narrowest(mx)
    payload = b""
    payload += struct.pack("<B", d)
    payload += struct.pack("<L", n)
    payload += struct.pack("<B", W)
    payload += struct.pack("<" + CODE[W], common)
    for k in keys:
        for c in k:
            payload += struct.pack("<" + CODE[W], c)
    payload += struct.pack("<B", R)
    for _, rows in entries:
        payload += struct.pack("<" + CODE[R], len(rows))
    for _, rows in entries:
        for r in rows:
            payload += struct.pack("<" + CODE[R], r)
    return b"INDX" + b"0001" + struct.pack("<Q", len(payload)) + payload


def decode(data):
    """Independent decoder: returns (entries list [(key, rows)], common, W, R). Raises on malformed input."""
    if data[:4] != b"INDX" or data[4:8] != b"0001":
        raise ValueError("bad magic/version")
    (size,) = struct.unpack("<Q", data[8:16])
    if len(data) != 16 + size:
        raise ValueError("size field %d does not match payload %d" % (size, len(data) - 16))
    off = 16
    (d,) = struct.unpack_from("<B", data, off)
    off += 1
    (n,) = struct.unpack_from("<L", data, off)
    off += 4
    (W,) = struct.unpack_from("<B", data, off)
    off += 1
    (common,) = struct.unpack_from("<" + CODE[W], data, off)
    off += W
    keys = []
    for _ in range(n):
        keys.append(tuple(struct.unpack_from("<" + CODE[W], data, off + j * W)[0] for j in range(d)))
        off += d * W
    (R,) = struct.unpack_from("<B", data, off)
    off += 1
    lens = []
    for _ in range(n):
        lens.append(struct.unpack_from("<" + CODE[R], data, off)[0])
        off += R
    ent = []
    for k, ln in zip(keys, lens):
        rows = [struct.unpack_from("<" + CODE[R], data, off + j * R)[0] for j in range(ln)]
        off += ln * R
        ent.append((k, rows))
    if off != len(data):
        raise ValueError("trailing bytes")
    return ent, common, W, R
