"""Spec layer for count cubes and the cube walk (C02 / C14; DESIGN §4.1, Appendix C).

Everything here is computed by brute force from *dense views* (plain NumPy integer arrays of shape
(N,), (N,C) or (N,C,D): the category of every row, per extra-axis coordinate) and plain Python
integers.  Nothing in this module imports or calls catii: the contracts hand in
`speclib.view(index)` (formed through dict primitives only) and compare what the real functions
did with what is computed here.

Vocabulary
    dimension d        a dense view `views[d]` and its common value `commons[d]`
    slice              the 1-D array views[d][:, *hi] for one extra-axis coordinate hi
    scaffold           the extra axes of all dimensions, in dimension order (outermost axes of a cube)
    coordinates c      one entry per dimension: a category, or MARGIN (-1) = "any category"
    rows(c)            the rows r with slice_d[r] == c_d for every non-marginal c_d
    U_d                the categories of slice d that occur in it and differ from commons[d]
                       (exactly the values an index lists; the common one is never listed)
    extent E_d         number of categories of dimension d in the cube (interacting_shape[d])
    working table      shape scaffold + (E_d + 1): index E_d (== -1) on an axis is the margin "any"
"""
import itertools

import numpy as np

MARGIN = -1


# ----------------------------------------------------------------------------- rows and the walk


def as_lists(slices):
    """1-D slices as plain lists of Python ints (the brute force below is a loop over rows)."""
    return [s if type(s) is list else _tolist(s) for s in slices]


def _tolist(s):
    s = np.asarray(s)
    if s.ndim != 1:
        raise ValueError("rows(c) is defined over 1-D slices, got shape %r" % (s.shape,))
    return s.tolist()


def nrows(slices, default=None):
    return len(slices[0]) if len(slices) else default


def rows(slices, c):
    """Row ids (increasing, tuple of int) whose category on every dimension equals the
    coordinate, a MARGIN coordinate matching every row."""
    slices = as_lists(slices)
    assert len(slices) == len(c)
    n = nrows(slices, 0)
    return tuple(r for r in range(n) if all(cd == MARGIN or s[r] == cd for s, cd in zip(slices, c)))


def uncommon(slice1d, common):
    """U_d: sorted categories present in the slice other than the common value."""
    return sorted(set(slice1d if type(slice1d) is list else np.asarray(slice1d).reshape(-1).tolist()) - {common})


def expected_trace(slices, commons, base_coords=(), base_rows=None):
    """What a walk over `slices` must deliver, as a dict {coordinates: rows}:

        {(base_coords + c, base ∩ rows(c)) : c in prod_d(U_d ∪ {MARGIN}), intersection non-empty}

    minus the entirely marginal combination when there is no running intersection
    (base_rows None: every row, and every earlier coordinate is marginal too).  With a running
    intersection `base_rows` (the rows matching base_coords on the earlier dimensions) the
    all-marginal tail is delivered with the running intersection itself."""
    sl = as_lists(slices)
    base = None if base_rows is None else set(int(r) for r in base_rows)
    out = {}
    per_dim = [uncommon(s, k) + [MARGIN] for s, k in zip(sl, commons)]
    for c in itertools.product(*per_dim):
        if base is None and all(x == MARGIN for x in c):
            continue
        r = rows(sl, c)
        if base is not None:
            r = tuple(x for x in r if x in base)
        if r:
            out[tuple(base_coords) + c] = r
    return out


# ----------------------------------------------------------------------------- scaffold


def scaffold_shape(views):
    return tuple(int(e) for v in views for e in np.asarray(v).shape[1:])


def scaffold_cells(views):
    """Yield (scaffold coordinates, [1-D slice of every dimension at those coordinates]).
    The scaffold coordinates are the extra-axis coordinates of the dimensions, concatenated in
    dimension order."""
    views = [np.asarray(v) for v in views]
    per_dim = [list(itertools.product(*[range(e) for e in v.shape[1:]])) for v in views]
    for combo in itertools.product(*per_dim):
        coords = tuple(x for hi in combo for x in hi)
        yield coords, [v[(slice(None),) + hi] for v, hi in zip(views, combo)]


# ----------------------------------------------------------------------------- count tables


def shape_admits(views, commons, interacting_shape):
    """The code's precondition on a cube shape: categories and common values are non-negative
    and every extent exceeds every category of its dimension and its common value."""
    if len(interacting_shape) != len(views):
        return False
    for v, k, e in zip(views, commons, interacting_shape):
        v = np.asarray(v)
        lo = min([k] + ([int(v.min())] if v.size else []))
        hi = max([k] + ([int(v.max())] if v.size else []))
        if lo < 0 or hi >= e:
            return False
    return True


def count_table(views, interacting_shape):
    """Brute-force contingency table, shape scaffold + interacting_shape (int64): cell
    (scaffold coords, c) = number of rows whose category on every dimension's slice equals c_d."""
    ish = tuple(int(e) for e in interacting_shape)
    out = np.zeros(scaffold_shape(views) + ish, dtype=np.int64)
    for sc, slices in scaffold_cells(views):
        sl = as_lists(slices)
        for r in range(nrows(sl, 0)):
            out[sc + tuple(s[r] for s in sl)] += 1
    return out


def working_table(views, interacting_shape, n_if_no_dims=None):
    """Brute-force table including margins, shape scaffold + (E_d + 1): a coordinate E_d counts
    the rows of any category on that dimension; the corner (all margins) is the number of rows."""
    ish = tuple(int(e) for e in interacting_shape)
    out = np.zeros(scaffold_shape(views) + tuple(e + 1 for e in ish), dtype=np.int64)
    nd = len(views)
    if nd == 0:
        out[()] = 0 if n_if_no_dims is None else n_if_no_dims
        return out
    patterns = list(itertools.product((False, True), repeat=nd))
    for sc, slices in scaffold_cells(views):
        sl = as_lists(slices)
        for r in range(nrows(sl, 0)):
            cell = [s[r] for s in sl]
            for pat in patterns:
                out[sc + tuple(e if m else x for x, m, e in zip(cell, pat, ish))] += 1
    return out


def before_differencing(views, commons, interacting_shape, n_if_no_dims=None):
    """The working table as the walk + fill leave it: the brute-force count at every cell whose
    coordinates are all uncommon-or-margin, 0 at every cell with a coordinate equal to that
    dimension's common value (those are never visited)."""
    out = working_table(views, interacting_shape, n_if_no_dims)
    ns = len(scaffold_shape(views))
    for a, k in enumerate(commons):
        out[(slice(None),) * (ns + a) + (k,)] = 0
    return out


def has_margin_coordinate_mask(views, interacting_shape):
    """Boolean mask over the working table: cells with at least one marginal coordinate."""
    ish = tuple(int(e) for e in interacting_shape)
    ns = len(scaffold_shape(views))
    m = np.zeros(scaffold_shape(views) + tuple(e + 1 for e in ish), dtype=bool)
    for a in range(len(ish)):
        m[(slice(None),) * (ns + a) + (ish[a],)] = True
    return m


# ----------------------------------------------------------------------------- report formats


def report_kind(return_missing_as):
    if isinstance(return_missing_as, tuple):
        return "pair"
    if isinstance(return_missing_as, float) and return_missing_as != return_missing_as:
        return "nan"
    return "plain"


def brief(a, limit=64):
    a = np.asarray(a)
    return repr(a.tolist()) if a.size <= limit else "<array shape %r, %d non-zero>" % (a.shape, int(np.count_nonzero(a)))


def first_differences(got, exp, limit=4):
    """'cell (..): got x, required y' for the first few differing cells (NaN equal to NaN)."""
    got, exp = np.asarray(got), np.asarray(exp)
    if got.shape != exp.shape:
        return "shape %r, required %r" % (got.shape, exp.shape)
    g, e = got.astype(float), exp.astype(float)
    bad = ~((g == e) | (np.isnan(g) & np.isnan(e)))
    cells = np.argwhere(bad)[:limit]
    return "; ".join("cell %r: got %r, required %r" % (tuple(int(x) for x in c), got[tuple(c)].item(), exp[tuple(c)].item()) for c in cells) + \
        (" (%d cells differ)" % int(bad.sum()))


def _parts(out, return_missing_as):
    """(values, missing mask or message) of a report in the requested format."""
    kind = report_kind(return_missing_as)
    if kind == "pair":
        if not (isinstance(out, tuple) and len(out) == 2):
            return None, "required a (values, validity) pair, got %s" % type(out).__name__
        vals, valid = np.asarray(out[0]), np.asarray(out[1])
        if valid.dtype != np.bool_:
            return vals, "validity dtype %s, required bool" % valid.dtype
        return vals, ~valid
    if isinstance(out, tuple):
        return None, "required one array, got a tuple"
    o = np.asarray(out)
    if kind == "nan":
        return o, np.isnan(o.astype(float))
    return o, (o == return_missing_as)


def report_shape(out, table, return_missing_as):
    """out.shape (both arrays of a pair) is exactly the table's shape."""
    table = np.asarray(table)
    if report_kind(return_missing_as) == "pair":
        if not (isinstance(out, tuple) and len(out) == 2):
            return "required a (values, validity) pair, got %s" % type(out).__name__
        shapes = [np.shape(out[0]), np.shape(out[1])]
    else:
        if isinstance(out, tuple):
            return "required one array, got a tuple"
        shapes = [np.shape(out)]
    return True if all(s == table.shape for s in shapes) else "shape %r, required %r" % (shapes, table.shape)


def report_missing(out, table, return_missing_as):
    """A cell is reported missing exactly when its brute-force count is zero:
        NaN (default)   NaN exactly there;   (s, False)   validity False exactly there;
        plain s         the cell reads s exactly there."""
    table = np.asarray(table)
    vals, miss = _parts(out, return_missing_as)
    if isinstance(miss, str):
        return miss
    if miss.shape != table.shape:
        return "shape %r, required %r" % (miss.shape, table.shape)
    zero = table == 0
    if np.array_equal(miss, zero):
        return True
    return "reported missing %s, required %s (exactly where the count is zero; counts %s); %s" % (
        brief(miss), brief(zero), brief(table), first_differences(miss, zero))


def report_values(out, table, return_missing_as):
    """Every cell holds the brute-force count; a zero-count cell holds the missing marker's value."""
    table = np.asarray(table)
    vals, miss = _parts(out, return_missing_as)
    if vals is None:
        return miss
    if vals.shape != table.shape:
        return "shape %r, required %r" % (vals.shape, table.shape)
    kind = report_kind(return_missing_as)
    marker = return_missing_as[0] if kind == "pair" else return_missing_as
    exp = np.where(table == 0, marker, table.astype(float) if kind == "nan" else table)
    g, e = vals.astype(float), np.asarray(exp).astype(float)
    if ((g == e) | (np.isnan(g) & np.isnan(e))).all():
        return True
    return "cells %s, required %s; %s" % (brief(vals), brief(exp), first_differences(vals, exp))
