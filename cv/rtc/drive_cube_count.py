"""Exhaustive small-scope driver for the count-cube chain (C02) and the cube walk (C14).

Every cube in scope is built from indexes made with `speclib.mk` (never `from_array`) and
evaluated through the real entry points - `ccube(dims, shape).interactions()`, `.walk(funcs)`,
`.count(return_missing_as=...)` in the three report formats - while the contracts of
contracts_cube_count judge every call the library makes on the way (walk/_walk, get_initial_regions,
the _fill closures, marginal differencing, reduce, count), including those on the 1-D sub-cubes of a
cube with extra axes.  Work is sharded over processes by case number (`j % nshards == shard`).

A case is (dims, shape):  dims = ((dense shape, cells, common), ...), shape = None (inferred) or
the explicit interacting_shape.  No randomness in the quick tier; the thorough tier samples its two
largest families with the run's seed (reported as exhaustive: False).
"""
import itertools
import random

import numpy as np

from . import contracts_cube_count as CC
from .contract import MON
from .speclib import mk

NAN = float("nan")
FORMATS = (("nan", NAN), ("pair", (0, False)), ("plain", 0))


# ----------------------------------------------------------------------------- enumeration


def dim1(n, vals):
    """every 1-D dense column of n rows over vals (as tuples of cells)"""
    return [((n,), cells) for cells in itertools.product(vals, repeat=n)]


def dimk(n, tail, vals):
    size = n
    for e in tail:
        size *= e
    return [((n,) + tuple(tail), cells) for cells in itertools.product(vals, repeat=size)]


def cross(per_dim_states, commons_per_dim):
    """every combination of one (shape, cells) per dimension with one common per dimension"""
    for combo in itertools.product(*per_dim_states):
        for ks in itertools.product(*commons_per_dim):
            yield tuple((sh, cells, k) for (sh, cells), k in zip(combo, ks))


def inferred(dims):
    return tuple(max(list(cells) + [k]) + 1 for _, cells, k in dims)


def padded(dims):
    """an explicit shape larger than the data and than the inferred one: +1, +2, +1, ... per axis"""
    return tuple(e + 1 + (a % 2) for a, e in enumerate(inferred(dims)))


def with_shapes(gen, explicit=True):
    for dims in gen:
        yield dims, None
        if explicit:
            yield dims, padded(dims)


def cases(tier, seed=0):
    """(family, dims, shape) - the whole scope of the tier, in a fixed order."""
    V3, V2 = (0, 1, 2), (0, 1)
    thorough = tier == "thorough"
    # ---- no dimension: ccube([]).count(N=n)
    for n in range(0, 6 if thorough else 5):
        yield "0d", ("N", n), None
    # ---- one dimension: N <= 4 (5), categories {0,1,2}, every common in {0,1,2,3} (3 is above every category)
    for n in range(0, 6 if thorough else 5):
        for dims, sh in with_shapes(cross([dim1(n, V3)], [(0, 1, 2, 3)])):
            yield "1d", dims, sh
    # ---- two dimensions: N <= 4, categories {0,1,2} each, every pair of commons in {0,1,2}
    for n in range(0, 5):
        for dims, sh in with_shapes(cross([dim1(n, V3)] * 2, [V3] * 2), explicit=(n <= 3 or thorough)):
            yield "2d", dims, sh
    # ---- three dimensions: N <= 4 over categories {0,1} with commons {0,1,2} (2 = absent, extent 3);
    #      N <= 2 over categories {0,1,2}; mixed extents (3,2,2)/(2,3,2)/(2,2,3) at N = 3
    for n in range(0, 5):
        for dims, sh in with_shapes(cross([dim1(n, V2)] * 3, [V3] * 3), explicit=(n <= 3 or thorough)):
            yield "3d", dims, sh
    for n in range(1, 4 if thorough else 3):
        for dims, sh in with_shapes(cross([dim1(n, V3)] * 3, [V3] * 3), explicit=(n <= 2)):
            yield "3d", dims, sh
    if not thorough:
        for wide in range(3):
            per = [dim1(3, V3 if a == wide else V2) for a in range(3)]
            for dims, sh in with_shapes(cross(per, [V3 if a == wide else V2 for a in range(3)]), explicit=False):
                if 2 in dims[wide][1]:  # the rest is part of the families above
                    yield "3d", dims, sh
    # ---- dimensions with two and three axes (scaffold): C, D <= 2
    for n in range(0, 3):
        two = [s for c in (1, 2) for s in dimk(n, (c,), V2)]
        three = [s for c in (1, 2) for d in (1, 2) for s in dimk(n, (c, d), V2)] if n <= 1 else dimk(n, (2, 1), V2) + dimk(n, (1, 2), V2)
        one = dim1(n, V2)
        fams = [[two], [three], [two, one], [one, two], [three, one], [one, three], [one, two, one]]
        if n <= 1:
            fams += [[two, two], [two, three], [three, two], [three, three]]
        else:
            fams += [[dimk(n, (2,), V2), dimk(n, (1,), V2)], [dimk(n, (1,), V2), dimk(n, (2,), V2)]]
        for per in fams:
            for dims, sh in with_shapes(cross(per, [V3] * len(per))):
                yield "scaffold", dims, sh
    # categories {0,1,2} under extra axes, one and two dimensions
    for n in (1, 2):
        for dims, sh in with_shapes(cross([dimk(n, (2,), V3)], [(0, 1, 2, 3)])):
            yield "scaffold", dims, sh
    for dims, sh in with_shapes(cross([dimk(1, (2, 2), V3)], [(0, 1, 2, 3)])):
        yield "scaffold", dims, sh
    # ---- extent boundaries (255/256-cell switch lives in xcube only; kept as extent-boundary cases)
    for fam, dims, sh in boundary_cases(thorough):
        yield fam, dims, sh
    for fam, dims, sh in medium_cases():
        yield fam, dims, sh
    for fam, dims, sh in lopsided_cases():
        yield fam, dims, sh
    if thorough:
        for fam, dims, sh in thorough_cases(seed):
            yield fam, dims, sh


def medium_cases():
    """Medium-size cubes (9-64 rows, category extents 5-9, row-id lists of 17+): code that only engages above a size
    threshold (fast paths, batching, heuristics) is out of reach of the exhaustive tiny scopes.  Deterministic."""
    x = [20261003]

    def nxt(m):
        x[0] = (x[0] * 48271) % 2147483647
        return x[0] % m

    layouts = [((9, 5),), ((17, 7), (17, 4)), ((33, 6), (33, 5), (33, 3)), ((64, 9), (64, 2)), ((40, 8), (40, 8)), ((24, 4), (24, 5), (24, 3), (24, 2)),
               ((60, 2), (60, 7)), ((70, 3), (70, 6), (70, 2)), ((48, 2), (48, 2), (48, 9))]
    for lay in layouts:
        for variant in range(3):
            dims = []
            for (n, k) in lay:
                if variant == 0:
                    cells = tuple(nxt(k) for _ in range(n))
                elif variant == 1:  # one dominant category, long row-id lists for it when it is not the common value
                    cells = tuple((0 if nxt(10) < 7 else nxt(k)) for _ in range(n))
                else:  # sorted blocks: long runs of equal categories
                    cells = tuple(sorted(nxt(k) for _ in range(n)))
                common = (0, k - 1, k)[variant]  # present-and-frequent / rare / absent (extent k + 1)
                dims.append(((n,), cells, common))
            yield "medium", tuple(dims), None
            yield "medium", tuple(dims), tuple(max(list(c) + [k]) + 2 for _, c, k in dims)
    # medium multi-axis dimensions
    for (n, cc, k) in ((12, 3, 4), (20, 5, 3)):
        cells = tuple((0 if nxt(10) < 5 else nxt(k)) for _ in range(n * cc))
        one = tuple(nxt(3) for _ in range(n))
        yield "medium", (((n, cc), cells, 0), ((n,), one, 1)), None
        yield "medium", (((n,), one, 2), ((n, cc), cells, k)), None


def lopsided_cases():
    """Hundreds of rows with very unequal entries: a dimension whose uncommon entry has 1-2 rows (first, last, row 256, ...)
    against a dimension whose entry holds (nearly) every row - windowing, galloping or leaping intersections engage only
    on such pairs (length ratios above 32x, 64x, 256x)."""
    for n in (257, 300, 600):
        for a_rows in ((n - 1,), (0,), (256,), (3, n - 1), (0, 255)):
            a = tuple(1 if i in a_rows else 0 for i in range(n))
            full = tuple(1 for _ in range(n))
            holes = tuple(2 if i in (7, n - 2) else 1 for i in range(n))
            third = tuple((i * 7) % 3 for i in range(n))
            for b in (full, holes):
                yield "lopsided", (((n,), a, 0), ((n,), b, 0)), None
                yield "lopsided", (((n,), b, 0), ((n,), a, 0)), None
            if n != 600:
                yield "lopsided", (((n,), third, 2), ((n,), a, 0), ((n,), full, 0)), None
                yield "lopsided", (((n,), a, 0), ((n,), third, 0), ((n,), holes, 0)), None


def boundary_cases(thorough):
    rows = [(0, 0, 1, 1), (1, 0, 1, 0), (0, 1), (1,), ()]
    for a, b in ((257, 2), (2, 129), (256, 2), (2, 128)):
        for r in rows:
            n = len(r)
            for ka, kb in ((0, 0), (1, 1), (0, 1)):
                # padded: small categories, explicit extents (a, b)
                yield "boundary", (((n,), r, ka), ((n,), tuple(reversed(r)), kb)), (a, b)
            if n:
                # the top category of the long axis is present (inferred shape) / is the common value
                top_a = tuple((a - 1) if (i == 0 and a > 2) else x for i, x in enumerate(r))
                top_b = tuple((b - 1) if (i == n - 1 and b > 2) else x for i, x in enumerate(r))
                yield "boundary", (((n,), top_a, 0), ((n,), top_b, 1)), None
                yield "boundary", (((n,), top_a, a - 1 if a > 2 else 0), ((n,), top_b, b - 1 if b > 2 else 0)), None
                yield "boundary", (((n,), r, a - 1 if a > 2 else 0), ((n,), r, b - 1 if b > 2 else 0)), (a, b)


def thorough_cases(seed):
    V3, V2 = (0, 1, 2), (0, 1)
    # two dimensions at N = 5
    for dims, sh in with_shapes(cross([dim1(5, V3)] * 2, [V3] * 2), explicit=False):
        yield "2d", dims, sh
    # four dimensions, N <= 3 exhaustive over categories {0,1}, commons {0,1,2}
    for n in range(0, 4):
        for dims, sh in with_shapes(cross([dim1(n, V2)] * 4, [V3] * 4), explicit=(n <= 2)):
            yield "4d", dims, sh
    # four dimensions at N = 4 and N = 5: sampled with the run's seed (not exhaustive)
    rng = random.Random(seed)
    for n, k in ((4, 30000), (5, 30000)):
        cols = dim1(n, V3)
        for _ in range(k):
            dims = tuple((sh_, cells, rng.choice((0, 1, 2, 3))) for sh_, cells in (rng.choice(cols) for _ in range(4)))
            yield "4d-sampled", dims, (None if rng.random() < 0.7 else padded(dims))
    # extents 256/257 and 65536/65537 on one axis of a four-dimension cube (N <= 5); with the two
    # largest extents two of the other axes have extent 1 so that no array exceeds 1e6 cells
    rows = [(0, 1, 0, 1, 1), (1, 1, 0, 0), (0, 1, 1), (1, 0), (0,)]
    for ext in (256, 257, 65536, 65537):
        big = ext > 1000
        for axis in range(4):
            for r in (rows[:2] if big else rows):
                n = len(r)
                small = [a_ for a_ in range(4) if a_ != axis]
                flat = set(small[1:]) if big else set()  # axes of extent 1: every row in category 0, common 0
                for top_present, top_common in ((False, False), (True, False), (True, True)):
                    dims = []
                    for a_ in range(4):
                        cells = tuple(0 if a_ in flat else (x + a_ + i) % 2 for i, x in enumerate(r))
                        k = 0 if a_ in flat else a_ % 2
                        if a_ == axis and top_present:
                            cells = (ext - 1,) + cells[1:]
                        if a_ == axis and top_common:
                            k = ext - 1
                        dims.append(((n,), cells, k))
                    shape = tuple(ext if a_ == axis else (1 if a_ in flat else 2) for a_ in range(4))
                    yield "boundary-4d", tuple(dims), shape
                    if top_present:
                        yield "boundary-4d", tuple(dims), None


# ----------------------------------------------------------------------------- evaluation


class Stats:
    def __init__(self):
        self.calls = 0
        self.nontrivial = 0
        self.samples = []
        self.cases = 0

    def call(self, nontrivial, sample=None):
        self.calls += 1
        if nontrivial:
            self.nontrivial += 1
        if sample is not None and len(self.samples) < 6 and self.calls % 4999 == 1:
            self.samples.append(sample)


def _try(f):
    try:
        return True, f()
    except Exception:
        return False, None  # the contract wrapper has already recorded the raise


def case_json(fam, dims, shape):
    if fam == "0d":
        return {"family": fam, "dims": [], "N": dims[1], "interacting_shape": None}
    return {"family": fam, "dims": [{"dense": np.array(cells, dtype=np.int64).reshape(sh).tolist(), "common": k, "shape": list(sh)} for sh, cells, k in dims],
            "interacting_shape": None if shape is None else list(shape)}


def case_from_json(c):
    if not c["dims"]:
        return c.get("family", "0d"), ("N", c["N"]), None
    dims = tuple((tuple(d["shape"]), tuple(np.array(d["dense"], dtype=np.int64).reshape(-1).tolist()), d["common"]) for d in c["dims"])
    sh = c.get("interacting_shape")
    return c.get("family", "replay"), dims, (None if sh is None else tuple(sh))


def do_huge(st):
    """Indexes of 2**24 .. 2**32 rows of which only a handful is uncommon (cheap: only uncommon row ids are stored): counts,
    margins and the reconstructed common cell are integers far above 2**24 - whatever holds them has to be exact there.
    Oracle: the table computed from the handful of uncommon rows, the common cell by subtraction (no dense view)."""
    from catii import ccube, iindex

    u32 = lambda xs: np.array(xs, dtype=np.uint32)  # noqa
    for N in (2 ** 24 + 1, 2 ** 24 + 4, 2 ** 31 + 5, 2 ** 32 - 1):
        one = [iindex({(1,): u32([0, N - 1])}, 0, (N,))]
        two = [iindex({(1,): u32([0, 5])}, 0, (N,)), iindex({(2,): u32([5, N - 1])}, 0, (N,))]
        want1 = np.array([N - 2, 2], dtype=np.int64)
        want2 = np.zeros((2, 3), dtype=np.int64)
        want2[1, 0], want2[1, 2], want2[0, 2], want2[0, 0] = 1, 1, 1, N - 3
        for dims, want, shape in ((one, want1, (2,)), (two, want2, (2, 3))):
            for name, fmt in FORMATS:
                ex = {"family": "hugeN", "N": N, "dims": [{"entries": {str(k): v.tolist() for k, v in d.items()}, "common": d.common, "shape": list(d.shape)} for d in dims],
                      "interacting_shape": list(shape), "return_missing_as": name}
                try:
                    res = ccube(dims, interacting_shape=shape).count(return_missing_as=fmt) if name != "plain" else ccube(dims, interacting_shape=shape).count(N=N, return_missing_as=fmt)
                    vals, valid = res if isinstance(res, tuple) else (res, None)
                    miss = (~np.asarray(valid)) if valid is not None else (np.isnan(np.asarray(vals, dtype=float)) if name == "nan" else np.asarray(vals) == 0)
                    got = np.where(miss, 0, np.nan_to_num(np.asarray(vals, dtype=float))).astype(np.float64)
                    ok = got.shape == want.shape and bool((got == want.astype(np.float64)).all()) and bool((miss == (want == 0)).all())
                    MON.check("ccubes.ccube.count/ensures-cells-equal-the-count-table-of-a-sparse-index-of-millions-of-rows", ok,
                              lambda: "count %r (missing %r), required %r" % (np.asarray(vals).tolist(), miss.astype(int).tolist(), want.tolist()), ex, {"family": "hugeN", "N": N})
                except Exception as e:  # noqa
                    MON.check("ccubes.ccube.count/ensures-cells-equal-the-count-table-of-a-sparse-index-of-millions-of-rows",
                              "raised %s: %s" % (type(e).__name__, e), None, ex, {"family": "hugeN", "N": N})
                st.call(True, ex)


class _SerialPool:
    """ThreadPool stand-in: the tasks handed to map run in order on the calling thread."""

    def __init__(self, n=None):
        self.n = n

    def map(self, fn, it, chunksize=None):
        items = list(it)
        if chunksize is not None and chunksize <= 0:
            return [None] * len(items)  # ThreadPool.map forms no task batch for a chunk size below 1 (probed in cv/frames/poolmon.py)
        return [fn(x) for x in items]

    def close(self):
        pass

    def terminate(self):
        pass

    def join(self):
        pass


class _SerialMP:
    class pool:
        ThreadPool = _SerialPool


def do_case(fam, dims, shape, st, parts=("walk", "count")):
    from catii import ccube

    cj = case_json(fam, dims, shape)
    if fam == "0d":
        n = dims[1]
        CC.new_case(cj, {"family": fam, "ndims": 0, "scaffold": False, "shape": "none"})
        if "walk" in parts:
            _try(lambda: ccube([]).interactions())
            st.call(False)
        if "count1" in parts:
            _try(lambda: ccube([]).count(N=n))
            st.call(n > 0, cj)
        if "count" in parts:
            for name, fmt in FORMATS:
                _try(lambda: ccube([]).count(N=n, return_missing_as=fmt))
                st.call(n > 0, cj)
            # without N (and without weights) the library refuses, as documented
            try:
                ccube([]).count()
                refused = False
            except ValueError:
                refused = True
            except Exception:
                refused = False
            MON.check("ccubes.ccube.count/zero-dimension-cube-without-N-is-refused-with-ValueError", refused,
                      "ccube([]).count() did not raise the documented ValueError", cj, {"family": fam, "ndims": 0})
        return
    idx = [mk(np.array(cells, dtype=np.int64).reshape(sh), k) for sh, cells, k in dims]
    one_axis = all(len(sh) == 1 for sh, _, _ in dims)
    nrows = dims[0][0][0]
    CC.new_case(cj, {"family": fam, "ndims": len(dims), "scaffold": not one_axis, "shape": "inferred" if shape is None else "explicit",
                     "nrows": nrows})
    kw = {} if shape is None else {"interacting_shape": shape}
    if shape is None and "count" in parts:
        # C02: "explicit or inferred cube shape" - the inferred shape must admit every category that occurs AND every
        # dimension's common value (anchor: shape inference from entries and common): exactly max(category or common) + 1
        ok, c0 = _try(lambda: ccube(idx))
        want = inferred(dims)
        MON.check("ccubes.ccube.__init__/ensures-inferred-shape-admits-every-category-and-common",
                  bool(ok) and tuple(int(e) for e in c0.interacting_shape) == tuple(want),
                  lambda: "inferred interacting_shape %r, the categories and common values need %r" % (getattr(c0, "interacting_shape", None), want),
                  cj, {"family": fam, "ndims": len(dims), "shape": "inferred"})
    if one_axis and "walk" in parts and (shape is None or "count" in parts):
        # the walk does not read the cube shape: in a walk-only run the explicit-shape twin of a case
        # would repeat the inferred-shape one call for call
        _try(lambda: ccube(idx, **kw).interactions())
        st.call(nrows > 0, cj)
        sink = []
        _try(lambda: ccube(idx, **kw).walk((lambda c, r: sink.append(c), lambda c, r: None)))
        st.call(nrows > 0)
        if len(dims) <= 2:
            _try(lambda: ccube(idx, **kw).walk(lambda c, r: None))
            st.call(nrows > 0)
    if one_axis and "walk" in parts and shape is None and "count" not in parts and nrows <= 3 and fam in ("1d", "2d", "3d"):
        # the same dimensions with an explicit entry that holds no row (under an unused category), in every position:
        # such a combination is matched by no row and must not be presented
        for pos in range(len(dims)):
            idx_e = [mk(np.array(cells, dtype=np.int64).reshape(sh), k) for sh, cells, k in dims]
            u = max(list(dims[pos][1]) + [dims[pos][2]]) + 1
            dict.__setitem__(idx_e[pos], (u,), np.array([], dtype=np.uint32))
            shape_e = tuple(max(list(c) + [k]) + 2 for _, c, k in dims)
            CC.new_case(dict(cj, empty_entry={"dimension": pos, "category": u}, interacting_shape=list(shape_e)),
                        {"family": fam, "ndims": len(dims), "scaffold": False, "shape": "explicit", "nrows": nrows, "empty_entry": True})
            _try(lambda: ccube(idx_e, interacting_shape=shape_e).interactions())
            st.call(nrows > 0)
            _try(lambda: ccube(idx_e, interacting_shape=shape_e).walk((lambda c, r: None,)))
            st.call(nrows > 0)
        CC.new_case(cj, {"family": fam, "ndims": len(dims), "scaffold": not one_axis, "shape": "inferred" if shape is None else "explicit", "nrows": nrows})
    if "count1" in parts and (fam != "3d" or nrows <= 2):
        # the walks made by calculate on the 1-D sub-cubes (funcs = the _fill closures, dims = the
        # slices cut by slices1d); for three plain dimensions of 3+ rows these repeat the walk above
        _try(lambda: ccube(idx, **kw).count())
        st.call(nrows > 0, cj)
    if "count" in parts:
        for name, fmt in FORMATS:
            if name == "plain":
                _try(lambda: ccube(idx, **kw).count(N=nrows, return_missing_as=fmt))
            else:
                _try(lambda: ccube(idx, **kw).count(return_missing_as=fmt))
            st.call(nrows > 0, cj)
        if not one_axis:
            # the evaluation mode is not part of the property: the same table with the sub-cubes handed to the thread pool
            # (the library switches to it by size; `parallel` is the cube's own switch) for every pool size up to the scaffold
            # The pool is substituted by one that runs the tasks it is handed one after the other (with ThreadPool.map's
            # treatment of chunksize): the contracts on _fill compare region snapshots and must not race; schedules are C16's.
            import catii.ccubes as cc_mod

            real_mp = cc_mod.multiprocessing
            cc_mod.multiprocessing = _SerialMP
            try:
                for ps in (None, 1, 2, 3, 5):
                    def pooled():
                        c = ccube(idx, **kw)
                        c.parallel = True
                        if ps is not None:
                            c.poolsize = ps
                        return c.count()
                    _try(pooled)
                    st.call(nrows > 0, cj)
            finally:
                cc_mod.multiprocessing = real_mp
    st.cases += 1


def replay_case(case, obligation):
    """Re-run one recorded driver case under every contract; True if `obligation` fails again."""
    from .. import env

    env.import_catii()
    CC.install()
    st = Stats()
    fam, dims, shape = case_from_json(case)
    do_case(fam, dims, shape, st, ("walk", "count", "count1"))
    return [f for f in MON.failures if f.obligation == obligation], list(MON.failures)


def work(args):
    """One shard. args = (tier, shard, nshards[, extra]); extra = {"seed": int, "parts": [...]}."""
    tier, shard, nshards = args[:3]
    extra = args[3] if len(args) > 3 and args[3] else {}
    from .. import env

    env.import_catii()
    parts = tuple(extra.get("parts", ("walk", "count")))
    CC.install(walk=extra.get("walk_contracts", True), count=True)
    st = Stats()
    j = 0
    fams = {}
    for fam, dims, shape in cases(tier, extra.get("seed", 0)):
        if j % nshards == shard:
            do_case(fam, dims, shape, st, parts)
        fams[fam] = fams.get(fam, 0) + 1
        j += 1
    if "count" in parts and shard == 2 % nshards:
        do_huge(st)
    out = MON.dump()
    out.update(driver_calls=st.calls, nontrivial=st.nontrivial, samples=st.samples, jobs=j, families=fams)
    return out
