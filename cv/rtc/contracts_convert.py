"""Contracts on the real `iindex.from_array` (classmethod) and `iindex.to_array` (C01; DESIGN §6 C01, §9.1).

Clause names (all under `iindexes.iindex.from_array/` and `iindexes.iindex.to_array/`):

    no-raise                               C01   the conversion does not raise inside its precondition
    ensures-returns-instance-of-cls        C01   from_array returns an instance of the class it was called on
    ensures-shape-equals-input-shape       C01   result.shape == values.shape, a tuple of plain int
    ensures-view-equals-mapped-input       C01   the WHOLE dense view of the result equals the (mapped) input
    ensures-common-as-requested            C01   caller-chosen common (mapped through `mapping`) is the result's common
    ensures-wf-<conjunct>, ensures-validate C01  the result is well formed (one clause per conjunct)
    frame-values/counts/mapping-unchanged  C01   arguments byte/dict identical afterwards
    ensures-common-is-mode                 C15   a library-chosen common is a most frequent value of the mapped array
    to_array: ensures-shape-equals-index-shape, ensures-equals-view-as-python-ints (no wrap-around),
              ensures-dtype-as-requested, frame-self-unchanged, frame-mapping-unchanged

The oracle is the spec layer (`speclib.view`, plain NumPy / Python on the input array); neither
contract computes an expected value through the other function.

`path_of` re-computes, from the inputs only, which construction strategy `from_array` selects
(same arithmetic as the code: `values.size == 0 or len(counts) < 5` -> where path; otherwise
`(len(counts) / uncommon_ratio) < 100` picks the numpy.where path or the row-scan path).  It is used
for classification of failures and by the driver's path-cover obligation; /repo is not instrumented.
"""
import collections

import numpy as np

from .contract import Contract, attach
from .contracts_iindex import RES, _map_array, view_clause, wf_clauses, wf_ok
from .speclib import describe, is_mode, snap, view

QF = "iindexes.iindex.from_array"
QT = "iindexes.iindex.to_array"
I64 = np.iinfo(np.int64)


def _plain_int(x):
    return type(x) is int


def _in_i64(x):
    return I64.min <= x <= I64.max


def _as_array(values):
    """The integer array `values` stands for, or None when outside the precondition."""
    if not isinstance(values, (np.ndarray, list)):
        return None
    try:
        arr = np.asarray(values)
    except Exception:
        return None
    if arr.ndim not in (1, 2):
        return None
    if arr.size == 0:
        if arr.dtype.kind not in "iuf":  # numpy.asarray([]) is float64: the zero-row list
            return None
        return np.zeros(arr.shape, dtype=np.int64)
    if arr.dtype.kind not in "iu":
        return None
    if arr.dtype.kind == "u" and arr.dtype.itemsize == 8 and int(arr.max()) > I64.max:
        return None
    return arr.astype(np.int64)


def pairs(d):
    return None if d is None else [[k, v] for k, v in d.items()]


def unpairs(p):
    return None if p is None else {int(k): int(v) for k, v in p}


def mapping_kind(mapping, keys):
    if mapping is None:
        return "none"
    img = [mapping[k] for k in keys if k in mapping]
    return "injective" if len(set(img)) == len(img) else "many-to-one"


def path_of(arr, counts_given, common, mapping):
    """Which (counts?, mapping?, common kind, size==0, len(counts)<5, strategy, ndim) combination the
    call takes; strategy in where-small / where / rowscan, from the same arithmetic as the code."""
    size = int(arr.size)
    cnt = collections.Counter(arr.reshape(-1).tolist())
    ndist = len(cnt)
    if mapping is None:
        final = dict(cnt)
    else:
        final = collections.defaultdict(int)
        for v, c in cnt.items():
            final[mapping[v]] += c
    ck = "omitted" if common is None else ("present" if common in cnt else "absent")
    ratio = None
    if size == 0 or ndist < 5:
        strategy = "where-small"
    else:
        if common is None:
            cc = max(final.values())
        else:
            cc = final.get(mapping[common] if mapping is not None else common, 0)
        ratio = (sum(final.values()) - cc) / float(size)
        if ratio == 0:
            strategy = "rowscan(uncommon_ratio=0)"
        else:
            strategy = "where" if (ndist / ratio) < 100 else "rowscan"
    return {"counts": "given" if counts_given else "omitted", "mapping": "given" if mapping is not None else "omitted",
            "common": ck, "size0": size == 0, "lt5": ndist < 5, "strategy": strategy, "ndim": int(arr.ndim),
            "distinct": ndist, "uncommon_ratio": ratio}


def path_key(p):
    return "counts=%s mapping=%s common=%s size0=%d distinct<5=%d strategy=%s ndim=%d" % (
        p["counts"], p["mapping"], p["common"], p["size0"], p["lt5"], p["strategy"], p["ndim"])


def feasible_paths():
    """Every feasible combination of the scalar control skeleton of from_array (inside `requires`)."""
    out = []
    for cg in ("given", "omitted"):
        for nd in (1, 2):
            for mg in ("given", "omitted"):
                # size == 0: no value is present; an omitted common needs a mapping (documented ValueError otherwise)
                for ck in ("absent", "omitted"):
                    if ck == "omitted" and mg == "omitted":
                        continue
                    out.append(dict(counts=cg, mapping=mg, common=ck, size0=True, lt5=True, strategy="where-small", ndim=nd))
                for ck in ("present", "absent", "omitted"):
                    out.append(dict(counts=cg, mapping=mg, common=ck, size0=False, lt5=True, strategy="where-small", ndim=nd))
                    for s in ("where", "rowscan"):
                        out.append(dict(counts=cg, mapping=mg, common=ck, size0=False, lt5=False, strategy=s, ndim=nd))
    return [path_key(p) for p in out]


def counting_of(values, counts):
    """Which counting code runs: caller's counts, bincount, or the unique fallback."""
    if counts is not None:
        return "given"
    arr = np.asarray(values)
    if arr.size and int(arr.min()) < 0:
        return "unique"
    return "bincount"


def _snap_values(values):
    if isinstance(values, np.ndarray):
        return ("ndarray", values.tobytes(), str(values.dtype), values.shape)
    return ("list", repr(values))


def install():
    import catii.iindexes as M

    I = M.iindex

    # ------------------------------------------------------------------ from_array
    def fa_requires(cls, values, counts=None, common=None, mapping=None):
        arr = _as_array(values)
        if arr is None:
            return False
        if common is not None and not (_plain_int(common) and _in_i64(common)):
            return False
        flat = arr.reshape(-1).tolist()
        cnt = collections.Counter(flat)
        if counts is not None:
            # "a dict containing each distinct input value and its count": exact
            if not isinstance(counts, dict) or any(not _plain_int(k) or not _plain_int(v) for k, v in counts.items()):
                return False
            if dict(counts) != dict(cnt):
                return False
        if mapping is not None:
            if not isinstance(mapping, dict) or any(not _plain_int(k) or not _plain_int(v) or not _in_i64(v) for k, v in mapping.items()):
                return False
            need = set(cnt) | ({common} if common is not None else set())
            if not need <= set(mapping):
                return False
        # documented ValueError: "No values or common value provided."
        if arr.size == 0 and common is None and not mapping:
            return False
        return True

    def fa_old(cls, values, counts=None, common=None, mapping=None):
        arr = _as_array(values)
        mapped = arr if mapping is None else _map_array(arr, lambda v: mapping[v])
        return {"arr": arr, "mapped": mapped, "values_snap": _snap_values(values), "in_dtype": str(np.asarray(values).dtype),
                "counts": None if counts is None else dict(counts), "mapping": None if mapping is None else dict(mapping),
                "common": common, "path": path_of(arr, counts is not None, common, mapping)}

    def fa_describe(old, cls, values, counts=None, common=None, mapping=None):
        return {"values": {"ndarray": old["arr"].tolist(), "dtype": old["in_dtype"], "shape": list(old["arr"].shape),
                           "as_list": not isinstance(values, np.ndarray)},
                "counts": pairs(old["counts"]), "common": common, "mapping": pairs(old["mapping"])}

    def fa_classify(old, cls, values, counts=None, common=None, mapping=None):
        p = old["path"]
        keys = sorted(set(old["arr"].reshape(-1).tolist()))
        return {"counts_given": counts is not None, "mapping": mapping_kind(mapping, keys), "common": p["common"],
                "size0": p["size0"], "distinct": p["distinct"], "strategy": p["strategy"], "ndim": p["ndim"],
                "uncommon_ratio_zero": p["uncommon_ratio"] == 0, "counting": counting_of(values, counts),
                "negative_value": bool(old["mapped"].size and int(old["mapped"].min()) < 0)}

    def fa_shape(old, res, cls, values, counts=None, common=None, mapping=None):
        want = tuple(int(s) for s in old["arr"].shape)
        if type(res.shape) is not tuple or any(type(s) is not int for s in res.shape):
            return "shape %r is not a tuple of plain int" % (res.shape,)
        return True if res.shape == want else "shape %r, input shape %r" % (res.shape, want)

    def fa_common(old, res, cls, values, counts=None, common=None, mapping=None):
        if common is None:
            return True
        want = mapping[common] if mapping is not None else common
        return True if (res.common == want and type(res.common) is int) else \
            "common %r, requested %r%s" % (res.common, want, " (= mapping[%r])" % common if mapping is not None else "")

    def fa_mode(old, res, cls, values, counts=None, common=None, mapping=None):
        if common is not None:
            return True
        return True if is_mode(old["mapped"], res.common) else \
            "library-chosen common %r is not a most frequent value of the (mapped) input %r" % (res.common, old["mapped"].tolist())

    def fa_frame_values(old, res, cls, values, *a, **kw):
        return True if _snap_values(values) == old["values_snap"] else "the `values` argument changed"

    def fa_frame_counts(old, res, cls, values, counts=None, common=None, mapping=None):
        return True if (counts is None or dict(counts) == old["counts"]) else "the `counts` argument changed to %r" % (dict(counts),)

    def fa_frame_mapping(old, res, cls, values, counts=None, common=None, mapping=None):
        return True if (mapping is None or dict(mapping) == old["mapping"]) else "the `mapping` argument changed to %r" % (dict(mapping),)

    attach(I, "from_array", Contract(
        QF, requires=fa_requires, old=fa_old, describe=fa_describe, classify=fa_classify,
        ensures=[
            ("ensures-returns-instance-of-cls", lambda old, res, cls, *a, **kw:
                True if isinstance(res, cls) else "returned %r, not an instance of %r" % (type(res), cls)),
            ("ensures-shape-equals-input-shape", fa_shape),
            view_clause(RES, lambda old, res, *a, **kw: old["mapped"], name="ensures-view-equals-mapped-input"),
            ("ensures-common-as-requested", fa_common),
            ("ensures-common-is-mode", fa_mode),
            ("frame-values-unchanged", fa_frame_values),
            ("frame-counts-unchanged", fa_frame_counts),
            ("frame-mapping-unchanged", fa_frame_mapping),
        ] + wf_clauses(RES)))

    # ------------------------------------------------------------------ to_array
    def _written(self, mapping):
        vals = [k[0] for k in dict.keys(self)] + [self.common]
        return vals if mapping is None else [mapping[v] for v in vals]

    def ta_requires(self, mapping=None, dtype=None):
        if not wf_ok(self) or len(self.shape) not in (1, 2) or not _plain_int(self.common) or not _in_i64(self.common):
            return False
        if mapping is not None:
            if not isinstance(mapping, dict) or not mapping:
                return False
            if any(not _plain_int(k) or not _plain_int(v) or not _in_i64(v) for k, v in mapping.items()):
                return False
            if not ({k[0] for k in dict.keys(self)} | {self.common}) <= set(mapping):
                return False
        if dtype is not None:
            # "an explicit sufficient dtype": an integer dtype holding every value written
            try:
                dt = np.dtype(dtype)
            except Exception:
                return False
            if dt.kind not in "iu":
                return False
            ii = np.iinfo(dt)
            if any(not ii.min <= v <= ii.max for v in _written(self, mapping)):
                return False
        return True

    def ta_old(self, mapping=None, dtype=None):
        v = view(self)
        exp = v if mapping is None else _map_array(v, lambda x: mapping[x])
        return {"view": v, "expect": exp, "snap": snap(self), "self_desc": describe(self), "shape": self.shape,
                "mapping": None if mapping is None else dict(mapping)}

    def ta_describe(old, self, mapping=None, dtype=None):
        return {"self": old["self_desc"], "mapping": pairs(old["mapping"]), "dtype": None if dtype is None else str(np.dtype(dtype))}

    def ta_classify(old, self, mapping=None, dtype=None):
        e = old["expect"]
        w = _written(self, mapping)
        return {"default_dtype": dtype is None, "mapping": mapping is not None, "negative_value": min(w) < 0,
                "ndim": len(old["shape"]), "rows": int(old["shape"][0]), "max_written": max(w), "min_written": min(w),
                "size0": e.size == 0}

    def ta_shape(old, res, self, mapping=None, dtype=None):
        if not isinstance(res, np.ndarray):
            return "returned %r, not an ndarray" % (type(res),)
        return True if tuple(res.shape) == tuple(old["shape"]) else "array shape %r, index shape %r" % (res.shape, old["shape"])

    def ta_equal(old, res, self, mapping=None, dtype=None):
        got = np.asarray(res).tolist()  # Python ints: a wrapped-around value does not compare equal
        exp = old["expect"].tolist()
        return True if got == exp else "to_array gave %r (dtype %s), the %sdense view is %r" % (
            got, getattr(res, "dtype", None), "mapped " if mapping is not None else "", exp)

    def ta_dtype(old, res, self, mapping=None, dtype=None):
        if dtype is None:
            return True
        return True if res.dtype == np.dtype(dtype) else "dtype %s, requested %s" % (res.dtype, np.dtype(dtype))

    attach(I, "to_array", Contract(
        QT, requires=ta_requires, old=ta_old, describe=ta_describe, classify=ta_classify,
        ensures=[
            ("ensures-shape-equals-index-shape", ta_shape),
            ("ensures-equals-view-as-python-ints", ta_equal),
            ("ensures-dtype-as-requested", ta_dtype),
            ("frame-self-unchanged", lambda old, res, self, *a, **kw: True if snap(self) == old["snap"] else "receiver changed"),
            ("frame-mapping-unchanged", lambda old, res, self, mapping=None, dtype=None:
                True if (mapping is None or dict(mapping) == old["mapping"]) else "the `mapping` argument changed"),
        ]))
    return M


def belongs_c01(ob):
    """Everything under from_array/ and to_array/ except the mode clause (which is C15's)."""
    return (ob.startswith(QF + "/") or ob.startswith(QT + "/")) and not ob.endswith("/ensures-common-is-mode")
