"""Byte-level bounded checks for the INDX format (C10 / C11 / C12): the content half that the
field-level proofs of engine A do not cover (DESIGN §6 C10-C12).  Clauses are stated against the
independent encoder/decoder of spec_indx (written from the format description)."""
import itertools
import os
import shutil
import tempfile

import numpy as np

from . import spec_indx
from .contract import MON
from .speclib import mk, states1, states2, view, wf

U32 = np.dtype(np.uint32)
MAG = {1: 200, 2: 60000, 4: 2 ** 31 + 5, 8: 2 ** 62 + 3}  # a value in each index word-size class
ROWS = [[], [0], [5, 2 ** 32 - 1], [1, 2, 3]]


class Stub:
    """A row-id array that is never materialised: len(), dtype and a tofile() that seeks."""

    def __init__(self, n):
        self.n = n
        self.dtype = U32

    def __len__(self):
        return self.n

    def tofile(self, f):
        f.seek(4 * self.n, 1)


class MarkedStub(Stub):
    """Stands for arange-like rows of which only the first and the last are written (the rest is a hole of zeros)."""

    def __init__(self, n, first, last):
        super().__init__(n)
        self.first, self.last = first, last

    def tofile(self, f):
        f.write(np.array([self.first], dtype=U32).tobytes())
        f.seek(4 * (self.n - 2), 1)
        f.write(np.array([self.last], dtype=U32).tobytes())


BOUNDARY = [0, 1, 255, 256, 65535, 65536, 2 ** 32 - 1, 2 ** 32, 2 ** 63 - 1]


def files(tier):
    """Enumerate (entries list [(key, rows)], common). Arity 1-4, 0-3 entries, coordinate and common
    magnitudes independently in each word-size class (and exactly on every word-size boundary), the widest
    coordinate in every key position and every coordinate position, row-id arrays of length 0-3 up to 2**32-1."""
    arities = (1, 2, 3, 4)
    for d in arities:
        for n in (0, 1, 2, 3):
            for cw in (1, 2, 4, 8):  # class of the largest coordinate
                for mw in (1, 2, 4, 8):  # class of the common value
                    if n == 0 and cw != 1:
                        continue
                    rowsets = list(itertools.product(ROWS, repeat=n))
                    if tier != "thorough" and n == 3:
                        rowsets = rowsets[::5]
                    for ri, rs in enumerate(rowsets):
                        keys = [[i] + [0] * (d - 1) for i in range(n)]
                        if n:
                            # the widest coordinate moves through every key and every coordinate position
                            ki = ri % n
                            ci = (ri // n) % d
                            keys[ki][ci] = MAG[cw] + ki
                        yield [(tuple(k), list(r)) for k, r in zip(keys, rs)], MAG[mw] - 1
    # exact word-size boundaries, as coordinate (in a non-last key / non-last position) and as common value
    for b in BOUNDARY:
        for c in BOUNDARY:
            yield [((b, 1), [0, 2]), ((3, 0), [1])], c
            yield [((5,), [7]), ((b + 0,), [0]) if b != 5 else ((6,), [0])], c
        yield [], b
        yield [((2, b, 0), [4, 5, 6])], 1


def _entries_dict(ent):
    return {k: np.array(r, dtype=U32) for k, r in ent}


def check_file(IndxIO, ent, common, tmp, st, which=None):
    ex = {"entries": [[list(k), r] for k, r in ent], "common": common}
    path = os.path.join(tmp, "f.indx")
    d = _entries_dict(ent)
    # ---- save
    try:
        with open(path, "wb") as f:
            IndxIO.save(f, d, common, U32)
        ok = True
    except Exception as e:  # noqa
        ok = False
        MON.check("indxio.IndxIO.save/no-raise", "raised %s: %s" % (type(e).__name__, e), None, ex)
    if not ok:
        return
    MON.check("indxio.IndxIO.save/no-raise", True)
    data = open(path, "rb").read()
    want = spec_indx.encode(ent, common)
    MON.check("indxio.IndxIO.save/bytes-equal-independent-encoder", data == want,
              lambda: "file %s, documented layout gives %s" % (data.hex(), want.hex()), ex)
    try:
        dec = spec_indx.decode(data)
        okd = dec[0] == [(k, r) for k, r in ent] and dec[1] == common
        MON.check("indxio.IndxIO.save/independent-decoder-recovers-data", okd, lambda: "decoded %r" % (dec,), ex)
    except Exception as e:  # noqa
        MON.check("indxio.IndxIO.save/independent-decoder-recovers-data", "decoder rejects the file: %s" % e, None, ex)
    # ---- load back (C10)
    try:
        with open(path, "rb") as f:
            got, gcommon, gdtype = IndxIO.load(f)
        okl = True
    except Exception as e:  # noqa
        okl = False
        MON.check("indxio.roundtrip/load-of-saved-file-no-raise", "raised %s: %s" % (type(e).__name__, e), None, ex)
    if okl:
        MON.check("indxio.roundtrip/load-of-saved-file-no-raise", True)
        MON.check("indxio.roundtrip/common-equal-and-plain-int", gcommon == common and type(gcommon) is int, lambda: "common %r (%s)" % (gcommon, type(gcommon)), ex)
        MON.check("indxio.roundtrip/keys-equal-tuples-of-plain-python-ints",
                  list(got.keys()) == [k for k, _ in ent] and all(type(k) is tuple and all(type(c) is int for c in k) for k in got),
                  lambda: "keys %r" % (list(got.keys()),), ex)
        MON.check("indxio.roundtrip/rowids-equal-uint32-same-association",
                  all(k in got and got[k].dtype == U32 and got[k].tolist() == r for k, r in ent) and len(got) == len(ent),
                  lambda: "loaded %r" % ({k: v.tolist() for k, v in got.items()},), ex)
        MON.check("indxio.roundtrip/rowid-dtype", gdtype == U32, lambda: "dtype %r" % (gdtype,), ex)
    st["files"] += 1
    # ---- every cut point (C12)
    if which not in (None, "C12"):
        return
    for k in range(len(data)):
        with open(path, "wb") as f:
            f.write(data[:k])
        try:
            with open(path, "rb") as f:
                r = IndxIO.load(f)
            MON.check("indxio.IndxIO.load/torn-file-rejected", "load returned %d entries from the first %d of %d bytes" % (len(r[0]), k, len(data)),
                      None, dict(ex, cut=k, length=len(data)), {"cut": k})
        except Exception:
            MON.check("indxio.IndxIO.load/torn-file-rejected", True)
        st["cuts"] += 1


def check_foreign_cuts(IndxIO, ent, common, tmp, st):
    """Every strict prefix of documented files in EVERY word-size combination (the library writes 4-byte row ids only):
    cuts of files with 1-, 2- and 8-byte row-id words have to be rejected as well.  Small files: every cut; files above
    2000 bytes: every cut in the header / index / lengths part and around every word-size multiple at the end."""
    path = os.path.join(tmp, "gc.indx")
    mx = max([common] + [c for k, _ in ent for c in k])
    mr = max([0] + [x for _, r in ent for x in r] + [len(r) for _, r in ent])
    for W in (1, 2, 4, 8):
        if mx >= 2 ** (8 * W):
            continue
        for R in (1, 2, 4, 8):
            if mr >= 2 ** (8 * R):
                continue
            data = spec_indx.encode(ent, common, W=W, R=R)
            T = len(data)
            cuts = range(T) if T <= 2000 else sorted(set(range(0, 200)) | set(range(T - 64, T)) | {T // 2, T // 2 + 1})
            ex = {"entries": [[list(k), r if len(r) <= 12 else r[:6] + ["...%d more" % (len(r) - 6)]] for k, r in ent], "common": common, "W": W, "R": R}
            for k in cuts:
                with open(path, "wb") as f:
                    f.write(data[:k])
                try:
                    with open(path, "rb") as f:
                        r = IndxIO.load(f)
                    n_loaded = len(r[0])
                    del r
                    MON.check("indxio.IndxIO.load/torn-file-rejected", "load returned %d entries from the first %d of %d bytes (index words %d bytes, row-id words %d bytes)"
                              % (n_loaded, k, T, W, R), None, dict(ex, cut=k, length=T), {"cut": "foreign", "R": R})
                except Exception:  # noqa
                    MON.check("indxio.IndxIO.load/torn-file-rejected", True)
                st["cuts"] += 1


def check_foreign(IndxIO, ent, common, tmp, st):
    """Files laid out by an independent writer, in every word-size combination wide enough."""
    path = os.path.join(tmp, "g.indx")
    mx = max([common] + [c for k, _ in ent for c in k])
    mr = max([0] + [x for _, r in ent for x in r] + [len(r) for _, r in ent])
    for W in (1, 2, 4, 8):
        if mx >= 2 ** (8 * W):
            continue
        for R in (1, 2, 4, 8):
            if mr >= 2 ** (8 * R):
                continue
            data = spec_indx.encode(ent, common, W=W, R=R)
            with open(path, "wb") as f:
                f.write(data)
            ex = {"entries": [[list(k), r] for k, r in ent], "common": common, "W": W, "R": R}
            ob = "indxio.IndxIO.load/loads-independent-encoding"
            try:
                with open(path, "rb") as f:
                    got, gcommon, gdtype = IndxIO.load(f)
            except Exception as e:  # noqa
                MON.check(ob, "raised %s: %s" % (type(e).__name__, e), None, ex, {"W": W, "R": R})
                continue
            ok = (gcommon == common and list(got.keys()) == [k for k, _ in ent]
                  and all(got[k].dtype == U32 and got[k].tolist() == r for k, r in ent) and gdtype.itemsize == R and gdtype.kind == "u")
            MON.check(ob, ok, lambda: "loaded %r common %r dtype %r" % ({k: v.tolist() for k, v in got.items()}, gcommon, gdtype), ex, {"W": W, "R": R})
            st["foreign"] += 1


def foreign_cases(tier):
    yield [((1,), [3, 5]), ((2,), [1, 4])], 0
    # narrow row-id words whose *total* exceeds the word although every id and every length fits it
    # (row ids restart per entry: different columns of a 2-D index share row ids)
    yield [((1, 0), list(range(200))), ((2, 1), list(range(100))), ((3, 2), [7])], 0
    yield [((0, 0), list(range(130))), ((1, 1), list(range(130))), ((2, 2), list(range(5)))], 7
    yield [((1, 0), list(range(40000))), ((2, 1), list(range(30000))), ((3, 2), [1, 2])], 0
    yield [((300, 2), [0, 70000]), ((5, 1), [2 ** 32 - 1])], 65535
    yield [], 9
    yield [((2 ** 40,), [1])], 2 ** 33
    yield [((255,), [255]), ((0,), [0, 254])], 255
    yield [((65535, 0), [65535]), ((1, 65535), [0])], 65535
    if tier == "thorough":
        yield [((i, i), list(range(90))) for i in range(4)], 1
        yield [((i, j), [i * 3 + j]) for i in range(3) for j in range(3)], 255


def check_large_totals(IndxIO, tmp, st):
    """Size field for totals crossing 2**30 and 2**32, without materialising the data."""
    path = os.path.join(tmp, "h.indx")
    for lens in ([2 ** 30 - 5], [2 ** 30 + 3], [2 ** 29, 2 ** 29, 5], [2 ** 31 + 5, 2 ** 31 + 7], [2 ** 32 - 1], [1073741758]):
        ent = {(i,): Stub(n) for i, n in enumerate(lens)}
        ex = {"entry_lengths": lens, "common": 0}
        payload = 1 + 4 + 1 + 1 + len(lens) * 1 + 1 + 4 * len(lens) + 4 * sum(lens)
        ob = "indxio.IndxIO.save/size-field-equals-payload-for-large-totals"
        try:
            with open(path, "wb") as f:
                IndxIO.save(f, ent, 0, U32)
                end = f.tell()
        except Exception as e:  # noqa
            MON.check(ob, "raised %s: %s" % (type(e).__name__, e), None, ex, {"total": sum(lens)})
            continue
        import struct

        with open(path, "rb") as f:
            f.seek(8)
            (size,) = struct.unpack("<Q", f.read(8))
        MON.check(ob, size == payload and end == 16 + payload, lambda: "size field %d, payload %d, end %d" % (size, payload, end), ex, {"total": sum(lens)})
        st["large"] += 1
        os.truncate(path, 0)


HUGE = [
    # entry lengths: payload crossing 2**32 bytes; element totals reaching and crossing 2**32
    [2 ** 30, 3, 2],
    [5, 2 ** 30 + 7, 2],
    [2 ** 31, 2 ** 31],
    [2 ** 31 + 1, 2 ** 31 - 1, 4, 2],
]


def check_huge(IndxIO, tmp, st, which):
    """Files of 4 - 16 GiB apparent size (sparse on disk: only the first and last row of each entry are written).
    C10/C11: the loader finds every entry at its place (length, first and last row).  C12: cuts around every
    power-of-two residue of the payload size, of the file length and of the row totals never load."""
    path = os.path.join(tmp, "huge.indx")
    for lens in HUGE:
        ent = {(i,): MarkedStub(n, i + 1, 2 ** 32 - 1 - i) for i, n in enumerate(lens)}
        ex = {"entry_lengths": lens, "common": 0, "rows": "first row i+1, last row 2**32-1-i, zeros between (sparse file)"}
        payload = 1 + 4 + 1 + 1 + len(lens) * 1 + 1 + 4 * len(lens) + 4 * sum(lens)
        T = 16 + payload
        try:
            with open(path, "wb") as f:
                IndxIO.save(f, ent, 0, U32)
        except Exception as e:  # noqa
            MON.check("indxio.IndxIO.save/no-raise", "raised %s: %s" % (type(e).__name__, e), None, ex)
            continue
        if os.path.getsize(path) != T:
            MON.check("indxio.IndxIO.save/size-field-equals-payload-for-large-totals", "file length %d, expected %d" % (os.path.getsize(path), T), None, ex)
            continue
        if which in (None, "C10"):
            ob = "indxio.roundtrip/huge-file-entries-found-at-their-place"
            try:
                with open(path, "rb") as f:
                    g, gc, gdt = IndxIO.load(f)
                got = {k: (len(v), int(v[0]), int(v[-1]), str(v.dtype)) for k, v in g.items()}
                want = {(i,): (n, i + 1, 2 ** 32 - 1 - i, "uint32") for i, n in enumerate(lens)}
                MON.check(ob, got == want and gc == 0, lambda: "loaded (length, first, last, dtype) per key: %r, common %r; expected %r" % (got, gc, want), ex, {"total": sum(lens)})
                del g
            except Exception as e:  # noqa
                MON.check(ob, "raised %s: %s" % (type(e).__name__, e), None, ex, {"total": sum(lens)})
            st["large"] += 1
        if which in (None, "C12"):
            cuts = {T - 1, T - 2, T - 4, T - 5, T // 2, 2 ** 32, 2 ** 32 + 15, 2 ** 32 + 16, 2 ** 32 + 17, 2 ** 31, 2 ** 31 + 16, 16, 17, 30}
            for q in (payload, T, 4 * sum(lens), sum(lens)):
                for k in (8, 16, 31, 32, 33):
                    for d in (-1, 0, 1, 2, 16, 17):
                        cuts.add(16 + q % 2 ** k + d)
                        cuts.add(q % 2 ** k + d)
            for k in sorted((c for c in cuts if 0 <= c < T), reverse=True):
                os.truncate(path, k)
                try:
                    with open(path, "rb") as f:
                        r = IndxIO.load(f)
                    n_loaded = len(r[0])
                    del r
                    MON.check("indxio.IndxIO.load/torn-file-rejected", "load returned %d entries from the first %d of %d bytes" % (n_loaded, k, T),
                              None, dict(ex, cut=k, length=T), {"cut": "huge"})
                except Exception:  # noqa
                    MON.check("indxio.IndxIO.load/torn-file-rejected", True)
                st["cuts"] += 1
        os.truncate(path, 0)
    if os.path.exists(path):
        os.remove(path)


def check_many_entries(IndxIO, tmp, st, which):
    """An index with more entries than a 16-bit count holds (65537 one-row entries; 70000 two-axis entries): the entry
    count field, the key table and the lengths table are read back whole."""
    path = os.path.join(tmp, "many.indx")
    for n, arity in ((65537, 1), (70000, 2)):
        ent = {((k,) if arity == 1 else (k % 300 + 1, k // 300)): np.array([k], dtype=U32) for k in range(1, n + 1)}
        ex = {"entries": "%d entries %s, each holding its own number as the only row id" % (n, "{(k,): [k]}" if arity == 1 else "{(k % 300 + 1, k // 300): [k]}"), "common": 0}
        try:
            with open(path, "wb") as f:
                IndxIO.save(f, ent, 0, U32)
            with open(path, "rb") as f:
                got, gcommon, gdtype = IndxIO.load(f)
            ok = gcommon == 0 and len(got) == len(ent) and list(got.keys()) == list(ent.keys()) and all(got[k].tolist() == v.tolist() for k, v in list(ent.items())[:: 997])
            MON.check("indxio.roundtrip/many-entries-all-read-back", ok, lambda: "saved %d entries, loaded %d (common %r)" % (len(ent), len(got), gcommon), ex, {"entries": n})
            if which in (None, "C11"):
                with open(path, "rb") as f:
                    data = f.read()
                want = spec_indx.encode([(k, v.tolist()) for k, v in ent.items()], 0)
                MON.check("indxio.IndxIO.save/bytes-equal-independent-encoder", data == want, lambda: "file of %d bytes differs from the independent encoding (%d bytes)" % (len(data), len(want)), ex, {"entries": n})
        except Exception as e:  # noqa
            MON.check("indxio.roundtrip/many-entries-all-read-back", "raised %s: %s" % (type(e).__name__, e), None, ex, {"entries": n})
        st["large"] += 1
    if os.path.exists(path):
        os.remove(path)


def check_indexes(IndxIO, iindex, tier, shard, nshards, tmp, st):
    path = os.path.join(tmp, "i.indx")
    V = (0, 1, 2, 300)
    fam = list(states1(3 if tier != "thorough" else 4, V)) + list(states2(2, 2, (0, 1, 70000)))
    for j, (d, c) in enumerate(fam):
        if j % nshards != shard:
            continue
        idx = mk(d, c)
        ex = {"dense": d.tolist(), "common": c}
        ob = "indxio.roundtrip/rebuilt-index-equal-and-valid"
        try:
            with open(path, "wb") as f:
                IndxIO.save(f, idx, idx.common, idx.rowid_dtype)
            with open(path, "rb") as f:
                e2, c2, dt2 = IndxIO.load(f)
            re = iindex(e2, c2, idx.shape)
            re.validate(True)
            ok = (not wf(re)) and re.common == c and np.array_equal(view(re), d) and bool(re == idx)
            MON.check(ob, ok, lambda: "rebuilt %r" % (dict(re),), ex)
        except Exception as e:  # noqa
            MON.check(ob, "raised %s: %s" % (type(e).__name__, e), None, ex)
        st["indexes"] += 1


def work(args):
    tier, shard, nshards = args[:3]
    which = args[3] if len(args) > 3 else None
    from .. import env

    env.import_catii()
    from catii.indxio import IndxIO
    from catii import iindex

    tmp = tempfile.mkdtemp(prefix="cvindx-")
    st = {"files": 0, "cuts": 0, "foreign": 0, "large": 0, "indexes": 0}
    samples = []
    try:
        j = 0
        for ent, common in files(tier):
            if j % nshards == shard:
                check_file(IndxIO, ent, common, tmp, st, which)
                if len(samples) < 2 and ent:
                    samples.append({"entries": [[list(k), r] for k, r in ent], "common": common})
            j += 1
        for ent, common in foreign_cases(tier):
            if j % nshards == shard and which in (None, "C11"):
                check_foreign(IndxIO, ent, common, tmp, st)
            if j % nshards == shard and which in (None, "C12"):
                check_foreign_cuts(IndxIO, ent, common, tmp, st)
            j += 1
        if shard == 0 and which in (None, "C11"):
            check_large_totals(IndxIO, tmp, st)
        if shard == 1 % nshards and which in (None, "C10", "C12"):
            check_huge(IndxIO, tmp, st, which)
        if shard == 4 % nshards and which in (None, "C10", "C11"):
            check_many_entries(IndxIO, tmp, st, which)
        if which in (None, "C10"):
            check_indexes(IndxIO, iindex, tier, shard, nshards, tmp, st)
    finally:
        shutil.rmtree(tmp, ignore_errors=True)
    out = MON.dump()
    out.update(driver_calls=st["files"] + st["foreign"] + st["large"] + st["indexes"] + st["cuts"],
               nontrivial=st["files"] + st["foreign"] + st["large"] + st["indexes"], samples=samples, jobs=j, stats=st)
    return out


def property_of(ob):
    if "torn-file-rejected" in ob:
        return "C12"
    if ob.startswith("indxio.roundtrip/"):
        return "C10"
    return "C11"
