"""Exhaustive small-scope driver for the conversion contracts (C01; DESIGN §4.3, §6 C01).

Families (each job = one array / one index state with ALL its option combinations):

  small     every 1-D array N <= 3 over {-1,0,1,2} and every 2-D array N <= 2, C <= 2 over {0,1,2}
            (N = 0: shapes (0,), (0,1), (0,2)) x common in {omitted, each present value, one absent value}
            x counts omitted / exact x mapping omitted / EVERY map of (values U common) into {5,6,300}
            (injective and many-to-one) / every permutation of the keys (maps onto existing values)
  boundary  small arrays holding 127/128, 255/256, 32767/32768, 65535/65536, 2^31-1/2^31, 2^32-1/2^32, 2^40 and
            -1, -128/-129, -32768/-32769, -2^31/-2^31-1, -2^40 in several input dtypes; a value >= 2^20
            reaches from_array only with `counts=` given or a negative value present
            (numpy.bincount allocates 8*max bytes; asserted before every call)
  big       the smallest arrays with >= 5 distinct values (5..8 cells); 79/80/100/120-row (1-D) and 39/40/100-row x 2
            (2-D) arrays of a filler plus a payload of 4 uncommon cells placed on every 4-subset of 5 candidate cells
            with every ordered choice of 4 different other values (>= 5 distinct values, <= 5 % uncommon: the row-scan
            strategy; one row below the switch: the where strategy), 100/120 all-distinct values (row-scan with an
            absent common) and 0/1-alternating arrays folded by a mapping, x the same options (mappings: an evenly
            spaced subset of the 3^k maps into {5,6,300} plus fixed shift / rotation / fold maps)
  states    every well-formed index state (built with mk, not through from_array) handed to to_array with
            default dtype, dtype=int, the tightest sufficient dtype, and every total mapping into {-2,5,300}

The round trip to_array(from_array(a, **opts)) == mapped a is stated directly with MON.check for
dtype=int, the default dtype and a value mapping on the way back.  Which construction strategy a call
selects is computed from the inputs (contracts_convert.path_of) and recorded in
MON.calls["iindexes.iindex.from_array#path: ..."] (merged over shards; c01.run demands every feasible one).
"""
import itertools

import numpy as np

from .. import core
from . import contracts_convert as CC
from .contract import MON
from .speclib import mk, states1, states2

PATH_PREFIX = CC.QF + "#path: "
COUNTING_PREFIX = CC.QF + "#counting: "
BINCOUNT_LIMIT = 2 ** 20

BOUND = [127, 128, 255, 256, 32767, 32768, 65535, 65536, 2 ** 31 - 1, 2 ** 31, 2 ** 32 - 1, 2 ** 32, 2 ** 40,
         -1, -128, -129, -32768, -32769, -2 ** 31, -2 ** 31 - 1, -2 ** 40]
TARGET = (5, 6, 300)
BACK_TARGET = (-2, 5, 300)


def scopes(tier):
    if tier == "thorough":
        return dict(small1=[(4, (-1, 0, 1, 2, 300, 70000)), (5, (-1, 0, 1, 300))], small2=(3, 2, (0, 1, 2)), max_maps=60,
                    big1=(79, 80, 99, 100, 101, 120), big2=(39, 40, 50, 100), big_cand=6, big_payload=(4, 5), big_maps=12, big_allperms=False, big_commons=4,
                    alldistinct=(100, 101, 120),
                    st1=[(4, (-1, 0, 1, 2, 300, 70000)), (5, (-1, 0, 1, 300))], st2=(3, 2, (0, 1, 2)), st_maps=100)
    return dict(small1=[(3, (-1, 0, 1, 2))], small2=(2, 2, (0, 1, 2)), max_maps=200,
                big1=(79, 80, 100, 120), big2=(39, 40, 100), big_cand=5, big_payload=(4,), big_maps=9, big_allperms=False, big_commons=3,
                alldistinct=(100, 120),
                st1=[(3, (-1, 0, 1, 2))], st2=(2, 2, (0, 1, 2)), st_maps=90)


def _spread(seq, k):
    seq = list(seq)
    if len(seq) <= k:
        return seq
    step = len(seq) / float(k)
    return [seq[int(i * step)] for i in range(k)]


def _arrays1(N, vals):
    for n in range(N + 1):
        for rows in itertools.product(vals, repeat=n):
            yield np.array(rows, dtype=np.int64)


def _arrays2(N, C, vals):
    for n in range(N + 1):
        for c in range(1, C + 1):
            for cells in itertools.product(vals, repeat=n * c):
                yield np.array(cells, dtype=np.int64).reshape(n, c)


def _fit(lo, hi):
    for dt in (np.uint8, np.int8, np.uint16, np.int16, np.uint32, np.int32, np.uint64, np.int64):
        ii = np.iinfo(dt)
        if ii.min <= lo and hi <= ii.max:
            return np.dtype(dt)
    raise core.CheckerBroken("no integer dtype for [%r, %r]" % (lo, hi))


# ----------------------------------------------------------------------------- job lists


def big_arrays(sc):
    """filler 0 plus a payload placed on every k-subset of a few candidate cells with every ordered choice of distinct other values."""
    out = []
    # the smallest arrays with >= 5 distinct values (where strategy above the len(counts) < 5 shortcut)
    for cells, shape in (([0, 1, 2, 3, 4], (5,)), ([4, 3, 2, 1, 0, 0, 0], (7,)), ([-1, 0, 1, 2, 3], (5,)), ([0, 1, 2, 3, 4, 5], (6,)),
                         ([0, 1, 2, 3, 4, 5], (3, 2)), ([0, 1, 2, 3, 4, 0, 0, 0], (4, 2)), ([0, -1, 2, 300, 4, 0], (3, 2))):
        out.append(np.array(cells, dtype=np.int64).reshape(shape))
    valsets = ((1, 2, 3, 4, 9), (-1, 1, 2, 300, 7))
    for nd, sizes in ((1, sc["big1"]), (2, sc["big2"])):
        for n in sizes:
            if nd == 1:
                cand = [(0,), (1,), (n // 2,), (n - 2,), (n - 1,), (n // 3,)][:sc["big_cand"]]
                shape = (n,)
            else:
                cand = [(0, 0), (0, 1), (n // 2, 1), (n - 1, 0), (n - 1, 1), (1, 0)][:sc["big_cand"]]
                shape = (n, 2)
            for k in sc["big_payload"]:
                for pos in itertools.combinations(cand, k):
                    for vi, vs in enumerate(valsets):
                        # every ordered assignment of 4 values for the first value set; rotations otherwise (second set has a negative: unique fallback)
                        perms = list(itertools.permutations(vs[:k])) if ((vi == 0 and k == 4) or sc["big_allperms"]) else \
                            [vs[i:k] + vs[:i] for i in range(k)]
                        for perm in perms:
                            a = np.zeros(shape, dtype=np.int64)
                            for p, v in zip(pos, perm):
                                a[p] = v
                            out.append(a)
    for n in sc["alldistinct"]:
        out.append(np.arange(n, dtype=np.int64)[::-1].copy())
        out.append(np.arange(2 * (n // 2), dtype=np.int64).reshape(n // 2, 2))
        b = np.arange(n, dtype=np.int64) - 3  # negatives: the unique fallback
        out.append(b)
    # many distinct values WITH repeats (17-40 distinct, dense: the numpy.where strategy well above its small-input shortcut)
    for n, k in ((19, 17), (24, 17), (48, 24), (90, 40)):
        a = np.array([(i * 7 + (i // 5)) % k for i in range(n)], dtype=np.int64)
        out.append(a)
        out.append(a[::-1].copy() - 2)  # with negatives: the unique() counting fallback
        if n % 2 == 0:
            out.append(a.reshape(n // 2, 2))
    # many raw values mapped onto the common one: row-scan with a many-to-one mapping and few uncommon cells
    c = np.array(([0, 1] * 60)[:116] + [2, 3, 4, 5], dtype=np.int64)
    out.append(c)
    out.append(c.reshape(60, 2))
    return out


def boundary_arrays():
    out = []
    for b in BOUND:
        for cells, shape in (([b], (1,)), ([b, 0, b], (3,)), ([b, 0, 1, b], (2, 2)), ([b, -1], (2,)), ([b, b - 1, b + 1], (3,))):
            lo, hi = min(cells), max(cells)
            dts = [np.dtype(np.int64), _fit(lo, hi)]
            if lo >= 0:
                dts.append(np.dtype(np.uint64))
            seen = set()
            for dt in dts:
                if dt in seen:
                    continue
                seen.add(dt)
                out.append(np.array(cells, dtype=dt).reshape(shape))
    return out


def jobs(tier):
    sc = scopes(tier)
    js = []
    dup = set()
    for N, vals in sc["small1"]:
        for a in _arrays1(N, vals):
            if a.tobytes() not in dup:
                dup.add(a.tobytes())
                js.append(("small", a))
    N, C, vals = sc["small2"]
    js += [("small", a) for a in _arrays2(N, C, vals)]
    js += [("boundary", a) for a in boundary_arrays()]
    js += [("big", a) for a in big_arrays(sc)]
    seen = set()
    for N, vals in sc["st1"]:
        for d, c in states1(N, vals):
            key = (d.tobytes(), d.shape, c)
            if key not in seen:
                seen.add(key)
                js.append(("state", (d, c)))
    N, C, vals = sc["st2"]
    js += [("state", (d, c)) for d, c in states2(N, C, vals)]
    for b in BOUND:
        for cells, shape in (([b], (1,)), ([b, 0, b], (3,)), ([b, 0, 1, b], (2, 2)), ([b, -1], (2,)), ([], (0,)), ([], (0, 2))):
            for c in (0, b, 7):
                js.append(("state", (np.array(cells, dtype=np.int64).reshape(shape), c)))
    return sc, js


# ----------------------------------------------------------------------------- from_array + round trip


class Stats:
    def __init__(self):
        self.calls = 0
        self.nontrivial = 0
        self.samples = []

    def call(self, nontrivial, sample=None):
        self.calls += 1
        if nontrivial:
            self.nontrivial += 1
        if sample is not None and len(self.samples) < 6 and self.calls % 4999 == 1:
            self.samples.append(sample)


def _desc_call(values, opts):
    arr = np.asarray(values)
    return {"values": {"ndarray": arr.tolist(), "dtype": str(arr.dtype), "shape": list(arr.shape), "as_list": not isinstance(values, np.ndarray)},
            "counts": CC.pairs(opts.get("counts")), "common": opts.get("common"), "mapping": CC.pairs(opts.get("mapping"))}


def undesc_call(d):
    v = d["values"]
    arr = np.array(v["ndarray"], dtype=v["dtype"]).reshape(v["shape"])
    values = arr.tolist() if v.get("as_list") else arr
    opts = {}
    if d.get("counts") is not None:
        opts["counts"] = CC.unpairs(d["counts"])
    if d.get("common") is not None:
        opts["common"] = int(d["common"])
    if d.get("mapping") is not None:
        opts["mapping"] = CC.unpairs(d["mapping"])
    return values, opts


def _back_map(v):
    return 2 * v - 3  # injective; negative for v <= 1


RT = CC.QF + "/roundtrip-"
RT_NAMES = {
    "int": RT + "to_array(dtype=int)-equals-mapped-input",
    "default": RT + "to_array(default-dtype)-equals-mapped-input",
    "map-int": RT + "to_array(mapping,dtype=int)-equals-composed-mapping",
    "map-default": RT + "to_array(mapping,default-dtype)-equals-composed-mapping",
}


def roundtrip(values, opts, st=None):
    """from_array(values, **opts), then every way back; the relational clauses are stated here."""
    from catii import iindex

    arr64 = np.asarray(values)
    arr64 = np.zeros(arr64.shape, dtype=np.int64) if arr64.size == 0 else arr64.astype(np.int64)
    counts, common, mapping = opts.get("counts"), opts.get("common"), opts.get("mapping")
    if counts is None and arr64.size and CC.counting_of(values, None) == "bincount" and int(arr64.max()) >= BINCOUNT_LIMIT:
        raise core.CheckerBroken("driver would send max %d to numpy.bincount" % int(arr64.max()))
    p = CC.path_of(arr64, counts is not None, common, mapping)
    MON.calls[PATH_PREFIX + CC.path_key(p)] += 1
    MON.calls[COUNTING_PREFIX + CC.counting_of(values, counts)] += 1
    desc = _desc_call(values, opts)
    if st is not None:
        st.call(arr64.size > 0, {"op": "from_array+to_array", "call": desc} if arr64.size <= 16 else None)
    try:
        r = iindex.from_array(values, **opts)
    except Exception:
        return None  # recorded by from_array/no-raise
    exp = arr64 if mapping is None else np.array([mapping[v] for v in arr64.reshape(-1).tolist()], dtype=np.int64).reshape(arr64.shape)
    keys = set(exp.reshape(-1).tolist()) | {k[0] for k in dict.keys(r) if type(k) is tuple and k} | {r.common}
    back = {int(v): _back_map(int(v)) for v in keys}
    exp_back = np.array([back[v] for v in exp.reshape(-1).tolist()], dtype=np.int64).reshape(exp.shape)
    base_cls = {"mapping": CC.mapping_kind(mapping, sorted(set(arr64.reshape(-1).tolist()))), "common": p["common"],
                "strategy": p["strategy"], "distinct": p["distinct"], "ndim": p["ndim"], "counts_given": counts is not None}
    for kind, kw, want, fill in (("int", {"dtype": int}, exp, r.common), ("default", {}, exp, r.common),
                                 ("map-int", {"mapping": back, "dtype": int}, exp_back, back[r.common]),
                                 ("map-default", {"mapping": back}, exp_back, back[r.common])):
        try:
            out = r.to_array(**kw)
        except Exception as e:
            ok = "to_array(%s) of the from_array result raised %s: %s" % (
                ", ".join("%s=%s" % (k, "int" if v is int else "{v: 2*v-3}") for k, v in kw.items()), type(e).__name__, str(e)[:120])
        else:
            if tuple(out.shape) != tuple(want.shape):
                ok = "round trip shape %r, input shape %r" % (out.shape, want.shape)
            elif out.tolist() != want.tolist():
                ok = "round trip gave %r, required %r" % (out.tolist(), want.tolist())
            else:
                ok = True
        if ok is not True:
            neg = bool(want.size and int(want.min()) < 0) or fill < 0
            MON.check(RT_NAMES[kind], ok, None, {"from_array": desc, "back": kind},
                      dict(base_cls, back=kind, default_dtype="dtype" not in kw, negative_value=neg))
        else:
            MON.check(RT_NAMES[kind], True)
    return r


def _commons(arr, cap=6, absent=(7,)):
    """omitted, every present value (at most `cap`, spread, when there are many), one absent value."""
    present = sorted(set(arr.reshape(-1).tolist()))
    ab = next(x for x in absent + (8, 11, 13, 1000003) if x not in present)
    return [None] + _spread(present, cap) + [ab]


def _exact_counts(arr):
    vals, cnt = np.unique(arr.reshape(-1), return_counts=True)
    return dict(zip(vals.tolist(), cnt.tolist()))


def _mappings(arr, common, cap):
    """None; every map of (values U common) -> TARGET (injective and many-to-one; spread evenly over the enumeration when
    there are more than `cap`); every permutation of the keys (maps onto existing values); an injective shift; maps that
    fold the most frequent value together with the common / with everything but one value; one with an unused extra key."""
    flat = arr.reshape(-1).tolist()
    keys = sorted(set(flat) | ({common} if common is not None else set()))
    out, seen = [], set()

    def add(m):
        t = tuple(sorted(m.items()))
        if t not in seen:
            seen.add(t)
            out.append(m)

    if not keys:
        for m in ({0: 5}, {0: 6, 1: 5}, {7: 300}):
            add(m)
        return [None] + out
    if len(keys) <= 8:
        allmaps = [dict(zip(keys, img)) for img in itertools.product(TARGET, repeat=len(keys))]
    else:  # too many keys to enumerate: constant, residue and block maps
        allmaps = [{k: TARGET[0] for k in keys}, {k: TARGET[k % 3] for k in keys}, {k: TARGET[(i * 3) // len(keys)] for i, k in enumerate(keys)}]
    for m in _spread(allmaps, cap):
        add(m)
    if len(keys) <= 4:
        for p in itertools.permutations(keys):
            add(dict(zip(keys, p)))
    else:
        for i in (1, len(keys) // 2, len(keys) - 1):
            add(dict(zip(keys, keys[i:] + keys[:i])))
    add({k: k + 10 for k in keys})  # injective shift
    if flat:
        top = max(sorted(set(flat)), key=flat.count)
        rest = [k for k in keys if k != top and k != common]
        m = {k: TARGET[1 + i % 2] for i, k in enumerate(rest)}
        m[top] = TARGET[0]
        if common is not None:
            m[common] = TARGET[0]
        add(m)  # most frequent value and the common fold together, the others stay apart
        if rest:
            m = {k: TARGET[0] for k in keys}
            m[rest[-1]] = TARGET[2]
            add(m)  # everything but one value folds together
    m = dict(allmaps[len(allmaps) // 2])
    m[99 if 99 not in keys else 1000001] = 7
    add(m)
    return [None] + out


def do_from_array(arr, sc, st, cap, list_variant=True, ncommon=6):
    for common in _commons(arr, ncommon):
        maps = _mappings(arr, common, cap)
        for mp in maps:
            if arr.size == 0 and common is None and not mp:
                continue  # documented ValueError (requires)
            for cg in (False, True):
                opts = {}
                if common is not None:
                    opts["common"] = common
                if mp is not None:
                    opts["mapping"] = dict(mp)
                if cg:
                    opts["counts"] = _exact_counts(arr)
                elif arr.size and int(arr.min()) >= 0 and int(arr.max()) >= BINCOUNT_LIMIT:
                    continue  # would reach numpy.bincount with a huge maximum (resource hazard, DESIGN §6 C01)
                roundtrip(arr.copy(), opts, st)
        if list_variant and arr.ndim == 1 and (arr.size or common is not None):
            # plain Python list input (numpy.asarray([]) is float64: the zero-row list)
            lst = arr.tolist()
            if not (lst and min(lst) >= 0 and max(lst) >= BINCOUNT_LIMIT):
                roundtrip(lst, {} if common is None else {"common": common}, st)
                if maps[1:]:
                    roundtrip(lst, dict({} if common is None else {"common": common}, mapping=dict(maps[1])), st)


def do_boundary(arr, sc, st):
    vals = sorted(set(arr.reshape(-1).tolist()))
    commons = [None, vals[-1], vals[0], 7 if 7 not in vals else 11]
    for common in dict.fromkeys(commons):
        keys = sorted(set(vals) | ({common} if common is not None else set()))
        maps = [None, {k: k + 1 for k in keys}, {k: k - 1 for k in keys}, {k: vals[-1] for k in keys}, {k: -k - 1 for k in keys},
                {k: BOUND[(i * 5 + len(keys)) % len(BOUND)] for i, k in enumerate(keys)}]
        for mp in maps:
            for cg in (False, True):
                opts = {}
                if common is not None:
                    opts["common"] = common
                if mp is not None:
                    opts["mapping"] = dict(mp)
                if cg:
                    opts["counts"] = _exact_counts(arr.astype(np.int64))
                elif int(arr.min()) >= 0 and int(arr.max()) >= BINCOUNT_LIMIT:
                    continue
                roundtrip(arr.copy(), opts, st)


# ----------------------------------------------------------------------------- to_array on every well-formed state


def do_state(d, c, sc, st):
    listed = sorted(set(d.reshape(-1).tolist()) - {c})
    keys = listed + [c]
    maps = [None] + _spread([dict(zip(keys, img)) for img in itertools.product(BACK_TARGET, repeat=len(keys))], sc["st_maps"])
    m = {k: k for k in keys}
    m[99] = 70000  # an unused key with a wider value only widens the default dtype
    maps.append(m)
    maps.append({k: -k - 1 for k in keys})
    big = max(abs(k) for k in keys) >= 2 ** 15
    if big:
        maps = maps[:4] + maps[-2:] + [{k: BOUND[(i * 7 + 3) % len(BOUND)] for i, k in enumerate(keys)}]
    for mp in maps:
        written = keys if mp is None else [mp[k] for k in keys]
        tight = _fit(min(written), max(written))
        for dt in (None, int, tight):
            x = mk(d, c)
            kw = {}
            if mp is not None:
                kw["mapping"] = dict(mp)
            if dt is not None:
                kw["dtype"] = dt
            try:
                x.to_array(**kw)
            except Exception:
                pass  # recorded by to_array/no-raise
            st.call(d.size > 0, {"op": "to_array", "state": {"dense": d.tolist(), "common": c}, "mapping": CC.pairs(mp),
                                 "dtype": None if dt is None else str(np.dtype(dt))} if d.size <= 8 else None)


# ----------------------------------------------------------------------------- shard


def _signature(obligation, what, cls):
    """Coarse failure class: exception type (no-raise) and the attributes the known defects differ in."""
    exc = what.split()[1].rstrip(":") if what.startswith("raised ") else ("raised" if " raised " in what else "")
    cls = cls or {}
    return (exc, cls.get("uncommon_ratio_zero"), cls.get("mapping") == "many-to-one", cls.get("default_dtype"), cls.get("negative_value"),
            cls.get("common") == "absent" and cls.get("mapping") == "none")


def _class_aware_keep(mon, per_class=1, classes=12):
    """The monitor keeps the first 3 failures of an obligation, and the parent the first 3 it receives: thousands of failures
    of one defect would hide another defect failing the same clause (e.g. from_array/no-raise).  Keep the first failure of
    every distinct failure class instead and hand them over with distinct classes first (counts are unaffected)."""
    from .contract import Failure

    kept = {}  # obligation -> {signature: [Failure]}

    def record(obligation, what, input, cls=None):
        mon.fail_counts[obligation] += 1
        by = kept.setdefault(obligation, {})
        sig = _signature(obligation, what or "", cls)
        if sig in by:
            if len(by[sig]) < per_class + 2:
                by[sig].append(Failure(obligation, what, input, cls))
        elif len(by) < classes:
            by[sig] = [Failure(obligation, what, input, cls)]

    def flush():
        mon.failures = []
        for ob, by in kept.items():
            rounds = max(len(v) for v in by.values())
            for i in range(rounds):  # round-robin over the classes: one of each first
                for v in by.values():
                    if i < len(v):
                        mon.failures.append(v[i])

    mon.record = record
    return flush


def work(args):
    """One shard. args = (tier, shard, nshards)."""
    tier, shard, nshards = args
    from .. import env

    env.import_catii()
    CC.install()
    flush = _class_aware_keep(MON)
    sc, js = jobs(tier)
    st = Stats()
    j = 0
    for fam, item in js:
        if j % nshards == shard:
            if fam == "small":
                do_from_array(item, sc, st, sc["max_maps"])
            elif fam == "big":
                do_from_array(item, sc, st, sc["big_maps"], list_variant=False, ncommon=sc["big_commons"])
            elif fam == "boundary":
                do_boundary(item, sc, st)
            else:
                do_state(item[0], item[1], sc, st)
        j += 1
    flush()
    out = MON.dump()
    out.update(driver_calls=st.calls, nontrivial=st.nontrivial, samples=st.samples, jobs=j)
    return out
