"""Exhaustive small-scope driver for the C18 contracts (contracts_stats).

Data are enumerated exhaustively where the space is small (every fact vector over the value grid
{0, 1, 2.5, -3, NaN} for N <= 4 rows; every (fact, weight) pair for N <= 3; every (N, 2) fact matrix
for N <= 3; every dimension assignment for N <= 4 and extents <= 3); the remaining factors (input
form of fact and weights, policy, probability, report format, cube layout) are combined with the
data in a covering design: policy and probability in full product, the other factors rotated with
the running job number so that every pair of factor levels meets many data classes.  No randomness.
Jobs are dealt to the shards round-robin by job number.
"""
import itertools

import numpy as np

from . import contracts_stats
from .contract import MON

NaN = float("nan")
GRID = (0.0, 1.0, 2.5, -3.0, NaN)
WGRID = (0.0, 1.0, 2.5, NaN)
PROBS = (0, 0.1, 0.25, 0.5, 0.9, 1)
FORMATS = (NaN, (0, False), (7.5, False))
GARBAGE = (99.0, NaN, -7.5)
POLICIES = (False, True)


def scopes(tier):
    if tier == "thorough":
        return dict(NA=5, NW=4, NW4=5, W4=24, NM=3, NM4=True, MGRID4=(0.0, 1.0, 2.5, NaN), ND=4, POOL=12, BIG=3, TYPES=4000, DTYPES=True)
    return dict(NA=4, NW=3, NW4=4, W4=8, NM=3, NM4=True, MGRID4=(1.0, 2.5, NaN), ND=4, POOL=5, BIG=1, TYPES=500, DTYPES=False)


def _spread(seq, k):
    seq = list(seq)
    if len(seq) <= k:
        return seq
    step = len(seq) / float(k)
    return [seq[int(i * step)] for i in range(k)]


# ----------------------------------------------------------------------------- input forms


def fact_form(vals, form, j):
    """vals: float array with NaN at the missing rows -> NaN-marked array or (values, validity) with garbage under False."""
    vals = np.array(vals, dtype=float)
    if form == "nan":
        return vals
    ok = ~np.isnan(vals)
    v = vals.copy()
    flat, okf = v.reshape(-1), ok.reshape(-1)
    for i in range(flat.size):
        if not okf[i]:
            flat[i] = GARBAGE[(i + j) % 3]
    return (v, ok)


def weight_form(w, form, j):
    if w is None:
        return None
    return fact_form(w, "nan" if form == "array" else "pair", j + 1)


def forms_of(w):
    if w is None:
        return [("nan", "none"), ("pair", "none")]
    return [("nan", "array"), ("pair", "pair"), ("nan", "pair"), ("pair", "array")]


# ----------------------------------------------------------------------------- cube layouts


def one_cell_layouts(N):
    """layouts whose first cell holds every row: zero dimensions, one all-zero dimension (extent 1 / 2)."""
    z = np.zeros(N, dtype=np.int64)
    return [([], ()), ([z], (1,)), ([z], (2,))]


def layouts(N, sc):
    """every dimension assignment in scope for N rows: (dims, interacting_shape | None = inferred)."""
    out = [([], ())]
    for E in (2, 3):
        for a in itertools.product(range(E), repeat=N):
            out.append(([np.array(a, dtype=np.int64)], (E,)))
    for (E1, E2) in ((2, 2), (2, 3), (3, 2)):
        al = list(itertools.product(range(E1 * E2), repeat=N))
        for a in _spread(al, 260 if (E1, E2) == (2, 2) else 60):
            a = np.array(a, dtype=np.int64)
            out.append(([a // E2, a % E2], (E1, E2)))
    if N > 0:
        for a in _spread(itertools.product(range(3), repeat=N), 12):  # inferred shape
            out.append(([np.array(a, dtype=np.int64)], None))
        for a in _spread(itertools.product(range(4), repeat=N), 12):
            a = np.array(a, dtype=np.int64)
            out.append(([a // 2, a % 2], None))
    # extra axes (C13 decides their order; here: the statistics see the right rows per block)
    for a in _spread(itertools.product(range(2), repeat=2 * N), 24):
        d2 = np.array(a, dtype=np.int64).reshape(N, 2)
        out.append(([d2], (2,)))
        out.append(([d2[:, 0].copy(), d2], (2, 2)))
    if sc["DTYPES"]:
        for dt in (np.int8, np.uint8, np.int16, np.uint16, np.int32, np.uint32, np.uint64):
            for a in _spread(itertools.product(range(6), repeat=N), 6):
                a = np.array(a, dtype=np.int64)
                out.append(([(a // 3).astype(dt), (a % 3).astype(dt)], (2, 3)))
    return out


# ----------------------------------------------------------------------------- data


def weight_vectors(N, k):
    al = [w for w in itertools.product(WGRID, repeat=N)]
    return [np.array(w, dtype=float) for w in _spread(al, k)]


def pool(N, sc):
    """a spread of (fact, weights) items with N rows for the layout family: (N,) and (N,2) facts."""
    k = sc["POOL"] * 6
    wv = [None] + weight_vectors(N, 5) + [np.array(([2.0, 0.0, 0.0, 1.0, 0.5, 0.0])[:N])]
    items = []
    for i, f in enumerate(_spread(itertools.product(GRID, repeat=N), k)):
        items.append((np.array(f, dtype=float), wv[i % len(wv)]))
    for i, f in enumerate(_spread(itertools.product(GRID, repeat=2 * N), k)):
        items.append((np.array(f, dtype=float).reshape(N, 2), wv[(i + 3) % len(wv)]))
    return items


def jobs(sc):
    """Deterministic job stream: (family, layout, fact values, weight values, extra)."""
    # A: every (N,) fact vector, unweighted, in a cell that holds all rows
    for N in range(sc["NA"] + 1):
        lay = one_cell_layouts(N)
        for i, f in enumerate(itertools.product(GRID, repeat=N)):
            for L in (lay if N <= 4 else [lay[i % 3]]):
                yield ("A", L, np.array(f, dtype=float), None, None)
    # W: every (fact, weight) pair for N <= NW; for larger N every fact with a spread of weight vectors
    for N in range(1, sc["NW4"] + 1):
        lay = one_cell_layouts(N)
        ws = [np.array(w, dtype=float) for w in itertools.product(WGRID, repeat=N)] if N <= sc["NW"] else (
            weight_vectors(N, sc["W4"] - 2) + [np.array(([2.0, 0.0, 0.0, 1.0, 0.0])[:N]), np.array(([0.0, 0.0, 1.0, 2.5, 1.0])[:N])])
        i = 0
        for f in itertools.product(GRID, repeat=N):
            for w in ws:
                i += 1
                yield ("W", lay[i % 3], np.array(f, dtype=float), w, None)
    # D: every dimension assignment with a rotating spread of data
    for N in range(sc["ND"] + 1):
        items = pool(N, sc)
        for i, L in enumerate(layouts(N, sc)):
            for t in range(sc["POOL"]):
                f, w = items[(i * 7 + t * 13) % len(items)]
                yield ("D", L, f, w, None)
    # M: every (N,2) fact matrix (covariance / correlation), one cell and a two-cell split
    for N in range(sc["NM"] + 2):
        grid = GRID if N <= sc["NM"] else sc["MGRID4"]
        if N > sc["NM"] and not sc["NM4"]:
            continue
        z = np.zeros(N, dtype=np.int64)
        lays = [([], ()), ([z], (1,)), ([np.array(([0, 0, 0, 1, 1])[:N], dtype=np.int64)], (2,)), ([np.array(([1, 0, 1, 0, 1])[:N], dtype=np.int64), z], (2, 1))]
        wv = weight_vectors(N, 7) + [np.ones(N)]
        for i, f in enumerate(itertools.product(grid, repeat=2 * N)):
            yield ("M", lays[i % len(lays)], np.array(f, dtype=float).reshape(N, 2), wv[i % len(wv)], None)
    # B: cells with 3..6 rows, 2 and 3 fact columns
    cols = [np.array([1.0, 2.5, -3.0, 0.0, 1.0, 2.5]), np.array([0.0, 1.0, 1.0, -3.0, 2.5, 2.5]), np.array([2.5, 2.5, 2.5, 2.5, 2.5, 2.5]),
            np.array([-3.0, 0.0, 2.5, 1.0, 0.0, -3.0])]
    for N in (5, 6):
        lays = [([], ()), ([np.zeros(N, dtype=np.int64)], (1,)), ([np.array(([0, 1, 0, 0, 1, 0])[:N], dtype=np.int64)], (2,)),
                ([np.array(([0, 0, 1, 1, 1, 0])[:N], dtype=np.int64), np.array(([0, 1, 0, 0, 0, 0])[:N], dtype=np.int64)], (2, 2))]
        wv = [None, np.ones(N), np.array(([2.0, 0.0, 0.5, 1.0, 0.0, 3.0])[:N]), np.array(([1.0, NaN, 2.5, 1.0, 0.0, 2.0])[:N])]
        i = 0
        for K in (1, 2, 3):
            for pick in itertools.permutations(range(4), K):
                base = np.stack([cols[c][:N] for c in pick], axis=1)
                holes = [()] + [(h,) for h in range(N * K)] + list(_spread(itertools.combinations(range(N * K), 2), 12 * sc["BIG"]))
                for hs in holes:
                    f = base.copy().reshape(-1)
                    f[list(hs)] = NaN
                    f = f.reshape(N, K) if K > 1 else f.reshape(N)
                    i += 1
                    yield ("B", lays[i % len(lays)], f, wv[i % len(wv)], None)
    # S: numerically hostile data (added after a seeded one-pass variance and an isclose() weight guard were missed):
    #    a large offset with a small spread (epoch seconds differing by under a minute), and weights on tiny / huge scales
    big = 1.7e9
    offs = [(0.0, 30.0, 59.0), (0.0, 1.0, 2.5, 59.0), (7.0, 7.0, 7.0, 59.0, 0.0), (0.0, 59.0), (12.0, 0.0, 59.0, 30.0, 45.0, 3.0)]
    wsc = [None, 2.0 ** -33, 1e-10, 2.0 ** 40]
    wbase = np.array([1.0, 2.0, 0.5, 1.0, 3.0, 2.0])
    for o in offs:
        N = len(o)
        lays = [([], ()), ([np.zeros(N, dtype=np.int64)], (1,)), ([np.array(([0, 1, 0, 0, 1, 0])[:N], dtype=np.int64)], (2,))]
        for base in (big + np.array(o), np.array(o)):
            for sc_ in wsc:
                w = None if sc_ is None else sc_ * wbase[:N]
                for L in lays:
                    yield ("B", L, base.copy(), w, None)
                    yield ("B", L, np.stack([base, base[::-1] * 1.0 + 1.0], axis=1), w, None)
    # L: medium-size data (11-48 rows per call, cells of 5-20 rows): code that only engages above a size threshold
    #    (bincount vs bins() switches, chunked quantiles, caches) is out of reach of the exhaustive tiny families
    xs = [20261005]

    def nxt(m):
        xs[0] = (xs[0] * 48271) % 2147483647
        return xs[0] % m

    for N in (11, 24, 48):
        for variant in range(3):
            f = np.array([GRID[nxt(4)] if variant != 1 else float(nxt(97)) / 7.0 for _ in range(N)], dtype=float)
            if variant:
                for h in range(0, N, 5 + variant):
                    f[h] = NaN
            f2 = np.stack([f, np.array([float(nxt(50)) / 3.0 for _ in range(N)]), f[::-1] * 2.0], axis=1)
            w = (None, np.array([float(nxt(5)) * 0.7 for _ in range(N)]), np.array([(NaN if nxt(9) == 0 else 0.1 * (1 + nxt(6))) for _ in range(N)]))[variant]
            d1 = np.array([nxt(3) for _ in range(N)], dtype=np.int64)
            d2 = np.array([nxt(2) for _ in range(N)], dtype=np.int64)
            for L in (([], ()), ([d1], (3,)), ([d1, d2], (3, 2)), ([np.zeros(N, dtype=np.int64)], (2,))):
                yield ("B", L, f.copy(), w, None)
                yield ("B", L, f2[:, :2].copy(), w, None)
                yield ("B", L, f2.copy(), None, None)
    # L2: 64+ rows over 9-12 cells, some of them empty (argsort/bincount style re-implementations of bins() live here)
    for N in (64, 90):
        f = np.array([float(nxt(50)) / 4.0 for _ in range(N)], dtype=float)
        f[::11] = NaN
        f2 = np.stack([f, np.array([float(nxt(40)) for _ in range(N)]), f[::-1].copy()], axis=1)
        w = np.array([0.1 * (1 + nxt(7)) for _ in range(N)])
        da = np.array([nxt(3) for _ in range(N)], dtype=np.int64)
        db = np.array([(0, 1, 3)[nxt(3)] for _ in range(N)], dtype=np.int64)  # category 2 of 4 never occurs: empty cells in the middle
        flat = np.array([(0, 1, 2, 4, 5, 7, 8)[nxt(7)] for _ in range(N)], dtype=np.int64)  # 9 cells, 3, 6 empty
        for L in (([da, db], (3, 4)), ([flat], (9,)), ([db, da], (4, 3))):
            for w_ in (None, w):
                yield ("B", L, f.copy(), w_, None)
                yield ("B", L, f2[:, :2].copy(), w_, None)
            yield ("B", L, f2.copy(), None, None)
    # T: min / max of int facts with validity and of datetime64 facts
    dates = np.array(["2020-01-01", "2020-01-03", "2019-06-30", "NaT"], dtype="datetime64[D]")
    ints = (-3, 0, 1, 7)
    tj = []
    for N in range(0, 5):
        lays = [([], ()), ([np.zeros(N, dtype=np.int64)], (2,)), ([np.array(([0, 1, 1, 0])[:N], dtype=np.int64)], (2,)),
                ([np.array(([1, 0, 1, 1])[:N], dtype=np.int64), np.array(([0, 0, 2, 0])[:N], dtype=np.int64)], (2, 3))]
        i = 0
        for v in itertools.product(range(4), repeat=N):
            for ok in itertools.product((True, False), repeat=N):
                i += 1
                tj.append(("T", lays[i % len(lays)], np.array([ints[t] for t in v], dtype=np.int64), None, ("int", np.array(ok, dtype=bool))))
            i += 1
            tj.append(("T", lays[i % len(lays)], dates[list(v)] if N else dates[:0], None, ("datetime", None)))
    for t in _spread(tj, sc["TYPES"]):
        yield t
    # one probe per statistic: datetime64 fact with the default (float NaN) report format
    yield ("T", ([np.array([0, 0, 1], dtype=np.int64)], (2,)), dates[:3], None, ("datetime-default-format", None))


class Stats:
    def __init__(self):
        self.calls = 0
        self.nontrivial = 0
        self.samples = []

    def call(self, nontrivial, sample=None):
        self.calls += 1
        if nontrivial:
            self.nontrivial += 1
        if sample is not None and len(self.samples) < 6 and self.calls % 1999 == 1:
            self.samples.append(sample())


def _try(f):
    try:
        return True, f()
    except Exception:
        return False, None  # the contract wrapper has already recorded the raise


def _cube(L):
    from catii import xcube

    dims, shape = L
    return xcube([d.copy() for d in dims], shape)


def _go(st, L, stat, b):
    ok, cube = _try(lambda: _cube(L))
    if not ok:
        MON.check("xcubes.xcube.__init__/no-raise", False, "xcube(dims, shape) raised", {"dims": [contracts_stats.enc(d) for d in L[0]], "shape": L[1]},
                  {"stat": "constructor"})
        return
    _try(lambda: contracts_stats.call(cube, stat, b))
    st.call(contracts_stats.S.nrows_of(b["arr"]) > 0, lambda: contracts_stats.describe_call(stat, L[0], L[1], b))


def run_item(st, j, fam, L, f, w, extra):
    B = lambda arr, weights=None, p=None, ig=False, rma=NaN: {"arr": arr, "weights": weights, "probability": p, "ignore_missing": ig,  # noqa
                                                              "return_missing_as": rma}
    if fam == "T":
        kind, ok = extra
        if kind == "datetime-default-format":
            for stat in ("min", "max"):
                _go(st, L, stat, B(f, rma=NaN))
            return
        for s, stat in enumerate(("min", "max")):
            for ig in POLICIES:
                if kind == "int":
                    arr = (f, ok)
                    rma = (NaN, (-1, False), (0, False))[(j + s + ig) % 3]
                else:
                    arr = f if (j + ig) % 2 else (np.where(np.isnat(f), np.datetime64("1970-01-01"), f), ~np.isnat(f))
                    rma = (np.datetime64("NaT"), (np.datetime64("1970-01-01"), False))[(j + s) % 2]
                _go(st, L, stat, B(arr, ig=ig, rma=rma))
        if kind == "int":  # int64 facts with validity also for the float-valued statistics
            for ig in POLICIES:
                _go(st, L, "stddev", B((f, ok), ig=ig, rma=FORMATS[(j + ig) % 3]))
                _go(st, L, "quantile", B((f, ok), p=PROBS[(j + ig) % 6], ig=ig, rma=FORMATS[(j + 1) % 3]))
        return
    onecol = f.ndim == 1
    forms = forms_of(w)
    # stddev: policy x input forms, format rotating
    if fam in ("A", "W", "D", "B") or (fam == "M" and j % 7 == 0):
        some = fam == "W" and len(f) >= 3  # exhaustive (fact, weight) data: rotate two of the four form pairs
        for ig in POLICIES:
            for t, (ff, wf) in enumerate(forms):
                if some and (t + j + ig) % 2:
                    continue
                _go(st, L, "stddev", B(fact_form(f, ff, j), weight_form(w, wf, j), ig=ig, rma=FORMATS[(j + t + ig) % 3]))
    # quantile: probability x policy, forms and format rotating
    if fam in ("A", "W", "D", "B") or (fam == "M" and j % 7 == 1):
        probs = PROBS if (onecol and fam != "B") else (PROBS[j % 6], PROBS[(j + 3) % 6])
        for pi, p in enumerate(probs):
            for ig in POLICIES:
                if fam == "W" and len(f) >= 3 and (j + pi + ig) % 2:
                    continue
                ff, wf = forms[(j + pi + ig) % len(forms)]
                _go(st, L, "quantile", B(fact_form(f, ff, j), weight_form(w, wf, j), p=(float(p) if (j + pi) % 2 else p), ig=ig,
                                         rma=FORMATS[(j + pi) % 3]))
    # min / max: one-column facts, unweighted
    if onecol and fam in ("A", "D", "B"):
        for s, stat in enumerate(("min", "max")):
            for ig in POLICIES:
                for t, ff in enumerate(("nan", "pair")):
                    _go(st, L, stat, B(fact_form(f, ff, j), ig=ig, rma=FORMATS[(j + s + t + ig) % 3]))
    # covariance (unweighted and weighted) / correlation (unweighted): >= 2 columns
    if not onecol:
        for ig in POLICIES:
            ff = ("nan", "pair")[(j + ig) % 2]
            _go(st, L, "covariance", B(fact_form(f, ff, j), None, ig=ig, rma=FORMATS[(j + ig) % 3]))
            _go(st, L, "corrcoef", B(fact_form(f, ff, j + 1), None, ig=ig, rma=FORMATS[(j + ig + 1) % 3]))
            if w is not None and (fam != "M" or (j + ig) % 2 == 0):
                ff, wf = forms[(j + ig) % 4]
                _go(st, L, "covariance", B(fact_form(f, ff, j), weight_form(w, wf, j), ig=ig, rma=FORMATS[(j + ig + 2) % 3]))


def work(args):
    """One shard. args = (tier, shard, nshards)."""
    tier, shard, nshards = args
    import warnings

    from .. import env

    env.import_catii()
    contracts_stats.install()
    warnings.simplefilter("ignore")
    np.seterr(all="ignore")
    sc = scopes(tier)
    st = Stats()
    j = 0
    for fam, L, f, w, extra in jobs(sc):
        if j % nshards == shard:
            run_item(st, j, fam, L, f, w, extra)
        j += 1
    out = MON.dump()
    out.update(driver_calls=st.calls, nontrivial=st.nontrivial, samples=st.samples, jobs=j)
    return out
