"""Spec layer of engine C (DESIGN §4.1, Appendix C): what the postconditions compare against.

Independent of the code under test: `view`, `wf`, `mk`, `snap` read an index only through
`dict` primitives (never through iindex methods, which are themselves under contract), and
`mk` builds its result with the bare constructor - checks never build their inputs through
another function under test.
"""
import itertools

import numpy as np

U32 = np.dtype(np.uint32)


def iindex_cls():
    from catii import iindex

    return iindex


def view(idx):
    """The dense array an index stands for (int64 / object for huge values)."""
    a = np.full(idx.shape, idx.common, dtype=np.int64)
    for k, rows in dict.items(idx):
        r = np.asarray(rows, dtype=np.int64)
        if len(idx.shape) == 1:
            a[r] = k[0]
        else:
            a[(r,) + tuple(k[1:])] = k[0]
    return a


WF_CONJUNCTS = (
    "shape", "key-arity-or-type", "coord-range", "entry-under-common", "rowids-dtype", "empty-entry",
    "not-strictly-increasing", "rowid-range", "not-exclusive",
)


def wf(idx):
    """List of violated well-formedness conjuncts (empty list == well-formed). C07's list:
    row ids strictly increasing uint32 below the row count, higher coordinates inside the shape,
    no row under two values of one column, nothing under the common value, no empty entry."""
    bad = []
    if type(idx.shape) is not tuple or any(type(s) is not int or s < 0 for s in idx.shape) or len(idx.shape) < 1:
        return ["shape"]
    nd = len(idx.shape)
    seen = {}
    for k, rows in dict.items(idx):
        if type(k) is not tuple or len(k) != nd or any(type(c) is not int for c in k):
            bad.append("key-arity-or-type")
            continue
        if any(not (0 <= c < e) for c, e in zip(k[1:], idx.shape[1:])):
            bad.append("coord-range")
        if k[0] == idx.common:
            bad.append("entry-under-common")
        if not isinstance(rows, np.ndarray) or rows.dtype != U32 or rows.ndim != 1:
            bad.append("rowids-dtype")
            continue
        if len(rows) == 0:
            bad.append("empty-entry")
        r = rows.astype(np.int64)
        if len(r) > 1 and not (r[1:] > r[:-1]).all():
            bad.append("not-strictly-increasing")
        if len(r) and (r[-1] >= idx.shape[0] or r.max() >= idx.shape[0]):
            bad.append("rowid-range")
        s = seen.setdefault(k[1:], set())
        rl = set(r.tolist())
        if s & rl:
            bad.append("not-exclusive")
        s |= rl
    return sorted(set(bad))


def mk(dense, common):
    """The canonical well-formed index of a dense array under a given common value."""
    dense = np.asarray(dense, dtype=np.int64)
    ent = {}
    if dense.ndim == 1:
        for v in np.unique(dense).tolist():
            if v != common:
                ent[(v,)] = np.nonzero(dense == v)[0].astype(U32)
    else:
        for hi in itertools.product(*[range(e) for e in dense.shape[1:]]):
            col = dense[(slice(None),) + hi]
            for v in np.unique(col).tolist():
                if v != common:
                    ent[(v,) + hi] = np.nonzero(col == v)[0].astype(U32)
    return iindex_cls()(ent, common, tuple(int(s) for s in dense.shape))


def is_mode(dense, c):
    dense = np.asarray(dense)
    if dense.size == 0:
        return True
    vals, cnt = np.unique(dense, return_counts=True)
    d = dict(zip(vals.tolist(), cnt.tolist()))
    return d.get(c, 0) == int(cnt.max())


def snap(idx):
    """Byte-level snapshot of an index (frame conditions)."""
    return (idx.shape, idx.common, {k: (v.tobytes(), str(v.dtype), v.shape) for k, v in dict.items(idx)})


def describe(idx):
    """JSON-able description of an index state (for replay files)."""
    try:
        return {"dense": view(idx).tolist(), "common": idx.common, "shape": list(idx.shape)}
    except Exception:
        return {"entries": {str(k): np.asarray(v).tolist() for k, v in dict.items(idx)}, "common": idx.common,
                "shape": list(idx.shape)}


def from_description(d):
    return mk(np.array(d["dense"], dtype=np.int64).reshape(d["shape"]), d["common"])


def shares_storage(a, b):
    """Does any row-id array of index a share memory with one of index b?"""
    return any(np.shares_memory(x, y) for x in dict.values(a) for y in dict.values(b))


# ----------------------------------------------------------------------------- state scopes


def states1(N, vals, extra=(7,)):
    """every (dense, common): 1-D, n <= N rows over vals, common in vals + extra."""
    for n in range(N + 1):
        for rows in itertools.product(vals, repeat=n):
            d = np.array(rows, dtype=np.int64)
            for c in tuple(vals) + tuple(extra):
                yield d, c


def states2(N, C, vals, extra=(7,)):
    for n in range(N + 1):
        for c_ in range(1, C + 1):
            for cells in itertools.product(vals, repeat=n * c_):
                d = np.array(cells, dtype=np.int64).reshape(n, c_)
                for c in tuple(vals) + tuple(extra):
                    yield d, c


def states3(N, shape_tail, vals, extra=(7,)):
    size = 1
    for e in shape_tail:
        size *= e
    for n in range(N + 1):
        for cells in itertools.product(vals, repeat=n * size):
            d = np.array(cells, dtype=np.int64).reshape((n,) + tuple(shape_tail))
            for c in tuple(vals) + tuple(extra):
                yield d, c
