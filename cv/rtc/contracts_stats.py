"""Contracts on the real array-cube-only statistics (C18; DESIGN §6 C18).

Attached (after the scratch import) to

    xcubes.xcube.stddev / quantile / min / max / corrcoef / covariance      the public calls
    xfuncs.xfunc_stddev / xfunc_quantile / xfunc_op_base / xfunc_corrcoef / xfunc_covariance
           .__init__   ghost capture of the raw arguments + "missing rows normalised" clause
           .fill       per-bin postcondition on the regions (intermediate contract)
    xfuncs.xfunc.bins  one boolean row mask per output cell; the masks partition the rows

The oracle is spec_stats (pure NumPy on the raw arguments).  Clauses are judged per output cell
(per matrix entry): the clause's evaluation counter counts cells, and a failing cell is recorded
with the call's input plus the cell index, and with a `cls` that carries the attributes of that
cell (so that a known finding can be matched by input class).  All clauses belong to C18:

    ensures-shape                                  result shape = cube shape (+ fact columns | K,K); (values, validity) pair well formed
                                                   (zero dimensions: the single cell, however wrapped - DESIGN §9.1); gate of the per-cell clauses
    ensures-companion-calls-well-formed            the second / third call of the real function made by the relational clauses returns a
                                                   well-formed result of the same shape; gate of the format / rescaling clauses
    ensures-missing-cells-exact                  reported missing  <=>  C04's rule (+ sd: < 2 valid rows; matrix entry rule)
    ensures-value-equals-percell-statistic         |value - textbook| <= 1e-9 * max(1, scale) on non-missing cells (min/max: exact)
    ensures-formats-same-missing-cells / -same-values / ensures-format-sentinel-in-missing-cells
                                                   NaN format and (sentinel, False) format of the same call agree
    ensures-weighted-missing-rule                  weighted quantile, law 1
    ensures-weighted-missing-rule-p1-zero-weight-on-last-sorted-valid-row
                                                   law 1 on the cells of that input class (kept apart so that the class has its own obligation)
    ensures-weighted-within-min-max-of-valid-values            law 3
    ensures-weighted-invariant-under-weight-rescaling          law 2 (second call of the real function with 3 * weights)
    fill/ensures-bin-*                             the same per bin on the regions after fill; stddev: its counters

xcube.covariance carries two stacked contracts whose preconditions partition the calls: the plain one
(no cell whose usable rows have weights summing to zero) and `xcubes.xcube.covariance[cell-with-zero-weight-mass]`
(some cell has usable rows whose weights sum to exactly zero: that cell's covariance is 0/0 and not compared,
every other cell is, and the call must not raise).

Preconditions (DESIGN §9.1): weights None | (N,) array | (values, validity) pair - never a scalar; valid weights
finite and >= 0; probability in [0, 1]; correlation unweighted; min / max on one-column facts; covariance /
correlation on >= 2 columns; report format NaN (NaT) or (sentinel, False) - the plain replacement value is C04's.
"""
import numpy as np

from . import spec_stats as S
from .contract import MON, Contract, attach

NaN = float("nan")
KEEP_PER_CALL = 2

SIG = {
    "stddev": (("arr", None), ("weights", None), ("ignore_missing", False), ("return_missing_as", NaN)),
    "quantile": (("arr", None), ("probability", None), ("weights", None), ("ignore_missing", False), ("return_missing_as", NaN)),
    "min": (("arr", None), ("ignore_missing", False), ("return_missing_as", NaN)),
    "max": (("arr", None), ("ignore_missing", False), ("return_missing_as", NaN)),
    "corrcoef": (("arr", None), ("weights", None), ("ignore_missing", False), ("return_missing_as", NaN)),
    "covariance": (("arr", None), ("weights", None), ("ignore_missing", False), ("return_missing_as", NaN)),
}
STATS = tuple(SIG)
XFUNC_OF = {"stddev": "xfunc_stddev", "quantile": "xfunc_quantile", "min": "xfunc_min", "max": "xfunc_max",
            "corrcoef": "xfunc_corrcoef", "covariance": "xfunc_covariance"}
STAT_OF = {v: k for k, v in XFUNC_OF.items()}


def bind(stat, a, kw):
    b = {"probability": None, "weights": None}
    names = SIG[stat]
    if len(a) > len(names) or any(k not in dict(names) for k in kw):
        raise TypeError("arguments")
    for (n, dflt), v in zip(names, a):
        b[n] = v
    for n, dflt in names[len(a):]:
        b[n] = kw.get(n, dflt)
    return b


# ----------------------------------------------------------------------------- JSON <-> arguments


def enc(x):
    if x is None:
        return None
    if isinstance(x, tuple):
        return {"pair": [enc(x[0]), enc(x[1])]}
    a = np.asarray(x)
    data = a.astype(str).tolist() if a.dtype.kind in "mM" else a.tolist()
    return {"dtype": str(a.dtype), "shape": list(a.shape), "data": data}


def _denan(x):
    if isinstance(x, list):
        return [_denan(v) for v in x]
    if x == "NaN":
        return NaN
    if x in ("inf", "-inf"):
        return float(x)
    return x


def dec(d):
    if d is None:
        return None
    if "pair" in d:
        return (dec(d["pair"][0]), dec(d["pair"][1]))
    return np.array(_denan(d["data"]), dtype=d["dtype"]).reshape(d["shape"])


def enc_rma(r):
    if isinstance(r, tuple):
        return {"sentinel": enc_rma(r[0]), "flag": bool(r[1])}
    if isinstance(r, np.datetime64):
        return {"datetime64": str(r), "dtype": str(r.dtype)}
    if isinstance(r, float) and r != r:
        return "NaN"
    return r.item() if isinstance(r, np.generic) else r


def dec_rma(r):
    if isinstance(r, dict) and "sentinel" in r:
        return (dec_rma(r["sentinel"]), r["flag"])
    if isinstance(r, dict) and "datetime64" in r:
        return np.datetime64(r["datetime64"]).astype(r["dtype"])
    if r == "NaN":
        return NaN
    return r


class LazyDesc(dict):
    """The JSON description of a call, built only when somebody looks at it (a failure is recorded,
    the record is pickled to the parent process or dumped); behaves as the plain dict otherwise."""

    def __init__(self, *args):
        dict.__init__(self)
        self._args = args

    def _fill(self):
        if self._args is not None:
            a, self._args = self._args, None
            dict.update(self, _describe_call(*a))
        return self

    def __reduce__(self):
        return (dict, (dict(self._fill()),))

    def __bool__(self):
        return True

    def __len__(self):
        return dict.__len__(self._fill())

    def items(self):
        return dict.items(self._fill())

    def keys(self):
        return dict.keys(self._fill())

    def __iter__(self):
        return dict.__iter__(self._fill())

    def __getitem__(self, k):
        return dict.__getitem__(self._fill(), k)

    def get(self, k, d=None):
        return dict.get(self._fill(), k, d)

    def __repr__(self):
        return dict.__repr__(self._fill())


def describe_call(stat, dims, interacting_shape, b, level="call"):
    return LazyDesc(stat, [np.array(d, copy=True) for d in dims], interacting_shape, b, level)


def _describe_call(stat, dims, interacting_shape, b, level="call"):
    return {"stat": stat, "level": level, "dims": [enc(d) for d in dims],
            "interacting_shape": None if interacting_shape is None else [int(e) for e in interacting_shape],
            "fact": enc(b["arr"]), "weights": enc(b["weights"]), "probability": b["probability"],
            "ignore_missing": bool(b["ignore_missing"]), "return_missing_as": enc_rma(b["return_missing_as"])}


def call_from_description(d, rma=None):
    """Re-run a described call on the real (contracted) function; returns the result."""
    from catii import xcube

    dims = [dec(x) for x in d["dims"]]
    cube = xcube(dims, None if d["interacting_shape"] is None else tuple(d["interacting_shape"]))
    b = {"arr": dec(d["fact"]), "weights": dec(d["weights"]), "probability": d["probability"],
         "ignore_missing": d["ignore_missing"], "return_missing_as": dec_rma(d["return_missing_as"]) if rma is None else rma}
    return call(cube, d["stat"], b)


def call(cube, stat, b, **over):
    b = dict(b, **over)
    kw = {"ignore_missing": b["ignore_missing"], "return_missing_as": b["return_missing_as"]}
    if stat not in ("min", "max"):
        kw["weights"] = b["weights"]
    if stat == "quantile":
        return cube.quantile(b["arr"], b["probability"], **kw)
    return getattr(cube, stat)(b["arr"], **kw)


# ----------------------------------------------------------------------------- preconditions


def _is_nan_like(r):
    if isinstance(r, np.datetime64):
        return bool(np.isnat(r))
    return isinstance(r, (float, np.floating)) and r != r


def fmt_of(r):
    return "pair" if isinstance(r, tuple) else "nan"


def args_in_scope(stat, b, nrows_dims):
    """Preconditions on fact / weights / probability / format (from the code, its call sites and
    the calibrations of DESIGN §9.1)."""
    x, fv = S.split(b["arr"])
    if x.ndim < 1 or fv.shape != x.shape or (nrows_dims is not None and x.shape[0] != nrows_dims):
        return False
    N = x.shape[0]
    if x.dtype.kind == "f" and np.isnan(x[fv]).any():
        return False  # a row flagged valid holds NaN: not a well-formed (values, validity) pair
    if stat in ("min", "max"):
        if x.ndim != 1 or x.dtype.kind not in "fiuM":
            return False
    elif stat in ("corrcoef", "covariance"):
        if x.ndim != 2 or x.shape[1] < 2 or x.dtype.kind not in "fiu":
            return False
    elif x.ndim not in (1, 2) or x.dtype.kind not in "fiu":
        return False
    w = b["weights"]
    if w is not None:
        if stat == "corrcoef":
            return False  # the property speaks of the unweighted correlation only
        wx, wv = S.split(w)
        # DESIGN §9.1: no scalar weight (stddev / covariance raise); an (N,) array or a (values, validity) pair
        if wx.ndim != 1 or wx.shape != (N,) or wv.shape != (N,) or wx.dtype.kind not in "fiu":
            return False
        if (np.asarray(wx[wv], dtype=float) < 0).any() or not np.isfinite(np.asarray(wx[wv], dtype=float)).all():
            return False
    if stat == "quantile":
        p = b["probability"]
        if isinstance(p, bool) or not isinstance(p, (int, float, np.integer, np.floating)) or not (0 <= p <= 1):
            return False
    r = b["return_missing_as"]
    if isinstance(r, tuple):
        if len(r) != 2 or r[1] is not False or _is_nan_like(r[0]):
            return False
    elif not _is_nan_like(r):
        return False  # the plain-replacement format is C04's, not part of C18's clause
    if not b["ignore_missing"] in (True, False):
        return False
    return True


def dims_in_scope(dims, interacting_shape):
    dims = [np.asarray(d) for d in dims]
    if interacting_shape is None or len(interacting_shape) != len(dims):
        return None
    n = None
    for d, e in zip(dims, interacting_shape):
        if d.ndim < 1 or d.dtype.kind not in "iu":
            return None
        if n is not None and d.shape[0] != n:
            return None
        n = d.shape[0]
        if d.size and (int(d.min()) < 0 or int(d.max()) >= int(e)):
            return None
    return -1 if n is None else n


# ----------------------------------------------------------------------------- judging a result


def other_format(r, kind):
    if isinstance(r, tuple):
        return np.datetime64("NaT") if kind == "M" else NaN
    if kind == "M":
        return (np.datetime64("1999-12-31"), False)
    return ((-7, False) if kind in "iu" else (7.0, False))


def normalise(res, rma):
    """(values, missing) of a result in either report format; a message string if malformed."""
    if isinstance(rma, tuple):
        if not (isinstance(res, tuple) and len(res) == 2):
            return "the (values, validity) format did not return a pair: %r" % (type(res),)
        v, ok = np.asarray(res[0]), np.asarray(res[1])
        if ok.dtype != np.bool_ or ok.shape != v.shape:
            return "validity has dtype %s shape %r for values of shape %r" % (ok.dtype, ok.shape, v.shape)
        return v, ~ok
    if isinstance(res, tuple):
        return "the NaN format returned a tuple"
    v = np.asarray(res)
    if v.dtype.kind in "mM":
        return v, np.isnat(v)
    if v.dtype.kind in "fc":
        return v, np.isnan(v)
    return v, np.zeros(v.shape, dtype=bool)


def _single_cell(cube, old, nm):
    if isinstance(nm, str) or cube.dims or not old["tail"] or tuple(nm[0].shape) != old["tail"]:
        return nm
    want = old["shape"] + old["tail"]
    return nm[0].reshape(want), nm[1].reshape(want)


def _percell(ob, n, bad, old, msg):
    """Evaluate one clause on n cells; record the failing ones with per-cell input and class."""
    if n:
        MON.evals[ob] += int(n)
    if bad is None or not bad.any():
        return
    idxs = np.argwhere(bad)
    for idx in idxs[:KEEP_PER_CALL]:
        idx = tuple(int(i) for i in idx)
        nc = old["ncell"]
        cidx, eidx = idx[:nc], idx[nc:]
        rows = old["cellmap"].get(cidx, np.zeros(0, dtype=int))
        b = old["b"]
        cls = dict(old["cls"])
        col = eidx[0] if (len(eidx) == 1) else None
        try:
            cls.update(S.cell_class(rows, b["arr"], b["weights"], col))
        except Exception:
            pass
        if old.get("Z") is not None:
            cls["zero_weight_on_last_valid_sorted_row"] = bool(old["Z_any_p"][idx])
        inp = dict(old["desc"].items(), cell=list(cidx), entry=list(eidx), cell_rows=[int(r) for r in rows])
        MON.record(ob, msg(idx), inp, cls)
    extra = len(idxs) - min(len(idxs), KEEP_PER_CALL)
    if extra:
        MON.fail_counts[ob] += extra


def judge(qual, old, values, missing, prefix="ensures-"):
    """The per-cell clauses on (values, missing) - used for the public result and for the regions after fill."""
    stat = old["stat"]
    if old["kind"] == "wq":
        M, LO, HI, C, Z, _ = old["exp"]
        tol = old["tol"]
        bad = missing != M
        plain = C & ~Z
        _percell(qual + "/" + prefix + "weighted-missing-rule", plain.sum(), plain & bad, old,
                 lambda i: "weighted quantile reported %s, the missing rule says %s (value %r)" % (
                     "missing" if missing[i] else "valid", "missing" if M[i] else "valid", _py(values[i])))
        zc = C & Z
        _percell(qual + "/" + prefix + "weighted-missing-rule-p1-zero-weight-on-last-sorted-valid-row", zc.sum(), zc & bad, old,
                 lambda i: "weighted quantile (p = 1, zero weight on the last sorted valid row) reported %s, the missing rule says %s (value %r)" % (
                     "missing" if missing[i] else "valid", "missing" if M[i] else "valid", _py(values[i])))
        both = C & ~M & ~missing
        with np.errstate(invalid="ignore"):
            out = both & ~((values >= LO - tol) & (values <= HI + tol))
        _percell(qual + "/" + prefix + "weighted-within-min-max-of-valid-values", both.sum(), out, old,
                 lambda i: "weighted quantile %r outside [min, max] = [%r, %r] of the cell's valid values" % (_py(values[i]), _py(LO[i]), _py(HI[i])))
        return
    V, M, C = old["exp"]
    bad = C & (missing != M)
    _percell(qual + "/" + prefix + "missing-cells-exact", C.sum(), bad, old,
             lambda i: "%s reported %s (value %r), the missing rule says %s" % (
                 stat, "missing" if missing[i] else "valid", _py(values[i]), "missing" if M[i] else "valid (expected %r)" % (_py(V[i]),)))
    both = C & ~M & ~missing
    if stat in ("min", "max"):
        if values.dtype.kind != V.dtype.kind and not (values.dtype.kind in "fiu" and V.dtype.kind in "fiu"):
            wrong = both.copy()
        else:
            wrong = both & ~(values == V)
    else:
        with np.errstate(invalid="ignore"):
            wrong = both & ~(np.abs(values - V) <= old["tol"])
    _percell(qual + "/" + prefix + "value-equals-percell-statistic", both.sum(), wrong, old,
             lambda i: "%s %r, per-cell textbook value %r" % (stat, _py(values[i]), _py(V[i])))


def _py(x):
    try:
        if isinstance(x, np.datetime64):
            return str(x)
        return x.item() if isinstance(x, np.generic) else x
    except Exception:
        return repr(x)


def make_old(stat, dims, interacting_shape, b, shape_cells, level):
    """Ghost state of one call: the spec's expectation, computed BEFORE the real function runs."""
    N = S.nrows_of(b["arr"])
    shape, cells = shape_cells
    x, _ = S.split(b["arr"])
    weighted = b["weights"] is not None
    old = {"stat": stat, "b": b, "shape": shape, "ncell": len(shape), "cellmap": {idx: rows for idx, rows in cells},
           "tol": S.tolerance(stat, b["arr"]), "kind": "wq" if (stat == "quantile" and weighted) else "value", "fact_kind": x.dtype.kind,
           "tail": (x.shape[1], x.shape[1]) if stat in ("corrcoef", "covariance") else (() if stat in ("min", "max") else x.shape[1:])}
    if old["kind"] == "wq":
        old["exp"] = S.wquantile(shape, cells, b["arr"], b["weights"], b["ignore_missing"], b["probability"])
        old["Z"] = old["exp"][4]
        old["Z_any_p"] = old["exp"][5]
        old["C"] = old["exp"][3]
    else:
        old["exp"] = S.expected(stat, shape, cells, b["arr"], b["weights"], b["ignore_missing"], b["probability"])
        old["C"] = old["exp"][2]
    old["desc"] = describe_call(stat, dims, interacting_shape, b, level)
    # classification attributes: only what defines an input class (the monitor keeps failures per distinct cls);
    # the full factor combination of the call is in the recorded input
    r = b["return_missing_as"]
    old["cls"] = {"stat": stat, "level": level, "weighted": weighted, "ignore_missing": bool(b["ignore_missing"]),
                  "fact_kind": {"M": "datetime64", "i": "int", "u": "int"}.get(x.dtype.kind, "float"),
                  "format": "pair" if isinstance(r, tuple) else ("float-nan" if isinstance(r, float) else "NaT")}
    if old["kind"] == "wq":
        old["cls"]["probability_is_1"] = bool(b["probability"] == 1)
    return old


# ----------------------------------------------------------------------------- installation


def install():
    import catii.xcubes as XC
    import catii.xfuncs as XF

    X = XC.xcube
    if getattr(X, "__cv_stats_installed__", False):
        return XC, XF
    X.__cv_stats_installed__ = True

    # ------------------------------------------------------------------ public calls
    for stat in STATS:
        _install_public(X, stat)
    _install_public(X, "covariance", zero_mass=True)

    # ------------------------------------------------------------------ xfunc.bins
    real_bins = XF.xfunc.__dict__["bins"].__func__

    def bins(coordinates, size=None):
        return list(real_bins(coordinates, size))

    bins.__doc__ = real_bins.__doc__
    XF.xfunc.bins = staticmethod(bins)

    def bins_requires(coordinates, size=None):
        co = np.asarray(coordinates)
        if co.ndim != 1 or co.dtype.kind not in "iu":
            return False
        if size is None:
            return True
        return isinstance(size, (int, np.integer)) and size >= 0 and (co.size == 0 or (int(co.min()) >= 0 and int(co.max()) < size))

    def bins_old(coordinates, size=None):
        co = np.array(coordinates, copy=True)
        return {"co": co, "want": sorted(set(co.tolist())) if size is None else list(range(int(size)))}

    def bins_cells(old, res, coordinates, size=None):
        got = [_py(u) for u, _ in res]
        return True if got == old["want"] else "bin numbers %r, expected one per output cell: %r" % (got, old["want"])

    def bins_bool(old, res, coordinates, size=None):
        n = old["co"].shape[0]
        for u, m in res:
            if not (isinstance(m, np.ndarray) and m.dtype == np.bool_ and m.shape == (n,)):
                return "mask of bin %r is not a boolean row mask of length %d: %r" % (u, n, m)
        return True

    def bins_select(old, res, coordinates, size=None):
        for u, m in res:
            if not np.array_equal(np.asarray(m), old["co"] == u):
                return "mask of bin %r is %r, rows of that cell are %r" % (u, np.asarray(m).tolist(), (old["co"] == u).tolist())
        return True

    def bins_partition(old, res, coordinates, size=None):
        n = old["co"].shape[0]
        tot = np.zeros(n, dtype=int)
        for _, m in res:
            tot += np.asarray(m).astype(int)
        return True if (tot == 1).all() else "rows are covered %r times by the masks (each row must be in exactly one)" % (tot.tolist(),)

    attach(XF.xfunc, "bins", Contract(
        "xfuncs.xfunc.bins", requires=bins_requires, old=bins_old,
        describe=lambda old, coordinates, size=None: {"stat": "bins", "coordinates": enc(old["co"]), "size": None if size is None else int(size)},
        classify=lambda old, coordinates, size=None: {"stat": "bins", "size_given": size is not None},
        ensures=[("ensures-one-mask-per-output-cell", bins_cells), ("ensures-masks-are-boolean-row-masks", bins_bool),
                 ("ensures-mask-selects-the-rows-of-its-cell", bins_select), ("ensures-masks-partition-the-rows", bins_partition)]))

    # ------------------------------------------------------------------ xfunc __init__ (ghost capture) and fill
    for cname in ("xfunc_stddev", "xfunc_quantile", "xfunc_op_base", "xfunc_corrcoef", "xfunc_covariance"):
        _install_xfunc(XF, getattr(XF, cname), cname)
    return XC, XF


def _install_public(X, stat, zero_mass=False):
    """zero_mass: the second, stacked contract of xcube.covariance for the calls in which some cell has
    usable rows whose weights sum to zero (its covariance is undefined); the two contracts partition
    the calls, so the class has its own obligations (`...covariance[cell-with-zero-weight-mass]/...`)."""
    qual = "xcubes.xcube." + stat + ("[cell-with-zero-weight-mass]" if zero_mass else "")

    def requires(self, *a, **kw):
        b = bind(stat, a, kw)
        n = dims_in_scope(self.dims, self.interacting_shape)
        if n is None:
            return False
        if not args_in_scope(stat, b, None if n == -1 else n):
            return False
        if stat == "covariance":
            N = S.nrows_of(b["arr"])
            z = S.has_zero_mass_cell(S.cells_of_dims(self.dims, self.interacting_shape, N)[1], b["arr"], b["weights"], b["ignore_missing"])
            return z == zero_mass
        return True

    def old(self, *a, **kw):
        b = bind(stat, a, kw)
        N = S.nrows_of(b["arr"])
        o = make_old(stat, self.dims, self.interacting_shape, b, S.cells_of_dims(self.dims, self.interacting_shape, N), "call")
        o["cube_shape"] = tuple(int(e) for e in self.shape) or (1,)
        if stat == "covariance":
            o["cls"]["cell_with_zero_weight_mass"] = bool(zero_mass)
        return o

    def shape_and_cells(old, res, self, *a, **kw):
        b = old["b"]
        nm = normalise(res, b["return_missing_as"])
        if isinstance(nm, str):
            return nm
        values, missing = nm
        want = old["shape"] + old["tail"]
        if not self.dims and tuple(values.shape) == old["tail"] and old["tail"]:
            # DESIGN §9.1 / C03: with zero dimensions the single cell is compared irrespective of how it is wrapped
            values, missing = values.reshape(want), missing.reshape(want)
        if tuple(values.shape) != want:
            return "result shape %r, expected cube shape + fact axes = %r" % (tuple(values.shape), want)
        if old["cube_shape"] != old["shape"]:
            return "xcube.shape %r, expected extra axes + category extents %r" % (old["cube_shape"], old["shape"])
        judge(qual, old, values, missing)
        return True

    def companions(old, res, self, *a, **kw):
        r = formats(old, res, self)
        if r is True and old["kind"] == "wq":
            r = rescale(old, res, self)
        return r

    def formats(old, res, self):
        b = old["b"]
        r1 = b["return_missing_as"]
        nm = _single_cell(self, old, normalise(res, r1))
        if isinstance(nm, str) or tuple(nm[0].shape) != old["shape"] + old["tail"]:
            return True  # ensures-shape has already failed
        r2 = other_format(r1, old["fact_kind"] if stat in ("min", "max") else "f")
        res2 = call(self, stat, b, return_missing_as=r2)
        nm2 = _single_cell(self, old, normalise(res2, r2))
        if isinstance(nm2, str):
            return "same call with return_missing_as=%r: %s" % (r2, nm2)
        (v1, m1), (v2, m2) = nm, nm2
        if v1.shape != v2.shape:
            return "shape %r under %r but %r under %r" % (v1.shape, enc_rma(r1), v2.shape, enc_rma(r2))
        C = old["C"]
        _percell(qual + "/ensures-formats-same-missing-cells", C.sum(), C & (m1 != m2), old,
                 lambda i: "cell is %s under return_missing_as=%r but %s under %r" % (
                     "missing" if m1[i] else "valid (%r)" % (_py(v1[i]),), enc_rma(r1), "missing" if m2[i] else "valid (%r)" % (_py(v2[i]),), enc_rma(r2)))
        both = C & ~m1 & ~m2
        with np.errstate(invalid="ignore"):
            same = (v1 == v2) if stat in ("min", "max") else (np.abs(v1 - v2) <= old["tol"])
        _percell(qual + "/ensures-formats-same-values", both.sum(), both & ~same, old,
                 lambda i: "value %r under return_missing_as=%r but %r under %r" % (_py(v1[i]), enc_rma(r1), _py(v2[i]), enc_rma(r2)))
        rp, (vp, mp) = (r1, nm) if isinstance(r1, tuple) else (r2, nm2)
        at = C & mp
        with np.errstate(invalid="ignore"):
            sent = vp == rp[0]
        _percell(qual + "/ensures-format-sentinel-in-missing-cells", at.sum(), at & ~sent, old,
                 lambda i: "missing cell holds %r in the (values, validity) format, sentinel is %r" % (_py(vp[i]), _py(rp[0])))
        return True

    def rescale(old, res, self):
        b = old["b"]
        nm = _single_cell(self, old, normalise(res, b["return_missing_as"]))
        if isinstance(nm, str) or tuple(nm[0].shape) != old["shape"] + old["tail"]:
            return True
        w = b["weights"]
        (v1, m1) = nm
        C = old["C"]
        # law 2 for a moderate factor and for factors that move the weights to tiny / huge magnitudes
        for k in (3.0, 2.0 ** -40, 2.0 ** 40):
            w2 = (np.asarray(w[0], dtype=float) * k, w[1]) if isinstance(w, tuple) else np.asarray(w, dtype=float) * k
            nm2 = _single_cell(self, old, normalise(call(self, stat, b, weights=w2), b["return_missing_as"]))
            if isinstance(nm2, str):
                return nm2
            (v2, m2) = nm2
            both = C & ~m1 & ~m2
            with np.errstate(invalid="ignore"):
                diff = (m1 != m2) | (both & ~(np.abs(v1 - v2) <= old["tol"]))
            _percell(qual + "/ensures-weighted-invariant-under-weight-rescaling", C.sum(), C & diff, old,
                     lambda i, k=k, v2=v2, m2=m2: "weighted quantile %r (missing %s) with weights w, %r (missing %s) with weights %r * w" % (
                         _py(v1[i]), bool(m1[i]), _py(v2[i]), bool(m2[i]), k))
        return True

    ens = [("ensures-shape", shape_and_cells), ("ensures-companion-calls-well-formed", companions)]
    attach(X, stat, Contract(qual, requires=requires, old=old, ensures=ens,
                             describe=lambda old, self, *a, **kw: old["desc"], classify=lambda old, self, *a, **kw: old["cls"]))


def _install_xfunc(XF, klass, cname):
    qual = "xfuncs." + cname

    def stat_of(self):
        return STAT_OF.get(type(self).__name__)

    # ---- __init__: ghost capture of the raw arguments (the fill contract's oracle reads them, not the normalised attributes)
    def init_bind(self, a, kw):
        st = stat_of(self)
        return None if st is None else bind(st, a, kw)

    def init_requires(self, *a, **kw):
        b = init_bind(self, a, kw)
        return b is not None and args_in_scope(stat_of(self), b, None)

    def init_old(self, *a, **kw):
        b = dict(init_bind(self, a, kw))
        for k in ("arr", "weights"):  # private copies: the fill contract's oracle must not see later in-place changes
            v = b[k]
            b[k] = None if v is None else (tuple(np.array(t, copy=True) for t in v) if isinstance(v, tuple) else np.array(v, copy=True))
        self._cv_raw = b
        x, ok, w, _ = S.combined_validity(b["arr"], b["weights"])
        return {"b": b, "ok": ok.copy(), "desc": describe_call(stat_of(self), [], (), b, "init"), "cls": {"stat": stat_of(self), "level": "init"}}

    def init_norm(old, res, self, *a, **kw):
        ok = old["ok"]
        if cname == "xfunc_stddev":
            got, want, what = self.validity, ok, "validity"
        elif cname == "xfunc_op_base":
            got, want, what = self.validity, ok, "validity"
        elif cname == "xfunc_quantile":
            got, want, what = ~np.isnan(self.arr), ok, "not-NaN pattern of .arr"
        else:
            if not np.array_equal(~np.isnan(self.arr), ok):
                return "not-NaN pattern of .arr %r, valid (fact and weight) pattern %r" % ((~np.isnan(self.arr)).tolist(), ok.tolist())
            got, want, what = self.validity, ok.all(axis=1), "validity (complete rows)"
        return True if np.array_equal(np.asarray(got), want) else "%s %r, expected fact-and-weight validity %r" % (what, np.asarray(got).tolist(), want.tolist())

    attach(klass, "__init__", Contract(qual + ".__init__", requires=init_requires, old=init_old,
                                       describe=lambda old, self, *a, **kw: old["desc"], classify=lambda old, self, *a, **kw: old["cls"],
                                       ensures=[("ensures-missing-rows-normalised", init_norm)]))

    # ---- fill
    def flat(r, tail):
        return np.asarray(r).reshape((-1,) + tuple(tail))

    def fill_requires(self, coordinates, regions):
        b = getattr(self, "_cv_raw", None)
        st = stat_of(self)
        if b is None or st is None:
            return False
        N = S.nrows_of(b["arr"])
        if coordinates is not None:
            co = np.asarray(coordinates)
            if co.ndim != 1 or co.shape[0] != N or co.dtype.kind not in "iu":
                return False
        if st == "covariance" and b["weights"] is not None:
            # calls with a cell whose usable weights sum to zero are judged by the stacked public contract only
            size = 1 if coordinates is None else int(np.asarray(regions[0]).size // max(1, S.split(b["arr"])[0].shape[1] ** 2))
            if S.has_zero_mass_cell(S.cells_of_coordinates(coordinates, size, N)[1], b["arr"], b["weights"], b["ignore_missing"]):
                return False
        return True

    def fill_old(self, coordinates, regions):
        b = self._cv_raw
        st = stat_of(self)
        N = S.nrows_of(b["arr"])
        x, _ = S.split(b["arr"])
        tail = (x.shape[1], x.shape[1]) if st in ("corrcoef", "covariance") else (() if st in ("min", "max") else x.shape[1:])
        size = flat(regions[0], tail).shape[0]
        co = None if coordinates is None else np.array(coordinates, copy=True).astype(np.int64)
        dims = [] if co is None else [co]
        o = make_old(st, dims, () if co is None else (size,), b, S.cells_of_coordinates(co, size, N), "fill")
        o["size"], o["co"] = size, co
        return o

    def fill_bins(old, res, self, coordinates, regions):
        st = old["stat"]
        tail = old["tail"]
        if st == "stddev":
            return _stddev_regions(qual, old, self, [flat(r, tail) for r in regions])
        if st in ("min", "max"):
            values, valid = flat(regions[0], tail), flat(regions[1], tail)
            missing = ~valid.astype(bool)
        else:
            values = flat(regions[0], tail)
            missing = np.isnan(values)
        if tuple(values.shape) != old["shape"] + tail:
            return "flattened region shape %r, expected bins + fact axes %r" % (values.shape, old["shape"] + tail)
        judge(qual + ".fill", old, values, missing, prefix="ensures-bin-")
        return True

    attach(klass, "fill", Contract(qual + ".fill", requires=fill_requires, old=fill_old,
                                   describe=lambda old, self, coordinates, regions: old["desc"],
                                   classify=lambda old, self, coordinates, regions: old["cls"],
                                   ensures=[("ensures-regions-shape", fill_bins)]))


def _stddev_regions(qual, old, self, regs):
    """xfunc_stddev.fill: counters and deviations per bin.

    ignoring:    valid_counts[b] = number of valid rows of the bin
    propagating: missing_counts[b] = number of rows of the bin that are not valid, and a bin without
                 such a row has valid_counts[b] = its number of rows
    stddevs[b]   = the textbook value wherever the bin is not missing by the rule"""
    b = old["b"]
    ignore = bool(b["ignore_missing"])
    if len(regs) != (2 if ignore else 3):
        return "%d regions, expected %d" % (len(regs), 2 if ignore else 3)
    sd, vc = regs[0], regs[1]
    want = old["shape"] + old["tail"]
    if tuple(sd.shape) != want or tuple(vc.shape) != want:
        return "flattened region shapes %r / %r, expected %r" % (sd.shape, vc.shape, want)
    x, ok, w, _ = S.combined_validity(b["arr"], b["weights"])
    nvalid = np.zeros(want, dtype=int)
    ninvalid = np.zeros(want, dtype=int)
    for idx, rows in old["cellmap"].items():
        nvalid[idx] = ok[rows].sum(axis=0)
        ninvalid[idx] = (~ok[rows]).sum(axis=0)
    ob = qual + ".fill/ensures-bin-"
    every = np.ones(want, dtype=bool)
    if ignore:
        _percell(ob + "valid-counts", every.sum(), vc != nvalid, old,
                 lambda i: "valid_counts %r, the bin has %d valid rows" % (_py(vc[i]), nvalid[i]))
    else:
        mc = regs[2]
        _percell(ob + "missing-counts", every.sum(), mc != ninvalid, old,
                 lambda i: "missing_counts %r, the bin has %d rows that are not valid" % (_py(mc[i]), ninvalid[i]))
        clean = ninvalid == 0
        _percell(ob + "valid-counts", clean.sum(), clean & (vc != nvalid), old,
                 lambda i: "valid_counts %r, the bin has %d rows, all valid" % (_py(vc[i]), nvalid[i]))
    V, M, C = old["exp"]
    at = C & ~M
    with np.errstate(invalid="ignore"):
        wrong = at & ~(np.abs(sd - V) <= old["tol"])
    _percell(ob + "value-equals-percell-statistic", at.sum(), wrong, old,
             lambda i: "stddevs region %r, per-cell textbook value %r" % (_py(sd[i]), _py(V[i])))
    return True


def belongs(obligation):
    return obligation.startswith(("xcubes.xcube.", "xfuncs.xfunc"))
