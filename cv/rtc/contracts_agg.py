"""Contracts on the aggregates both cube types offer (properties C03 and C04; DESIGN §6).

Attached (after `env.import_catii()`) to the real shortcut methods `count / valid_count / sum /
mean` of BOTH `ccube` and `xcube` - the same postcondition `out ~ Spec_agg(views, fact, weights,
ignore_missing)` on both, so that "the two cube types agree" is a lemma - and to the helpers the
array cube is built from:

    ffuncs.as_separate_validity, xfuncs.as_separate_validity   values alias the input, validity is
                                                               fresh and == ~isnan(values) | given
    xcubes.xcube._set_strides                                  multipliers are the row-major strides,
                                                               mintype can address every cell
    xcubes.xcube.strided_dims                                  sum over dims == ravel_multi_index(coords,
                                                               extents) and < size
    xfuncs.xfunc_{count,valid_count,sum,mean}.__init__         normalisation of fact and weights
    ffuncs.ffunc_{count,valid_count,sum,mean}.__init__         (validity = valid_f & valid_w; summables /
                                                               countables zeroed where invalid)
    xfuncs.xfunc_{count,valid_count,sum,mean}.fill             per bin: region[b] == sum over the rows of b
    ffuncs.ffunc_{count,valid_count,sum,mean}.get_initial_regions   working shape, corner == totals over all rows, 0 elsewhere
    ffuncs.ffunc_{...}.fill_func._fill (the closure)           region[coords] == sum over the given row ids, rest unchanged

Clause names decide the property: everything containing `/missing-rule-` or `/formats-` is C04,
every other clause of this module is C03 (see `property_of`).

The oracle is `spec_agg` (pure Python, per cell); the views of a `ccube` are computed by
`speclib.view` (dict primitives only), never by `to_array`.
"""
import numpy as np

from . import spec_agg as S
from .contract import MON, Contract, attach
from .speclib import view

NaN = float("nan")
NA = object()  # a clause that does not apply to this call (not counted as an evaluation)

# Set by the driver: classification attributes / JSON description of the case being run.  They are
# merged into every failure recorded while the case runs (contracts on helpers do not see the
# user-level call, the driver does).
CASE_CLS = {}
CASE_DESC = None

AGG_METHODS = ("count", "valid_count", "sum", "mean")


def property_of(ob):
    if ob.startswith("checker.") or ob.startswith("spec_agg."):
        return "checker"  # self-checks of the checker: a failure is exit 3, never a verdict on the code
    if "/missing-rule-" in ob or "/formats-" in ob:
        return "C04"
    return "C03"


# ----------------------------------------------------------------------------- small helpers


def _adapt(qual, items):
    out = []
    for name, fn in items:
        ob = qual + "/" + name

        def g(old, res, *a, _fn=fn, _ob=ob, **kw):
            r = _fn(old, res, *a, **kw)
            if r is NA:
                MON.evals[_ob] -= 1
                if MON.evals[_ob] <= 0:
                    del MON.evals[_ob]
                return True
            return r

        out.append((name, g))
    return out


def enc_arr(a):
    a = np.asarray(a)
    return {"dtype": str(a.dtype), "shape": list(a.shape), "data": a.tolist()}


def enc_var(x):
    """JSON description of a fact / weight argument."""
    if x is None:
        return None
    if isinstance(x, tuple):
        return {"values": enc_arr(x[0]), "validity": np.asarray(x[1]).tolist()}
    a = np.asarray(x)
    if a.ndim == 0:
        return {"scalar": a.item()}
    return {"values": enc_arr(a)}


def _unnan(x):
    if isinstance(x, list):
        return [_unnan(v) for v in x]
    if x == "NaN":
        return NaN
    return x


def dec_arr(d):
    return np.array(_unnan(d["data"]), dtype=d["dtype"]).reshape(d["shape"])


def dec_var(d):
    if d is None:
        return None
    if "scalar" in d:
        return _unnan(d["scalar"])
    if d.get("validity") is not None:
        return (dec_arr(d["values"]), np.array(d["validity"], dtype=bool))
    return dec_arr(d["values"])


def enc_fmt(f):
    if isinstance(f, tuple):
        return {"tuple": [f[0], bool(f[1])]}
    return "NaN" if f != f else f


def dec_fmt(d):
    if isinstance(d, dict):
        return (_unnan(d["tuple"][0]), d["tuple"][1])
    return NaN if d == "NaN" else d


def fmt_kind(f):
    if isinstance(f, tuple):
        return "tuple"
    if isinstance(f, float) and f != f:
        return "nan"
    return "plain"


def var_kind(x):
    if x is None:
        return "none"
    if isinstance(x, tuple):
        return "pair"
    return "scalar" if np.ndim(x) == 0 else "array"


def _var_key(x):
    if x is None:
        return None
    if isinstance(x, tuple):
        a, k = np.asarray(x[0]), np.asarray(x[1])
        return (a.tobytes(), a.dtype.str, a.shape, k.tobytes(), k.dtype.str)
    a = np.asarray(x)
    return (a.tobytes(), a.dtype.str, a.shape)


_MEMO = {}


def spec_of(views, extents, N, fact, weights, ignore, agg):
    """Memoised (value, missing, rule, tolerance): a pure function of the input *values*."""
    key = (agg, bool(ignore), extents, N, tuple(v.tobytes() for v in views), _var_key(fact), _var_key(weights))
    hit = _MEMO.get(key)
    if hit is None:
        if len(_MEMO) > 4000:
            _MEMO.clear()
        val, miss = S.Spec_agg(views, fact, weights, ignore, agg, shape=extents, N=N)
        rule = S.missing_rule(views, fact, weights, ignore, agg, shape=extents, N=N)
        tol = S.tolerance(fact, weights, agg, N)
        # the two independently written formulations of the missing set must coincide
        MON.check("spec_agg.cross_check/two-formulations-of-the-missing-set-coincide", bool(miss.shape == rule.shape and np.array_equal(miss, rule)),
                  lambda: "Spec_agg %r vs missing_rule %r" % (miss.tolist(), rule.tolist()), lambda: {"case": CASE_DESC}, None)
        hit = _MEMO[key] = (val, miss, rule, tol)
    return hit


# ----------------------------------------------------------------------------- aggregate methods


def bind(agg, a, kw):
    """Normalise the arguments of a shortcut method to a dict."""
    if agg == "count":
        names, vals = ("weights", "N", "ignore_missing", "return_missing_as"), [None, None, False, NaN]
    else:
        names, vals = ("arr", "weights", "ignore_missing", "return_missing_as"), [NA, None, False, NaN]
    pos = list(a[1:])
    if len(pos) > len(names):
        raise TypeError("too many positional arguments")
    for i, v in enumerate(pos):
        vals[i] = v
    b = dict(zip(names, vals))
    for k, v in kw.items():
        if k not in b:
            raise TypeError("unexpected argument %r" % k)
        b[k] = v
    if agg != "count" and b["arr"] is NA:
        raise TypeError("missing fact argument")
    b.setdefault("arr", None)
    b.setdefault("N", None)
    return b


def cube_views(kind, cube):
    if kind == "ccube":
        return [view(d) for d in cube.dims]
    return [np.asarray(d).astype(np.int64) for d in cube.dims]


def _nrows(kind, cube, b):
    if len(cube.dims):
        return int(cube.dims[0].shape[0])
    if b.get("arr") is not None:
        return int(S.split_var(b["arr"])[0].shape[0])
    if b["weights"] is not None and np.ndim(S.split_var(b["weights"])[0]):
        return int(S.split_var(b["weights"])[0].shape[0])
    if b.get("N") is not None:
        return int(b["N"])
    raise ValueError("row count unknown")


def make_requires(kind, agg):
    def requires(*a, **kw):
        cube = a[0]
        b = bind(agg, a, kw)
        # dimensions with extra axes are C13's subject
        if any(len(d.shape) != 1 for d in cube.dims):
            return False
        ext = tuple(int(e) for e in cube.interacting_shape)
        if len(ext) != len(cube.dims) or any(e < 1 for e in ext):
            return False
        N = _nrows(kind, cube, b)
        if any(int(d.shape[0]) != N for d in cube.dims):
            return False
        # extents exceed every value and the common value; values non-negative
        if kind == "ccube":
            for d, e in zip(cube.dims, ext):
                if not (0 <= d.common < e) or any(not (0 <= k[0] < e) for k in dict.keys(d)):
                    return False
        else:
            for d, e in zip(cube.dims, ext):
                if d.dtype.kind not in "iu" or (d.size and not (0 <= int(d.min()) and int(d.max()) < e)):
                    return False
        if agg == "count":
            if b["N"] is not None and int(b["N"]) != N:
                return False
        else:
            fv, fk = S.split_var(b["arr"])
            if fv.ndim < 1 or fv.shape[0] != N or fk.shape != fv.shape or fv.dtype.kind not in "fiu":
                return False
        if b["weights"] is not None:
            wv, wk = S.split_var(b["weights"])
            if wv.ndim > 1 or wk.shape != wv.shape or (wv.ndim == 1 and wv.shape[0] != N):
                return False
            ok = np.asarray(wv)[np.asarray(wk)] if wv.ndim else (wv if wk else np.zeros(0))
            if np.any(np.asarray(ok) < 0):  # weights >= 0 (the missing-cell tests `== 0` rely on it)
                return False
        if not isinstance(b["ignore_missing"], (bool, np.bool_)):
            return False
        f = b["return_missing_as"]
        if isinstance(f, tuple) and (len(f) != 2 or f[1] is not False):
            return False
        return True

    return requires


def make_old(kind, agg):
    def old(*a, **kw):
        cube = a[0]
        b = bind(agg, a, kw)
        views = cube_views(kind, cube)
        ext = tuple(int(e) for e in cube.interacting_shape)
        N = _nrows(kind, cube, b)
        fact = b["arr"] if agg != "count" else None
        val, miss, rule, tol = spec_of(views, ext, N, fact, b["weights"], bool(b["ignore_missing"]), agg)
        tail = () if agg == "count" else tuple(S.split_var(fact)[0].shape[1:])
        full = ext + tail
        expect_shape = (1,) if (kind == "xcube" and full == ()) else full
        return {"kind": kind, "agg": agg, "b": b, "views": views, "extents": ext, "N": N, "val": val, "miss": miss,
                "rule": rule, "tol": tol, "shape": expect_shape, "fmt": fmt_kind(b["return_missing_as"]),
                "ignore": bool(b["ignore_missing"])}

    return old


def observe(o, res):
    """(values as float array of the spec's shape, missing mask or None, problem text or None)."""
    fk = o["fmt"]
    if fk == "tuple":
        if not (isinstance(res, tuple) and len(res) == 2):
            return None, None, "result is not a (values, validity) pair: %r" % (res,)
        vals, validity = np.asarray(res[0]), np.asarray(res[1])
        if validity.dtype != np.bool_:
            return None, None, "validity has dtype %s, not bool" % validity.dtype
        if vals.shape != validity.shape:
            return None, None, "values %r and validity %r differ in shape" % (vals.shape, validity.shape)
        missing = ~validity
    else:
        if isinstance(res, tuple):
            return None, None, "result is a tuple under a non-tuple report format"
        vals = np.asarray(res)
        missing = np.isnan(vals.astype(np.float64)) if fk == "nan" else None
    if vals.dtype.kind not in "fiu":
        return None, None, "values have dtype %s" % vals.dtype
    want = o["val"].shape
    if vals.size != o["val"].size:
        return None, None, "result has shape %r, expected %r" % (vals.shape, o["shape"])
    v = vals.astype(np.float64).reshape(want)
    m = None if missing is None else missing.reshape(want)
    return v, m, None


def _cells(mask):
    return [list(map(int, c)) for c in np.argwhere(mask)][:8]


def c_shape(o, res, *a, **kw):
    parts = res if o["fmt"] == "tuple" and isinstance(res, tuple) else (res,)
    for p in parts:
        if tuple(np.shape(p)) != o["shape"]:
            return "output shape %r, required %r (extents %r + fact columns)" % (tuple(np.shape(p)), o["shape"], o["extents"])
    return True


def c_missing_spec(o, res, *a, **kw):
    if o["fmt"] == "plain":
        return NA
    v, m, bad = observe(o, res)
    if bad:
        return bad
    if not np.array_equal(m, o["miss"]):
        return "missing cells reported %r, per-cell definition gives %r (differs at cells %r)" % (
            m.astype(int).tolist(), o["miss"].astype(int).tolist(), _cells(m != o["miss"]))
    return True


def c_values_spec(o, res, *a, **kw):
    v, m, bad = observe(o, res)
    if bad:
        return bad
    keep = ~o["miss"]
    if m is not None:
        keep = keep & ~m  # a cell wrongly reported missing is the missing clause's failure
    with np.errstate(invalid="ignore"):
        diff = np.abs(v - o["val"])
        wrong = keep & ~(diff <= o["tol"])
    if wrong.any():
        return "values %r, per-cell definition gives %r (tolerance %.3g; differs at cells %r)" % (
            v.tolist(), o["val"].tolist(), o["tol"], _cells(wrong))
    return True


def make_c_rule(policy_ignore):
    def c_rule(o, res, *a, **kw):
        if o["fmt"] == "plain" or o["ignore"] != policy_ignore:
            return NA
        v, m, bad = observe(o, res)
        if bad:
            return bad
        if not np.array_equal(m, o["rule"]):
            return "missing cells reported %r; rule (no row, or %s row missing%s) gives %r (differs at cells %r)" % (
                m.astype(int).tolist(), "every" if policy_ignore else "any",
                ", or valid weights sum to zero" if o["agg"] == "mean" else "", o["rule"].astype(int).tolist(),
                _cells(m != o["rule"]))
        return True

    return c_rule


def excluded_shortcut(o):
    """valid_count with a plain replacement value under propagation: documented shortcut, excluded by C04."""
    return o["agg"] == "valid_count" and o["fmt"] == "plain" and not o["ignore"]


def stored_sentinel(sentinel, dtype):
    """The caller's sentinel as the output array's dtype stores it (an integer-typed output cannot
    hold a fractional sentinel; the property constrains the missing *set*, see the report)."""
    with np.errstate(invalid="ignore"):
        return float(np.asarray(sentinel).astype(dtype))


def c_tuple_sentinel(o, res, *a, **kw):
    if o["fmt"] != "tuple":
        return NA
    v, m, bad = observe(o, res)
    if bad:
        return bad
    s = stored_sentinel(o["b"]["return_missing_as"][0], np.asarray(res[0]).dtype)
    wrong = m & ~(v == s)
    if wrong.any():
        return "cells with validity False hold %r, sentinel is %r (cells %r)" % (v[wrong].tolist(), s, _cells(wrong))
    return True


def c_plain_replacement(o, res, *a, **kw):
    if o["fmt"] != "plain" or excluded_shortcut(o):
        return NA
    v, m, bad = observe(o, res)
    if bad:
        return bad
    r = float(o["b"]["return_missing_as"])
    wrong = o["rule"] & ~(v == r)
    if wrong.any():
        return "cells that are missing by the rule hold %r, replacement value is %r (cells %r)" % (v[wrong].tolist(), r, _cells(wrong))
    return True


class Lazy:
    """A description that is only built when a clause has actually failed (see `materialize`)."""
    __slots__ = ("fn", "args", "val")

    def __init__(self, fn, *args):
        self.fn, self.args, self.val = fn, args, None

    def get(self):
        if self.val is None:
            self.val = self.fn(*self.args)
        return self.val

    def items(self):  # the monitor keys kept failures by their class dict
        return self.get().items()


def materialize():
    """Turn the lazy input / class descriptions of the recorded failures into plain JSON-able values
    (called by the driver before the monitor is dumped; arguments are per-call copies, so the
    description is that of the call's own inputs)."""
    for f in MON.failures:
        if isinstance(f.input, Lazy):
            f.input = f.input.get()
        if isinstance(f.cls, Lazy):
            f.cls = f.cls.get()


def describe_call(o, *a, **kw):
    return Lazy(_describe_call, o, a[0], CASE_CLS)


def classify_call(o, *a, **kw):
    return Lazy(_classify_call, o, a[0], CASE_CLS)


def _describe_call(o, cube, case_cls):
    b = o["b"]
    if o["kind"] == "ccube":
        dims = [{"dense": v.tolist(), "common": int(d.common)} for v, d in zip(o["views"], cube.dims)]
    else:
        dims = [{"dense": v.tolist(), "dtype": str(d.dtype)} for v, d in zip(o["views"], cube.dims)]
    return {"call": {"cube": o["kind"], "dims": dims,
                     "interacting_shape": None if case_cls.get("shape") == "inferred" else list(o["extents"]),
                     "agg": o["agg"], "arr": enc_var(b.get("arr")), "weights": enc_var(b["weights"]), "N": b.get("N"),
                     "ignore_missing": o["ignore"], "return_missing_as": enc_fmt(b["return_missing_as"])},
            "spec": {"missing": o["miss"].astype(int).tolist(), "value": o["val"].tolist()}}


def _classify_call(o, cube, case_cls):
    b = o["b"]
    cls = dict(case_cls)
    fact = b.get("arr")
    fv = None if fact is None else S.split_var(fact)[0]
    cls.update({"cube": o["kind"], "agg": o["agg"], "ndims": len(o["extents"]), "weights": var_kind(b["weights"]),
                "ignore_missing": o["ignore"], "format": o["fmt"], "fact": var_kind(fact),
                "fact_cols": 0 if fv is None else (int(np.prod(fv.shape[1:], dtype=int)) if fv.ndim > 1 else 1),
                "fact_ndim": 0 if fv is None else int(fv.ndim),
                "dim_dtypes": sorted(set(str(getattr(d, "dtype", "index")) for d in cube.dims))})
    return cls


def agg_contract(kind, modname, agg):
    qual = "%s.%s.%s" % (modname, kind, agg)
    items = [
        ("ensures-shape-exact", c_shape),
        ("ensures-missing-cells-equal-spec", c_missing_spec),
        ("ensures-values-equal-spec-on-nonmissing-cells", c_values_spec),
        ("missing-rule-propagate", make_c_rule(False)),
        ("missing-rule-ignore", make_c_rule(True)),
        ("formats-tuple-missing-cells-hold-sentinel", c_tuple_sentinel),
        ("formats-plain-missing-cells-hold-replacement", c_plain_replacement),
    ]
    return Contract(qual, requires=make_requires(kind, agg), old=make_old(kind, agg), ensures=_adapt(qual, items),
                    describe=describe_call, classify=classify_call)


# ----------------------------------------------------------------------------- helpers' contracts


def _case_desc(old, *a, **kw):
    return {"case": CASE_DESC}


def _case_cls(old, *a, **kw):
    return dict(CASE_CLS)


def asv_contract(modname):
    qual = "%s.as_separate_validity" % modname

    def src_of(arr):
        return arr[0] if isinstance(arr, tuple) else arr

    def c_alias(o, res, arr):
        src = src_of(arr)
        vals = res[0]
        if not isinstance(vals, np.ndarray):
            return "values are %s, not an ndarray" % type(vals).__name__
        if isinstance(src, np.ndarray):
            if vals.shape != src.shape or vals.dtype != src.dtype:
                return "values have shape/dtype %r/%s, input %r/%s" % (vals.shape, vals.dtype, src.shape, src.dtype)
            if vals is not src and not (src.size and np.shares_memory(vals, src)):
                return "values are a copy of the input array, not an alias"
            return True
        want = np.asarray(src)
        if vals.shape != want.shape or not np.array_equal(vals, want, equal_nan=(want.dtype.kind == "f")):
            return "values %r differ from the input %r" % (vals.tolist(), want.tolist())
        return True

    def c_fresh(o, res, arr):
        validity = np.asarray(res[1])
        vals = res[0]
        if validity.dtype != np.bool_:
            return "validity has dtype %s" % validity.dtype
        if validity.shape != np.shape(vals):
            return "validity shape %r, values shape %r" % (validity.shape, np.shape(vals))
        given = arr[1] if isinstance(arr, tuple) else None
        for other, what in ((src_of(arr), "values"), (given, "given validity")):
            if isinstance(other, np.ndarray) and other.size and validity.size and np.shares_memory(validity, other):
                return "returned validity shares memory with the %s" % what
        return True

    def c_equal(o, res, arr):
        validity = np.asarray(res[1])
        if isinstance(arr, tuple):
            want = np.array(arr[1]) != 0
            how = "the given validity"
        else:
            v = np.asarray(arr)
            want = np.array(v == v)
            how = "~isnan(values)"
        if validity.shape != want.shape or not np.array_equal(validity, want):
            return "validity %r, %s is %r" % (validity.tolist(), how, want.tolist())
        return True

    def requires(arr):
        return True

    items = [("ensures-values-alias-input", c_alias), ("ensures-validity-fresh-bool-same-shape", c_fresh),
             ("ensures-validity-equals-notnan-or-given", c_equal)]
    return Contract(qual, requires=requires, ensures=_adapt(qual, items), describe=_case_desc, classify=_case_cls)


def _strides(ext):
    out = []
    for d in range(len(ext)):
        m = 1
        for e in ext[d + 1:]:
            m *= int(e)
        out.append(m)
    return out


def _size(ext):
    s = 1
    for e in ext:
        s *= int(e)
    return s


def set_strides_contract():
    qual = "xcubes.xcube._set_strides"

    def c_mult(o, res, self):
        # "each dimension is multiplied by the product of the later extents": one multiplier per dimension
        # (the code keeps a trailing 1 for a cube without dimensions; nothing is multiplied by it)
        nd = len(self.interacting_shape)
        got = [int(m) if float(m) == int(m) else float(m) for m in np.asarray(self.multipliers).tolist()]
        want = _strides(self.interacting_shape)
        if len(got) < nd or got[:nd] != want:
            return "multipliers %r, row-major strides of extents %r are %r" % (got, [int(e) for e in self.interacting_shape], want)
        return True

    def c_mintype(o, res, self):
        top = _size(self.interacting_shape) - 1
        if np.dtype(self.mintype).kind not in "iu" or np.iinfo(self.mintype).max < top:
            return "mintype %s cannot hold the largest cell number %d" % (np.dtype(self.mintype), top)
        return True

    items = [("ensures-multipliers-are-products-of-later-extents", c_mult), ("ensures-mintype-addresses-every-cell", c_mintype)]
    return Contract(qual, requires=lambda self: all(int(e) >= 1 for e in self.interacting_shape),
                    ensures=_adapt(qual, items), describe=_case_desc, classify=_case_cls)


def strided_dims_contract():
    qual = "xcubes.xcube.strided_dims"

    def requires(self):
        ext = [int(e) for e in self.interacting_shape]
        return len(ext) == len(self.dims) and all(
            d.dtype.kind in "iu" and (not d.size or (0 <= int(d.min()) and int(d.max()) < e)) for d, e in zip(self.dims, ext))

    def old(self):
        return {"bytes": [d.tobytes() for d in self.dims]}

    def c_ravel(o, res, self):
        if not self.dims:
            return NA
        ext = [int(e) for e in self.interacting_shape]
        if len(res) != len(self.dims):
            return "%d strided arrays for %d dims" % (len(res), len(self.dims))
        total = None
        want = None
        for sd, d, m in zip(res, self.dims, _strides(ext)):
            sd = np.asarray(sd)
            if sd.shape != d.shape:
                return "strided array has shape %r, dim %r" % (sd.shape, d.shape)
            t = sd.astype(object)
            w = d.astype(object) * m
            total = t if total is None else total + t
            want = w if want is None else want + w
        if total.tolist() != want.tolist():
            return "sum of strided dims %r, ravel_multi_index(coords, %r) is %r" % (total.tolist(), ext, want.tolist())
        return True

    def c_below(o, res, self):
        if not self.dims:
            return NA
        size = _size(self.interacting_shape)
        total = None
        for sd in res:
            t = np.asarray(sd).astype(object)
            total = t if total is None else total + t
        flat = total.reshape(-1).tolist() if total is not None else []
        if any(not (0 <= t < size) for t in flat):
            return "cell numbers %r outside [0, %d)" % (flat, size)
        return True

    def c_frame(o, res, self):
        if [d.tobytes() for d in self.dims] != o["bytes"]:
            return "self.dims changed"
        return True

    items = [("ensures-sum-equals-ravel-multi-index", c_ravel), ("ensures-cell-number-below-size", c_below),
             ("frame-dims-unchanged", c_frame)]
    return Contract(qual, requires=requires, old=old, ensures=_adapt(qual, items), describe=_case_desc, classify=_case_cls)


_NORM = {}


def _norm_expect(arr, weights):
    """(valid, w*f zeroed, w zeroed) per row [and column] from the caller's arguments (memoised by value)."""
    key = (_var_key(arr), _var_key(weights))
    hit = _NORM.get(key)
    if hit is not None:
        return hit
    if len(_NORM) > 2000:
        _NORM.clear()
    fv, fk = S.split_var(arr)
    f0 = np.where(fk, fv, 0).astype(np.float64)
    if weights is None:
        valid = fk
        wf = f0
        wz = valid.astype(np.float64)
    else:
        wv, wk = S.split_var(weights)
        w0 = np.where(wk, wv, 0).astype(np.float64)
        valid = (fk.T & wk).T
        wf = np.where(valid, (f0.T * w0).T, 0.0)
        wz = np.where(valid, (np.ones(fk.shape).T * w0).T, 0.0)
    hit = _NORM[key] = (valid, wf, wz)
    return hit


def _same(a, b):
    a = np.asarray(a)
    return a.shape == b.shape and bool(np.all(np.abs(a.astype(np.float64) - b) <= 1e-12 * np.maximum(1.0, np.abs(b))))


def init_contract(modname, cls):
    """Normalisation done by the constructor of a fact aggregate (result is `self`'s new state)."""
    qual = "%s.%s.__init__" % (modname, cls)
    agg = cls.split("_", 1)[1]
    names = ("weights", "N", "ignore_missing", "return_missing_as") if agg == "count" else ("arr", "weights", "ignore_missing", "return_missing_as")

    def args(a, kw):
        b = dict(zip(names, a[1:]))
        b.update({k: v for k, v in kw.items() if k in names})
        return b

    def requires(*a, **kw):
        b = args(a, kw)
        if agg != "count":
            fv, fk = S.split_var(b["arr"])
            if fv.ndim < 1 or fv.dtype.kind not in "fiu":
                return False
        w = b.get("weights")
        if w is not None:
            wv, wk = S.split_var(w)
            if wv.ndim > 1:
                return False
        return True

    def old(*a, **kw):
        b = args(a, kw)
        w = b.get("weights")
        if agg == "count":
            if w is None:
                return {"weights": None}
            wv, wk = S.split_var(w)
            return {"weights": w, "valid": wk, "wz": np.where(wk, wv, 0).astype(np.float64)}
        valid, wf, wz = _norm_expect(b["arr"], w)
        return {"weights": w, "valid": valid, "wf": wf, "wz": wz}

    def c_validity(o, res, *a, **kw):
        self = a[0]
        if agg == "count" and o["weights"] is None:
            return True if self.validity is None else "validity %r without weights" % (self.validity,)
        want = o["valid"]
        got = np.asarray(self.validity)
        if got.dtype != np.bool_ or got.shape != want.shape or not np.array_equal(got, want):
            return "validity %r, fact-valid and weight-valid is %r" % (got.tolist(), want.tolist())
        return True

    def c_summables(o, res, *a, **kw):
        if agg not in ("sum", "mean"):
            return NA
        if not _same(a[0].summables, o["wf"]):
            return "summables %r, weighted values zeroed where invalid are %r" % (np.asarray(a[0].summables).tolist(), o["wf"].tolist())
        return True

    def c_countables(o, res, *a, **kw):
        self = a[0]
        if agg == "count":
            if o["weights"] is None:
                return NA
            got, what = self.weights, "weights"
        elif agg in ("valid_count", "mean"):
            got, what = self.countables, "countables"
        else:
            return NA
        if not _same(got, o["wz"]):
            return "%s %r, weights zeroed where invalid are %r" % (what, np.asarray(got).tolist(), o["wz"].tolist())
        return True

    items = [("ensures-validity-is-fact-and-weight-validity", c_validity),
             ("ensures-summables-are-weighted-values-zeroed-where-invalid", c_summables),
             ("ensures-countables-are-weights-zeroed-where-invalid", c_countables)]
    return Contract(qual, requires=requires, old=old, ensures=_adapt(qual, items), describe=_case_desc, classify=_case_cls)


def fill_contract(cls):
    """xfunc_*.fill(coordinates, regions): per bin, every region holds the sum over the rows of the bin
    of the aggregate's own normalised arrays (whose content is the constructor's postcondition).
    The expectation is a one-hot (bin x row) matrix product - no bincount, no masks per bin."""
    qual = "xfuncs.%s.fill" % cls
    agg = cls.split("_", 1)[1]

    def nrows(self, coordinates):
        if coordinates is not None:
            return int(np.shape(coordinates)[0])
        if agg == "count":
            if self.weights is not None and np.ndim(self.weights):
                return int(np.shape(self.weights)[0])
            return None if self.N is None else int(self.N)
        return int(np.shape(self.validity)[0])

    def requires(self, coordinates, regions):
        n = nrows(self, coordinates)
        if n is None or (coordinates is not None and np.ndim(coordinates) != 1):
            return False
        for name in ("validity", "weights", "summables", "countables"):
            v = getattr(self, name, None)
            if v is not None and np.ndim(v) and np.shape(v)[0] != n:
                return False
        return True

    def which(self):
        """names of the regions in order"""
        if agg == "count" and self.weights is None:
            return ["values"]
        if agg == "valid_count" and not isinstance(self.return_missing_as, tuple) and self.return_missing_as == 0:
            return ["values"]
        return ["values", "valid", "missing"][: 2 if self.ignore_missing else 3]

    def old(self, coordinates, regions):
        names = which(self)
        n = nrows(self, coordinates)
        tail = tuple(self.shape)
        size = int(np.asarray(regions[0]).reshape((-1,) + tail).shape[0]) if len(regions) else 0
        if coordinates is None:
            onehot = np.ones((1, n), dtype=np.float64)
        else:
            co = np.asarray(coordinates).astype(np.int64)
            onehot = (co[None, :] == np.arange(size, dtype=np.int64)[:, None]).astype(np.float64)
        nb = onehot.sum(axis=1)

        def per_bin(x):
            x = np.asarray(x)
            if x.ndim == 0:  # scalar weight / its validity: one value for every row
                return nb * float(x)
            m = int(np.prod(x.shape[1:], dtype=np.int64))
            return (onehot @ x.reshape(n, m).astype(np.float64)).reshape((onehot.shape[0],) + x.shape[1:])

        exp = {}
        if agg == "count":
            if self.weights is None:
                exp["values"] = nb
            else:
                exp["values"] = per_bin(self.weights)
                exp["valid"] = per_bin(self.validity)
                exp["missing"] = nb - exp["valid"]
        else:
            nvalid = per_bin(self.validity)
            exp["values"] = per_bin(self.summables if agg in ("sum", "mean") else self.countables)
            exp["valid"] = per_bin(self.countables) if agg == "mean" else nvalid
            exp["missing"] = (nb.reshape((-1,) + (1,) * (nvalid.ndim - 1)) - nvalid)
        return {"names": names, "exp": exp, "tail": tail, "nb": nb}

    def make(part):
        def clause(o, res, self, coordinates, regions):
            names = o["names"]
            if part not in names:
                return NA
            if len(regions) != len(names):
                return "%d regions, expected %r" % (len(regions), names)
            got = np.asarray(regions[names.index(part)]).reshape((-1,) + o["tail"]).astype(np.float64)
            want = o["exp"][part]
            if got.shape != want.shape:
                return "region has shape %r, expected %r" % (got.shape, want.shape)
            bad = ~(np.abs(got - want) <= 1e-9 * np.maximum(1.0, np.abs(want)))
            if bad.any():
                b = int(np.argwhere(bad)[0][0])
                rows = list(range(int(o["nb"][0]))) if coordinates is None else [r for r, c in enumerate(np.asarray(coordinates).tolist()) if int(c) == b]
                return "bin %d (rows %r): region holds %r, sum over its rows is %r" % (b, rows, got[b].tolist(), want[b].tolist())
            return True

        return clause

    items = [("ensures-per-bin-values", make("values")), ("ensures-per-bin-valid-counts", make("valid")),
             ("ensures-per-bin-missing-counts", make("missing"))]
    return Contract(qual, requires=requires, old=old, ensures=_adapt(qual, items), describe=_case_desc, classify=_case_cls)


def _ffunc_parts(self, agg):
    """names of the regions of an index-cube aggregate, in order"""
    if agg == "count" and self.weights is None:
        return ["values"]
    if agg == "valid_count" and not isinstance(self.return_missing_as, tuple) and self.return_missing_as == 0:
        return ["values"]
    return ["values", "valid", "missing"][: 2 if self.ignore_missing else 3]


def _ffunc_over_rows(self, agg, rows, n):
    """{part: sum over the given rows (None = all n rows)} from the aggregate's own normalised arrays
    (whose content is the constructor's postcondition)."""

    def tot(x):
        x = np.asarray(x)
        if x.ndim == 0:  # scalar weight / its validity: the same value for every row
            return float(x) * n
        if rows is not None:
            x = x[rows]
        return x.astype(np.float64).sum(axis=0)

    exp = {}
    if agg == "count":
        if self.weights is None:
            exp["values"] = float(n)
        else:
            exp["values"] = tot(self.weights)
            exp["valid"] = tot(self.validity)
            exp["missing"] = n - exp["valid"]
    else:
        nvalid = tot(self.validity)
        exp["values"] = tot(self.summables if agg in ("sum", "mean") else self.countables)
        exp["valid"] = tot(self.countables) if agg == "mean" else nvalid
        exp["missing"] = n - nvalid
    return exp


def _ffunc_nrows(self, agg, cube):
    if agg != "count":
        return int(np.shape(self.validity)[0])
    if self.N is not None:
        return int(self.N)
    if cube is not None and cube.dims:
        return int(cube.dims[0].shape[0])
    if self.weights is not None and np.ndim(self.weights):
        return int(np.shape(self.weights)[0])
    return None


def _close(got, want):
    got = np.asarray(got, dtype=np.float64)
    want = np.broadcast_to(np.asarray(want, dtype=np.float64), got.shape) if np.ndim(want) <= got.ndim else np.asarray(want)
    return got.shape == want.shape and bool(np.all(np.abs(got - want) <= 1e-9 * np.maximum(1.0, np.abs(want))))


def initial_regions_contract(cls):
    """ffunc_*.get_initial_regions(cube): working-shaped regions, zero except for the corner, which holds the
    totals over all rows (the marginal differencing in `reduce` subtracts from them)."""
    qual = "ffuncs.%s.get_initial_regions" % cls
    agg = cls.split("_", 1)[1]

    def requires(self, cube):
        return hasattr(cube, "working_shape") and hasattr(cube, "corner") and _ffunc_nrows(self, agg, cube) is not None

    def old(self, cube):
        n = _ffunc_nrows(self, agg, cube)
        tail = () if agg == "count" else tuple(np.shape(self.validity)[1:])
        return {"names": _ffunc_parts(self, agg), "exp": _ffunc_over_rows(self, agg, None, n), "shape": tuple(cube.working_shape) + tail, "n": n}

    def c_shape(o, res, self, cube):
        if len(res) != len(o["names"]):
            return "%d regions, expected %r" % (len(res), o["names"])
        for name, r in zip(o["names"], res):
            if tuple(np.shape(r)) != o["shape"]:
                return "region %r has shape %r, working shape (+ fact columns) is %r" % (name, tuple(np.shape(r)), o["shape"])
        return True

    def make_corner(part):
        def clause(o, res, self, cube):
            if part not in o["names"]:
                return NA
            got = np.asarray(res[o["names"].index(part)])[cube.corner]
            if not _close(got, o["exp"][part]):
                return "corner of the %s region holds %r, total over all %d rows is %r" % (part, np.asarray(got).tolist(), o["n"], np.asarray(o["exp"][part]).tolist())
            return True

        return clause

    def c_rest(o, res, self, cube):
        for name, r in zip(o["names"], res):
            z = np.array(r, dtype=np.float64, copy=True)
            z[cube.corner] = 0
            if np.any(z != 0):
                return "region %r is not zero outside the corner: %r" % (name, np.asarray(r).tolist())
        return True

    items = [("ensures-regions-have-working-shape", c_shape), ("ensures-corner-values-total", make_corner("values")),
             ("ensures-corner-valid-count-total", make_corner("valid")), ("ensures-corner-missing-count-total", make_corner("missing")),
             ("ensures-zero-outside-corner", c_rest)]
    return Contract(qual, requires=requires, old=old, ensures=_adapt(qual, items), describe=_case_desc, classify=_case_cls)


def fill_closure_contract(cls, func, regions):
    """The `_fill(x_coords, x_rowids)` closure returned by ffunc_*.fill_func(regions): the addressed cell of every
    region holds the sum over the given row ids; every other cell is unchanged."""
    qual = "ffuncs.%s.fill_func._fill" % cls
    agg = cls.split("_", 1)[1]

    def requires(x_coords, x_rowids):
        r = np.asarray(x_rowids)
        return isinstance(x_coords, tuple) and r.ndim == 1 and r.dtype.kind in "iu"

    def old(x_coords, x_rowids):
        return {"names": _ffunc_parts(func, agg), "before": [np.array(r, copy=True) for r in regions],
                "exp": _ffunc_over_rows(func, agg, np.asarray(x_rowids).astype(np.int64), len(x_rowids))}

    def make_cell(part):
        def clause(o, res, x_coords, x_rowids):
            if part not in o["names"]:
                return NA
            if len(regions) != len(o["names"]):
                return "%d regions, expected %r" % (len(regions), o["names"])
            got = regions[o["names"].index(part)][x_coords]
            if not _close(got, o["exp"][part]):
                return "cell %r of the %s region holds %r, sum over rows %r is %r" % (
                    x_coords, part, np.asarray(got).tolist(), np.asarray(x_rowids).tolist(), np.asarray(o["exp"][part]).tolist())
            return True

        return clause

    def c_frame(o, res, x_coords, x_rowids):
        for name, r, b in zip(o["names"], regions, o["before"]):
            now = np.array(r, copy=True)
            now[x_coords] = b[x_coords]
            if not np.array_equal(now, b, equal_nan=True):
                return "region %r changed outside cell %r" % (name, x_coords)
        return True

    items = [("ensures-cell-holds-values-over-rowids", make_cell("values")), ("ensures-cell-holds-valid-count-over-rowids", make_cell("valid")),
             ("ensures-cell-holds-missing-count-over-rowids", make_cell("missing")), ("frame-other-cells-unchanged", c_frame)]
    return Contract(qual, requires=requires, old=old, ensures=_adapt(qual, items), describe=_case_desc, classify=_case_cls)


def wrap_fill_func(klass, cls):
    """`fill_func` returns a closure: replace the method so that the closure it returns is under contract
    (DESIGN Appendix B)."""
    from .contract import wrap

    real = klass.__dict__["fill_func"]

    def fill_func(self, regions):
        f = real(self, regions)
        if not MON.enabled:
            return f
        return wrap(f, fill_closure_contract(cls, self, list(regions)))

    fill_func.__wrapped_real__ = real
    klass.fill_func = fill_func


# ----------------------------------------------------------------------------- installation

_installed = {}


def install():
    """Attach every contract of this module to the scratch-imported package (once per process)."""
    if _installed:
        return _installed
    import catii
    from catii import ccubes, ffuncs, xcubes, xfuncs

    for agg in AGG_METHODS:
        attach(ccubes.ccube, agg, agg_contract("ccube", "ccubes", agg))
        attach(xcubes.xcube, agg, agg_contract("xcube", "xcubes", agg))
    # `as_separate_validity` is a module-level name looked up at call time in both modules
    attach(ffuncs, "as_separate_validity", asv_contract("ffuncs"))
    attach(xfuncs, "as_separate_validity", asv_contract("xfuncs"))
    attach(xcubes.xcube, "_set_strides", set_strides_contract())
    attach(xcubes.xcube, "strided_dims", strided_dims_contract())
    for agg in AGG_METHODS:
        attach(getattr(xfuncs, "xfunc_" + agg), "__init__", init_contract("xfuncs", "xfunc_" + agg))
        attach(getattr(ffuncs, "ffunc_" + agg), "__init__", init_contract("ffuncs", "ffunc_" + agg))
        attach(getattr(xfuncs, "xfunc_" + agg), "fill", fill_contract("xfunc_" + agg))
        attach(getattr(ffuncs, "ffunc_" + agg), "get_initial_regions", initial_regions_contract("ffunc_" + agg))
        wrap_fill_func(getattr(ffuncs, "ffunc_" + agg), "ffunc_" + agg)
    # the package re-exports the cube classes by reference: same class objects, nothing to re-point
    assert catii.ccube is ccubes.ccube and catii.xcube is xcubes.xcube
    _installed.update(ccubes=ccubes, xcubes=xcubes, ffuncs=ffuncs, xfuncs=xfuncs, ccube=ccubes.ccube, xcube=xcubes.xcube)
    return _installed
