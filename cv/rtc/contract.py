"""Run-time contracts on the real functions (engine C; the *bounded stand-in*, never `proved`).

`attach(owner, attr, Contract)` replaces a function / method of the scratch-imported package by
a wrapper that, on every call (also nested calls from other library code):

   evaluates `requires`           - a call outside the precondition is counted and passed through;
   takes the `old` snapshot       - ghost state (dense views, byte snapshots) before the call;
   runs the real function         - an exception inside `requires` is a failed `no-raise` clause;
   evaluates every named `ensures` clause over (old, result, args).

Every clause has a counter; a clause with zero evaluations at the end of a run is a checker error
(guards against a reference bound before the wrapper was installed).  A failing clause becomes a
`Failure` carrying the clause's qualified name (the obligation), a JSON description of the inputs
and "required vs observed" text.  Semantics follow icontract's require/snapshot/ensure; the layer
is ~100 lines of our own because the checks need named clauses, counters and input capture
(icontract itself is importable in the check venv and is used nowhere else).
"""
import collections
import functools


class Failure:
    __slots__ = ("obligation", "what", "input", "cls")

    def __init__(self, obligation, what, input, cls=None):
        self.obligation = obligation
        self.what = what
        self.input = input
        self.cls = cls or {}


class Monitor:
    def __init__(self):
        self.evals = collections.Counter()
        self.outside = collections.Counter()
        self.calls = collections.Counter()
        self.failures = []
        self.fail_counts = collections.Counter()
        self.class_counts = collections.Counter()
        self.enabled = True
        self.keep_per_obligation = 3

    def record(self, obligation, what, input, cls=None):
        """Keep up to `keep_per_obligation` failures per (obligation, failure class): the class is the
        `cls` dict when given, else the leading words of the message - so that many failures of one
        kind cannot mask a different kind under the same clause."""
        self.fail_counts[obligation] += 1
        key = (obligation, _class_key(what, cls))
        self.class_counts[key] += 1
        if self.class_counts[key] <= self.keep_per_obligation and len(self.failures) < 400:
            self.failures.append(Failure(obligation, what, input, cls))

    def check(self, obligation, ok, what=None, input=None, cls=None):
        """Direct clause evaluation (for relational clauses stated by a driver)."""
        self.evals[obligation] += 1
        if ok is not True:
            w = what() if callable(what) else what
            i = input() if callable(input) else input
            c = cls() if callable(cls) else cls
            self.record(obligation, (ok if isinstance(ok, str) else "") + (" " + w if w else ""), i, c)
            return False
        return True

    def merge(self, other):
        self.evals.update(other["evals"])
        self.outside.update(other["outside"])
        self.calls.update(other["calls"])
        for ob, n in other["fail_counts"].items():
            self.fail_counts[ob] += n
        for f in other["failures"]:
            key = (f["obligation"], _class_key(f["what"], f["cls"]))
            self.class_counts[key] += 1
            if self.class_counts[key] <= self.keep_per_obligation and len(self.failures) < 400:
                self.failures.append(Failure(f["obligation"], f["what"], f["input"], f["cls"]))

    def dump(self):
        return {
            "evals": dict(self.evals), "outside": dict(self.outside), "calls": dict(self.calls),
            "fail_counts": dict(self.fail_counts),
            "failures": [{"obligation": f.obligation, "what": f.what, "input": f.input, "cls": f.cls} for f in self.failures],
        }


def _class_key(what, cls):
    if cls:
        try:
            return repr(sorted((str(k), repr(v)) for k, v in cls.items()))
        except Exception:
            pass
    return " ".join(str(what).split()[:4])


MON = Monitor()


class Contract:
    """requires(*a, **kw) -> bool;  old(*a, **kw) -> snapshot;
    ensures: list of (clause_name, fn(old, result, *a, **kw) -> True | message string);
    describe(old, *a, **kw) -> JSON-able input description; classify(old, *a, **kw) -> dict;
    may_raise: exception classes that are documented behaviour inside `requires`."""

    def __init__(self, qualname, requires=None, old=None, ensures=(), describe=None, classify=None, may_raise=()):
        self.qualname = qualname
        self.requires = requires
        self.old = old
        self.ensures = list(ensures)
        self.describe = describe
        self.classify = classify
        self.may_raise = tuple(may_raise)


def wrap(f, c):
    @functools.wraps(f)
    def wrapper(*a, **kw):
        if not MON.enabled:
            return f(*a, **kw)
        MON.calls[c.qualname] += 1
        try:
            ok = True if c.requires is None else bool(c.requires(*a, **kw))
        except Exception:
            ok = False
        if not ok:
            MON.outside[c.qualname] += 1
            return f(*a, **kw)
        # ghost evaluation must not itself be monitored
        MON.enabled = False
        try:
            old = c.old(*a, **kw) if c.old else None
            desc = c.describe(old, *a, **kw) if c.describe else None
            cls = c.classify(old, *a, **kw) if c.classify else None
        finally:
            MON.enabled = True
        nr = c.qualname + "/no-raise"
        MON.evals[nr] += 1
        try:
            res = f(*a, **kw)
        except c.may_raise:
            raise
        except Exception as e:
            MON.record(nr, "raised %s: %s inside its precondition" % (type(e).__name__, str(e)[:200]), desc, cls)
            raise
        MON.enabled = False
        try:
            for name, fn in c.ensures:
                ob = c.qualname + "/" + name
                MON.evals[ob] += 1
                try:
                    r = fn(old, res, *a, **kw)
                except Exception as e:  # a clause that cannot be evaluated on this result has failed
                    r = "clause could not be evaluated: %s: %s" % (type(e).__name__, str(e)[:160])
                if r is not True:
                    MON.record(ob, r if isinstance(r, str) else "clause is false", desc, cls)
        finally:
            MON.enabled = True
        return res

    wrapper.__cv_contract__ = c
    wrapper.__wrapped_real__ = f
    return wrapper


def attach(owner, attr, c, kind="function"):
    if attr.startswith("_") and not attr.startswith("__") and not hasattr(owner, attr):
        # a private helper that no longer exists under this name: its contract does not bind (stale), nothing is broken
        MON.calls["stale:" + c.qualname] += 1
        return
    raw = owner.__dict__[attr] if hasattr(owner, "__dict__") and attr in owner.__dict__ else getattr(owner, attr)
    if isinstance(raw, classmethod):
        setattr(owner, attr, classmethod(wrap(raw.__func__, c)))
    elif isinstance(raw, staticmethod):
        setattr(owner, attr, staticmethod(wrap(raw.__func__, c)))
    else:
        setattr(owner, attr, wrap(raw, c))
