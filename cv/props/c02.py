"""C02 - count cube equals the brute-force contingency table (bounded; DESIGN §6 C02).

Chain of run-time contracts on the real functions, each checked at every call made while every
cube of the scope is counted in the three report formats:
get_initial_regions -> the _fill closures -> _compute_common_cells_from_marginal_diffs -> reduce -> count,
against a brute-force table computed from the dense views (spec_cube).  The first link of the chain,
walk/_walk, is C14's (same driver, same cases); here its effect is restated as the clause
`reduce/entry-region-is-what-walk-and-fill-must-leave`.  In the quick tier the walk contracts are
not attached during this run (C14 attaches them on the same cases); the thorough tier attaches both.
"""
from .. import core
from ..rtc import contracts_cube_count, drive_cube_count, runner

LEVEL = "exploration"
PROP = "C02"
SCOPE = ("every cube of the scope = every list of 0-3 (thorough: also 4) row-aligned indexes built with speclib.mk: 1 dim N <= 4 over categories "
         "{0,1,2} x commons {0,1,2,3}; 2 dims N <= 4 over {0,1,2}^2 x commons {0,1,2}^2; 3 dims N <= 4 over {0,1}^3, N <= 2 over {0,1,2}^3 and "
         "N = 3 with one axis over {0,1,2}, commons {0,1,2} per dimension (most frequent, rare, absent from the data); dimensions with two and "
         "three axes (N <= 2, C, D <= 2, up to three dimensions) giving scaffold axes; inferred shape for every case and an explicit padded "
         "shape (+1/+2 per axis) for N <= 3 (N <= 2 for 3 dims over {0,1,2}); extent-boundary cases (257,2), (2,129), (256,2), (2,128) padded, "
         "with the top category present, and with it as the common value; lopsided family: 257/300/600 rows, an entry of 1-2 rows (first, last, row 256) against an "
         "entry of (nearly) all rows, 2-3 dims in both orders; hugeN family: 1-2 dims of 2**24+1, 2**24+4, 2**31+5, 2**32-1 rows with 2-4 uncommon rows (sparse oracle); 0 dims: ccube([]).count(N=n), n <= 4. Thorough adds N = 5 (1-2 dims), "
         "3 dims N = 3 over {0,1,2}, 4 dims N <= 3 exhaustive, 4 dims N = 4, 5 sampled with the seed, extents 256/257/65536/65537 on each axis "
         "of a 4-dim cube, and the explicit shapes left out above")
RULES = {
    "C02": SCOPE + "; each cube is counted once per report format (NaN, (0, False), plain 0; the last with N passed explicitly): distinct inputs are "
                   "(cube, format) pairs, enumerated without repetition; non-trivial = at least one dimension and at least one row",
    "C14": SCOPE + "; per cube with one-axis dimensions: interactions(), walk((f, g)) and (up to 2 dims) walk(f) - on the inferred-shape twin only, "
                   "the walk does not read the cube shape - plus the walks calculate makes on the 1-D sub-cubes during one default-format count "
                   "(all families; 3 plain dims up to 2 rows): distinct inputs are (cube, call form) pairs, enumerated without repetition; "
                   "non-trivial = at least one row",
}

EXPECT = {
    "C02": ["get_initial_regions/ensures-corner-cell-equals-row-count", "get_initial_regions/ensures-every-other-cell-zero",
            "get_initial_regions/ensures-one-region-of-working-shape", "_fill/ensures-cell-equals-number-of-rowids",
            "_fill/ensures-every-other-cell-unchanged", "_fill/frame-rest-of-stacked-region-unchanged",
            "marginal_diffs/ensures-every-cell-of-marginless-block-equals-bruteforce-count",
            "marginal_diffs/ensures-margin-cells-hold-bruteforce-marginal-totals",
            "reduce/entry-region-is-what-walk-and-fill-must-leave", "reduce/ensures-missing-exactly-where-bruteforce-count-is-zero",
            "reduce/ensures-cells-equal-bruteforce-count-table", "reduce/ensures-shape-is-scaffold-plus-interacting-shape",
            "count/ensures-missing-exactly-where-bruteforce-count-is-zero", "count/ensures-cells-equal-bruteforce-count-table",
            "count/ensures-shape-is-scaffold-plus-interacting-shape", "zero-dimension-cube-without-N-is-refused", "count/ensures-cells-equal-the-count-table-of-a-sparse-index-of-millions-of-rows"],
    "C14": ["walk/ensures-trace-delivers-every-nonempty-combination", "walk/ensures-trace-delivers-nothing-else-and-each-exactly-once",
            "walk/ensures-trace-rowids-equal-bruteforce-rows", "walk/ensures-trace-rowids-uint32-strictly-increasing-nonempty",
            "walk/ensures-trace-never-presents-common-category",
            "_walk/ensures-trace-delivers-every-nonempty-combination[first-dim]", "_walk/ensures-trace-delivers-every-nonempty-combination[middle-dim]",
            "_walk/ensures-trace-delivers-every-nonempty-combination[last-dim-unrestricted]",
            "_walk/ensures-trace-delivers-every-nonempty-combination[last-dim-restricted]",
            "_walk/ensures-trace-delivers-nothing-else-and-each-exactly-once[middle-dim]", "_walk/ensures-trace-rowids-equal-bruteforce-rows[middle-dim]",
            "_walk/entry-base-rowids-are-the-running-intersection[middle-dim]", "_walk/entry-base-rowids-are-the-running-intersection[last-dim-restricted]",
            "interactions/ensures-result-delivers-every-nonempty-combination", "interactions/ensures-result-rowids-equal-bruteforce-rows"],
}

PARTS = {"C02": ["count"], "C14": ["walk", "count1"]}


def _walk_contract_binds():
    """The per-branch contract of the private `_walk` is stated for (self, dims, base_coords, base_rowids, funcs)."""
    import ast

    from .. import env

    for c in ast.parse(env.read_source("ccubes.py")).body:
        if isinstance(c, ast.ClassDef) and c.name == "ccube":
            for m in c.body:
                if isinstance(m, ast.FunctionDef) and m.name == "_walk":
                    a = m.args
                    return len(a.args) == 5 and not (a.defaults or a.vararg or a.kwarg or a.kwonlyargs or a.posonlyargs)
    return False


def run(ctx, prop=PROP):
    thorough = ctx.tier == "thorough"
    extra = {"parts": PARTS[prop], "seed": int(ctx.seed), "walk_contracts": bool(prop == "C14" or thorough)}
    mon, totals = runner.run_sharded(drive_cube_count.work, ctx.tier, extra=extra)
    fams = {}
    for fam, _, _ in drive_cube_count.cases(ctx.tier, int(ctx.seed)):
        fams[fam] = fams.get(fam, 0) + 1
    if sum(fams.values()) != totals["jobs"]:
        raise core.CheckerBroken("shards enumerated %r cases, the parent %r" % (totals["jobs"], sum(fams.values())))
    outside = {k: v for k, v in mon.outside.items() if v}
    if outside:
        # every call the driver provokes is inside the preconditions on a tree where the links hold; a call outside
        # (e.g. a region that is not what walk + fill must leave) is visible here and in the failing clause upstream
        ctx.notes.append("calls outside a precondition: %r" % outside)
    sym = None
    if prop == "C02":
        # marginal differencing of the REAL function on symbolic cell contents: all data, bounded shapes (cv/kvc/symdiff.py)
        from ..kvc import symdiff

        try:
            res, secs = symdiff.run(ctx.tier)
        except symdiff.Stale as e:
            res, secs = [], 0.0
            ctx.notes.append("proof_stale: %s - the symbolic differencing obligations are not generated; the bounded chain decides" % e)
        badsym = [r for r in res if r[1] != "unsat"]
        for name, verdict, detail in badsym[:3]:
            ctx.violation(core.Violation("C02", name, "the real _compute_common_cells_from_marginal_diffs, run on symbolic cell contents, does not return the "
                                         "per-cell value: %r" % (detail,), input={"config": name.split("[", 1)[1].rstrip("]"), "cell": detail},
                                         cls={"function": "_compute_common_cells_from_marginal_diffs"}))
        sym = {"what": "real marginal differencing executed on z3 terms (object-dtype region): result == per-cell symbol for ALL cell contents; bounded in shape",
               "obligations": len(res), "discharged": len(res) - len(badsym), "solver_s": round(secs, 2),
               "samples": [r[0] for r in res[:: max(1, len(res) // 5)]][:6]}
    expect = EXPECT[prop]
    if prop == "C14" and not _walk_contract_binds():
        expect = [e for e in expect if not e.startswith("_walk/")]
        ctx.notes.append("proof_stale: the private ccube._walk no longer has the signature its per-branch run-time contract is stated for; "
                         "the contracts of walk / interactions judge the complete trace")
    runner.report(ctx, mon, totals, lambda ob: contracts_cube_count.property_of(ob) == prop, RULES[prop],
                  expect_clauses=expect, exhaustive=not thorough,
                  extra_cov={"cases_by_family": fams, "cases": int(totals["jobs"]), "parts": PARTS[prop],
                             "sampled_families": ["4d-sampled"] if thorough else []})
    if sym:
        ctx.coverage["proved_subobligations"] = sym
    ctx.assumptions += [
        "bounded: holds on the enumerated cube scope only (engine C is the bounded stand-in, not a proof)",
        "precondition from the code: categories and common values are non-negative and below the extent of their axis "
        "(the inferred shape guarantees it; an explicit interacting_shape must); weights is None",
        "a zero-dimension cube is counted only when N is passed (ccube([]).count(N=n)); without N the library raises its documented ValueError",
        "set_intersect_merge_np is covered by C08/C09 (proof); here it is exercised through _walk only",
    ]


def replay(path):
    import json

    rec = json.load(open(path))
    case = (rec.get("input") or {}).get("case") if isinstance(rec.get("input"), dict) else None
    if case is None and isinstance(rec.get("input"), dict) and "dims" in rec["input"]:
        case = rec["input"]
    if case is None:
        print("this replay file carries no driver case; re-run the check itself: ./check %s" % rec["property"])
        return core.EXIT_UNDECIDED
    bad, allf = drive_cube_count.replay_case(case, rec["obligation"])
    for f in allf:
        print("FAILED %s: %s" % (f.obligation, f.what))
    if bad:
        print("VIOLATION property=%s replay=%s" % (rec["property"], path))
        return core.EXIT_VIOLATION
    print("clause %s holds on the recorded input" % rec["obligation"])
    return core.EXIT_OK
