"""C16 - pooled evaluation is schedule-independent (other: frame contracts per task + commutation lemma).

No schedule is explored.  Per task the frame clauses O1-O4 are checked by the substituted pool on the
real closures (bounded in inputs); the two-task commutation lemma is discharged by z3; the static
store-freshness obligations of fill_one_cube / the fill functions are discharged by engine B."""
from .. import core, env
from ..frames import drive_sched, fresh, lemma
from ..rtc import runner

LEVEL = "other"
RULE = ("cubes with >= 3 sub-cubes (layouts with one or several multi-axis dimensions), every aggregate singly and in groups, both cube types; "
        "plus cubes with 65, 81, 65 and 130 sub-cubes (thorough: 257, 272, 1025) with three aggregate groups each; a case = one monitored pooled calculate(); all distinct by construction")
EXPECT = ["pooled-equals-serial", "task-frame-O1", "task-frame-O2", "task-frame-O3", "task-frame-O4", "task-frame-O5", "pooled-path-engaged"]


def static_part(ctx, which_funcs):
    total = ok = 0
    failing = []
    for mod in ("ffuncs", "xfuncs", "ccubes", "xcubes"):
        sites, _ = fresh.analyse_module(mod, env.read_source(mod + ".py"))
        for s in sites:
            if not which_funcs(s.name):
                continue
            total += 1
            if s.ok:
                ok += 1
            else:
                failing.append(s)
    return total, ok, failing


def task_set_static():
    """Structural obligation on the two calculate() ASTs: the pooled branch hands the pool, in ONE map call, the very iterable
    expression the serial branch loops over, and applies the same task function.  -> (obligations, stale)"""
    import ast

    obls, stale = [], []
    for mod, cls in (("ccubes", "ccube"), ("xcubes", "xcube")):
        tree = ast.parse(env.read_source(mod + ".py"))
        fn = next((m for c in tree.body if isinstance(c, ast.ClassDef) and c.name == cls for m in c.body if isinstance(m, ast.FunctionDef) and m.name == "calculate"), None)
        name = "%s.%s.calculate/pooled-branch-maps-the-serial-branch-iterable-once" % (mod, cls)
        ifs = [n for n in (fn.body if fn else []) if isinstance(n, ast.If) and ast.unparse(n.test) == "self.parallel"]
        if len(ifs) != 1:
            stale.append((name, "no single top-level `if self.parallel:`"))
            continue
        node = ifs[0]
        maps = [n for b in node.body for n in ast.walk(b) if isinstance(n, ast.Call) and isinstance(n.func, ast.Attribute) and n.func.attr in ("map", "imap", "imap_unordered", "map_async", "apply_async", "starmap")]
        loops_in_pooled = [n for b in node.body for n in ast.walk(b) if isinstance(n, (ast.For, ast.While, ast.ListComp, ast.GeneratorExp))]
        ser = [n for n in node.orelse if isinstance(n, ast.For)]
        if len(maps) != 1 or maps[0].func.attr != "map" or len(maps[0].args) != 2 or maps[0].keywords or loops_in_pooled or len(ser) != 1 or len(node.orelse) != 1:
            stale.append((name, "pooled / serial branches are not `pool.map(f, it)` / `for x in it: f(x)`"))
            continue
        f_pooled, it_pooled = maps[0].args
        body = ser[0].body
        same_f = (len(body) == 1 and isinstance(body[0], ast.Expr) and isinstance(body[0].value, ast.Call) and ast.dump(body[0].value.func) == ast.dump(f_pooled)
                  and len(body[0].value.args) == 1 and ast.dump(body[0].value.args[0]) == ast.dump(ast.Name(id=ser[0].target.id, ctx=ast.Load())) if isinstance(ser[0].target, ast.Name) else False)
        ok = same_f and ast.dump(it_pooled) == ast.dump(ser[0].iter)
        obls.append((name, bool(ok), "pooled: map(%s, %s); serial: for %s in %s: %s" % (ast.unparse(f_pooled), ast.unparse(it_pooled), ast.unparse(ser[0].target), ast.unparse(ser[0].iter), ast.unparse(body[0]) if body else "")))
    return obls, stale


def run(ctx):
    lem = lemma.prove()
    if lem["commute"][0] != "unsat":
        raise core.Undecided("commutation lemma came back %s" % lem["commute"][0])
    if lem["canary-hypotheses-consistent"][0] == "unsat":
        raise core.CheckerBroken("frame hypotheses are contradictory")
    if lem["without-O3-not-provable"][0] == "unsat":
        raise core.CheckerBroken("lemma encoding proves commutation without O3: encoding unsound")
    total, ok, failing = static_part(ctx, lambda n: ".fill" in n or "fill_one_cube" in n or "_fill" in n)
    for s in failing:
        if "<unknown provenance>" in s.why or s.name.endswith("/unsupported-statement"):
            ctx.notes.append("proof_stale: %s (%s) - construct not recognised by the provenance analysis; decided by the frame monitor" % (s.name, s.text))
            continue
        ctx.violation(core.Violation("C16", s.name, "store site in a task body is not provably confined to the task's own block / locals: %s (%s)" % (s.text, s.why),
                                     input=None, cls={"site": s.name}, solver={"site": s.text, "why": s.why}, no_input=True))
    from ..frames import poolmon

    if not poolmon.probe():
        raise core.CheckerBroken("ThreadPool.map(chunksize=0) no longer behaves as the substituted pool assumes")
    ts_obls, ts_stale = task_set_static()
    for name, why in ts_stale:
        ctx.notes.append("proof_stale: %s (%s) - decided by clause O5 of the frame monitor" % (name, why))
    mon, totals = runner.run_sharded(drive_sched.work, ctx.tier)
    # a structural obligation is a pattern: matching it proves the clause for all inputs, not matching it proves nothing (O5 decides)
    ts_stale += [(name, "pooled and serial branches are not syntactically the same enumeration: %s" % text) for name, ok_, text in ts_obls if not ok_]
    ts_obls = [o for o in ts_obls if o[1]]
    for name, why in ts_stale:
        if "not syntactically" in why:
            ctx.notes.append("proof_stale: %s (%s) - decided by clause O5 of the frame monitor" % (name, why))
    expect = list(EXPECT)
    nstale = sum(n for ob, n in mon.evals.items() if ob.endswith("/frame-monitor-stale"))
    if nstale:
        ctx.notes.append("proof_stale: the frame monitor found no shared regions reachable from the task function in %d pooled evaluations "
                         "(O1-O4 not judged there); O5 and pooled == serial still are" % nstale)
        if not any("task-frame-O1" in ob and n for ob, n in mon.evals.items()):
            expect = [e for e in expect if e not in ("task-frame-O1", "task-frame-O2", "task-frame-O3", "task-frame-O4")]
    runner.report(ctx, mon, totals, lambda ob: True, RULE, expect_clauses=expect)
    ctx.coverage["static_task_set"] = {"obligations": len(ts_obls), "discharged": sum(1 for o in ts_obls if o[1]), "sites": [o[2] for o in ts_obls], "proof_stale": ts_stale}
    ctx.coverage["explanation"] = (
        "Schedule independence is derived, not explored: (1) per task, the substituted pool runs the real fill_one_cube closure from base, "
        "fully poisoned and outside-poisoned region contents and checks O1 (writes only its own block), O2 (blocks of distinct tasks are distinct "
        "full-length integer coordinates, hence disjoint), O3 (own block independent of other blocks' content), O4 (no attribute of the cube or "
        "function objects changes except diagnostics), O5 (over all map calls of one calculate() every sub-cube of the scaffold is handed to the pool exactly once) - %d monitored pooled evaluations this run; (2) z3 proves that two tasks satisfying O1-O3 "
        "commute (%s in %.2fs; hypotheses consistent: %s; without O3 not provable: %s); (3) %d/%d static store-site obligations of the task bodies "
        "discharged; (4) the pooled result (tasks run in reverse order by the monitor) equals the serial result bit for bit."
        % (totals["driver_calls"], lem["commute"][0], lem["commute"][1], lem["canary-hypotheses-consistent"][0], lem["without-O3-not-provable"][0], ok, total))
    ctx.coverage["lemma"] = lem
    ctx.coverage["static_store_sites"] = {"obligations": total, "discharged": ok}
    ctx.assumptions += [
        "element stores to distinct addresses do not interfere; ThreadPool.map returns only after every task finished",
        "lift of the two-task commutation lemma to n tasks and to bytecode-granularity interleavings (textbook disjoint-parallelism argument)",
        "channels the monitor does not watch (C-level globals inside NumPy, the warnings filter list mutated by xfunc_quantile.fill) are invisible",
        "bounded in inputs: the frame clauses are checked on the enumerated cubes only",
    ]


def replay(path):
    from .. import core as _core

    return _core.generic_replay(PROP if "PROP" in globals() else "C16", path, run, LEVEL)
