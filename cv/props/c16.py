"""C16 - pooled evaluation is schedule-independent (other: frame contracts per task + commutation lemma).

No schedule is explored.  Per task the frame clauses O1-O4 are checked by the substituted pool on the
real closures (bounded in inputs); the two-task commutation lemma is discharged by z3; the static
store-freshness obligations of fill_one_cube / the fill functions are discharged by engine B."""
from .. import core, env
from ..frames import drive_sched, fresh, lemma
from ..rtc import runner

LEVEL = "other"
RULE = ("cubes with >= 3 sub-cubes (layouts with one or several multi-axis dimensions), every aggregate singly and in groups, both cube types; "
        "a case = one monitored pooled calculate(); all distinct by construction")
EXPECT = ["pooled-equals-serial", "task-frame-O1", "task-frame-O2", "task-frame-O3", "task-frame-O4", "pooled-path-engaged"]


def static_part(ctx, which_funcs):
    total = ok = 0
    failing = []
    for mod in ("ffuncs", "xfuncs", "ccubes", "xcubes"):
        sites, _ = fresh.analyse_module(mod, env.read_source(mod + ".py"))
        for s in sites:
            if not which_funcs(s.name):
                continue
            total += 1
            if s.ok:
                ok += 1
            else:
                failing.append(s)
    return total, ok, failing


def run(ctx):
    lem = lemma.prove()
    if lem["commute"][0] != "unsat":
        raise core.Undecided("commutation lemma came back %s" % lem["commute"][0])
    if lem["canary-hypotheses-consistent"][0] == "unsat":
        raise core.CheckerBroken("frame hypotheses are contradictory")
    if lem["without-O3-not-provable"][0] == "unsat":
        raise core.CheckerBroken("lemma encoding proves commutation without O3: encoding unsound")
    total, ok, failing = static_part(ctx, lambda n: ".fill" in n or "fill_one_cube" in n or "_fill" in n)
    for s in failing:
        if "<unknown provenance>" in s.why or s.name.endswith("/unsupported-statement"):
            ctx.notes.append("proof_stale: %s (%s) - construct not recognised by the provenance analysis; decided by the frame monitor" % (s.name, s.text))
            continue
        ctx.violation(core.Violation("C16", s.name, "store site in a task body is not provably confined to the task's own block / locals: %s (%s)" % (s.text, s.why),
                                     input=None, cls={"site": s.name}, solver={"site": s.text, "why": s.why}, no_input=True))
    mon, totals = runner.run_sharded(drive_sched.work, ctx.tier)
    runner.report(ctx, mon, totals, lambda ob: True, RULE, expect_clauses=EXPECT)
    ctx.coverage["explanation"] = (
        "Schedule independence is derived, not explored: (1) per task, the substituted pool runs the real fill_one_cube closure from base, "
        "fully poisoned and outside-poisoned region contents and checks O1 (writes only its own block), O2 (blocks of distinct tasks are distinct "
        "full-length integer coordinates, hence disjoint), O3 (own block independent of other blocks' content), O4 (no attribute of the cube or "
        "function objects changes except diagnostics) - %d monitored pooled evaluations this run; (2) z3 proves that two tasks satisfying O1-O3 "
        "commute (%s in %.2fs; hypotheses consistent: %s; without O3 not provable: %s); (3) %d/%d static store-site obligations of the task bodies "
        "discharged; (4) the pooled result (tasks run in reverse order by the monitor) equals the serial result bit for bit."
        % (totals["driver_calls"], lem["commute"][0], lem["commute"][1], lem["canary-hypotheses-consistent"][0], lem["without-O3-not-provable"][0], ok, total))
    ctx.coverage["lemma"] = lem
    ctx.coverage["static_store_sites"] = {"obligations": total, "discharged": ok}
    ctx.assumptions += [
        "element stores to distinct addresses do not interfere; ThreadPool.map returns only after every task finished",
        "lift of the two-task commutation lemma to n tasks and to bytecode-granularity interleavings (textbook disjoint-parallelism argument)",
        "channels the monitor does not watch (C-level globals inside NumPy, the warnings filter list mutated by xfunc_quantile.fill) are invisible",
        "bounded in inputs: the frame clauses are checked on the enumerated cubes only",
    ]


def replay(path):
    from .. import core as _core

    return _core.generic_replay(PROP if "PROP" in globals() else "C16", path, run, LEVEL)
