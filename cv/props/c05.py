"""C05 - results are independent of which category is stored as common (bounded; DESIGN §6 C05).

Relational property whose oracle the property text defines through the library itself (the same cube under another
encoding): every cube in scope is computed under every encoding tuple and the outputs are related pairwise
(cv/rtc/drive_encoding.py).  The "sidecar-form" part of DESIGN §6 C05 (a) is not part of this check."""
import json

from .. import core
from ..rtc import drive_encoding, runner

LEVEL = "exploration"
PROP = "C05"
RULE = ("every ccube in scope (quick: 1-3 one-axis dimensions, N in 0..3 rows, explicit category extents 1..3; thorough: up to 4 dimensions, N<=4, "
        "extents<=4; plus cubes with a 2- or 3-axis dimension alone or beside another dimension; data over 0..extent-1, so padded extents and "
        "never-occurring values are included) x aggregate calls (count with weights None/scalar 2.0/scalar 0.0/array/(values,validity); "
        "valid_count, sum, mean with fact NaN-marked or (values,validity), 1 or 2 columns over {0,1,2.5,NaN}, weights None/array/(values,validity) "
        "over {0,1.5,2,NaN}; both ignore_missing policies; formats NaN and (0,False)) x EVERY encoding tuple (one common per dimension in "
        "0..extent-1, each index built with speclib.mk): every pair of encodings differing in one dimension is compared (missing cells exactly, "
        "values within 1e-9*max(1,|total|)), and every encoding again after the library's renormalising shift_common() on one dimension "
        "(dimensions of at most 2 axes - shift_common's own precondition). Dimension data are enumerated exhaustively for the families listed "
        "under exhaustive_data_families and by a deterministic evenly spread stride over the exhaustive index range (plus two ramps) for the "
        "others (thorough: stride offset from VERIF_SEED); aggregate configurations and fact / weight data walk their full lists with a "
        "coprime stride (all configurations on every 1-dimension cube). A case (cube, call) is non-trivial when at least one pair of "
        "encodings was compared; cases are distinct by construction")
EXPECT = ["count/encoding-independent-missing-cells", "count/encoding-independent-values",
          "valid_count/encoding-independent-missing-cells", "sum/encoding-independent-values", "mean/encoding-independent-values",
          "mean/encoding-independent-missing-cells",
          "count/encoding-independent-missing-cells/after-renormalising-shift_common",
          "sum/encoding-independent-values/after-renormalising-shift_common",
          "mean/encoding-independent-missing-cells/after-renormalising-shift_common",
          "valid_count/encoding-independent-values/after-renormalising-shift_common",
          "encoding-independent-no-raise"]


def belongs(ob):
    return "/encoding-independent" in ob


def run(ctx):
    mon, totals = runner.run_sharded(drive_encoding.work, ctx.tier, extra=int(ctx.seed))
    kinds = {k.split("/", 1)[1]: int(v) for k, v in mon.calls.items() if k.startswith("C05:common-cell/")}
    for need in ("empty", "rare", "most_frequent"):
        if not kinds.get(need):
            raise core.CheckerBroken("no encoding with a %s common cell was explored" % need)
    failing = {k.split("/", 1)[1]: int(v) for k, v in mon.calls.items() if k.startswith("C05:failing-class/")}
    sampled = drive_encoding.is_sampled(ctx.tier)
    runner.report(ctx, mon, totals, belongs, RULE, expect_clauses=EXPECT, exhaustive=not sampled,
                  extra_cov={"common_kinds": kinds, "failing_input_classes": failing,
                             "common_kinds_note": "number of (cube under one encoding, dimension) whose common value has no row / some rows but "
                                                  "fewer than the mode / as many rows as the mode",
                             "exhaustive_data_families": drive_encoding.exhaustive_families(ctx.tier),
                             "families": [f["name"] for f in drive_encoding.families(ctx.tier)]})
    ctx.assumptions += ["bounded: holds on the enumerated cube/call/encoding scope only (engine C is the bounded stand-in, not a proof)",
                        "oracle is relational by the property's own definition: library output under one encoding against library output "
                        "under another; agreement with the per-cell definition is C02/C03's obligation",
                        "interacting_shape explicit and identical for all encodings (precondition: exceeds every value and every common)"]


def replay(path):
    from .. import env

    rec = json.load(open(path))
    inp = rec.get("input") or {}
    if "dims" not in inp or "call" not in inp:
        print("this replay file has no recorded case; re-run the check itself: ./check %s" % rec.get("property", PROP))
        return core.EXIT_UNDECIDED
    env.import_catii()
    fails = drive_encoding.replay_case(inp)
    for f in fails:
        print("FAILED %s: %s" % (f.obligation, f.what))
    if any(f.obligation == rec["obligation"] for f in fails) or fails:
        print("VIOLATION property=%s replay=%s" % (PROP, path))
        return core.EXIT_VIOLATION
    print("clause %s holds on the recorded input" % rec["obligation"])
    return core.EXIT_OK
