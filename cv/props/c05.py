"""C05 - results are independent of which category is stored as common (bounded; DESIGN §6 C05).

Relational property whose oracle the property text defines through the library itself (the same cube under another
encoding): every cube in scope is computed under every encoding tuple and the outputs are related pairwise
(cv/rtc/drive_encoding.py).  The "sidecar-form" part of DESIGN §6 C05 (a) is not part of this check."""
import json

from .. import core
from ..rtc import drive_encoding, runner

LEVEL = "exploration"
PROP = "C05"
RULE = ("every ccube in scope (quick: 1-3 one-axis dimensions, N in 0..3 rows, explicit category extents 1..3; thorough: up to 4 dimensions, N<=4, "
        "extents<=4; plus cubes with a 2- or 3-axis dimension alone or beside another dimension; data over 0..extent-1, so padded extents and "
        "never-occurring values are included) x aggregate calls (count with weights None/scalar 2.0/scalar 0.0/array/(values,validity); "
        "valid_count, sum, mean with fact NaN-marked or (values,validity), 1 or 2 columns over {0,1,2.5,NaN}, weights None/array/(values,validity) "
        "over {0,1.5,2,NaN}; both ignore_missing policies; formats NaN and (0,False)) x EVERY encoding tuple (one common per dimension in "
        "0..extent-1, each index built with speclib.mk): every pair of encodings differing in one dimension is compared (missing cells exactly, "
        "values within 1e-9*max(1,|total|)), and every encoding again after the library's renormalising shift_common() on one dimension "
        "(dimensions of at most 2 axes - shift_common's own precondition). Dimension data are enumerated exhaustively for the families listed "
        "under exhaustive_data_families and by a deterministic evenly spread stride over the exhaustive index range (plus two ramps) for the "
        "others (thorough: stride offset from VERIF_SEED); aggregate configurations and fact / weight data walk their full lists with a "
        "coprime stride (all configurations on every 1-dimension cube). A case (cube, call) is non-trivial when at least one pair of "
        "encodings was compared; cases are distinct by construction")
EXPECT = ["count/encoding-independent-missing-cells", "count/encoding-independent-values",
          "valid_count/encoding-independent-missing-cells", "sum/encoding-independent-values", "mean/encoding-independent-values",
          "mean/encoding-independent-missing-cells",
          "count/encoding-independent-missing-cells/after-renormalising-shift_common",
          "sum/encoding-independent-values/after-renormalising-shift_common",
          "mean/encoding-independent-missing-cells/after-renormalising-shift_common",
          "valid_count/encoding-independent-values/after-renormalising-shift_common",
          "encoding-independent-no-raise"]


def belongs(ob):
    return "/encoding-independent" in ob


ENCODING_FREE = {"working_shape", "corner", "shape", "scaffold_shape", "interacting_shape", "scaffold", "marginless", "scaffold_size", "debug"}
ENCODING_READS = {"common", "items", "keys", "values", "get", "abscissae", "sparsity", "common_rowids", "to_array", "sliced", "slices1d", "shift_common"}


def corner_reads():
    """Structural obligations on every ffunc's get_initial_regions (the working-tree AST): the grand-total corner is set from
    the fact / weight arrays and from encoding-free attributes of the cube only - never from a dimension's common value
    or entries.  -> (obligations [(name, ok, text)], stale [(name, why)])"""
    import ast

    from .. import env

    tree = ast.parse(env.read_source("ffuncs.py"))
    obls, stale = [], []
    for c in tree.body:
        if not (isinstance(c, ast.ClassDef) and c.name.startswith("ffunc")):
            continue
        for m in c.body:
            if not (isinstance(m, ast.FunctionDef) and m.name == "get_initial_regions") or len(m.args.args) < 2:
                continue
            cube = m.args.args[1].arg
            name = "ffuncs.%s.get_initial_regions/corner-reads-nothing-of-the-encoding" % c.name
            bad, unknown = [], []
            parents = {}
            for node in ast.walk(m):
                for ch in ast.iter_child_nodes(node):
                    parents[ch] = node
            for node in ast.walk(m):
                if isinstance(node, ast.Name) and node.id == cube and isinstance(node.ctx, ast.Load):
                    # climb the attribute / subscript / call chain rooted here
                    chain, cur = [], node
                    while True:
                        par = parents.get(cur)
                        if isinstance(par, ast.Attribute) and par.value is cur:
                            chain.append(par.attr)
                        elif isinstance(par, ast.Subscript) and par.value is cur:
                            chain.append("[]")
                        elif isinstance(par, ast.Call) and par.func is cur:
                            chain.append("()")
                        else:
                            break
                        cur = par
                    text = cube + "".join(("." + a) if a not in ("[]", "()") else a for a in chain)
                    if any(a in ENCODING_READS for a in chain):
                        bad.append(text)
                    elif not chain:
                        unknown.append("bare use of %s in %s" % (cube, ast.unparse(parents.get(node))[:60]))
                    elif chain[0] in ENCODING_FREE:
                        pass
                    elif chain[0] == "dims" and (chain[1:] in ([], ["[]", "shape", "[]"], ["[]", "shape"], ["[]", "size"]) or (isinstance(parents.get(cur), ast.Call) and ast.unparse(parents[cur].func) == "len")):
                        pass
                    elif chain[0] == "dims" and isinstance(parents.get(cur), (ast.If, ast.IfExp, ast.BoolOp, ast.UnaryOp)) and chain == ["dims"]:
                        pass
                    else:
                        unknown.append(text)
            if unknown and not bad:
                stale.append((name, "reads not classified: %s" % ", ".join(sorted(set(unknown))[:4])))
            else:
                obls.append((name, not bad, "reads of the cube: encoding-dependent %r" % (sorted(set(bad)),) if bad else "only encoding-free reads of `%s`" % cube))
    return obls, stale


def run(ctx):
    from ..kvc import symdiff

    cr_obls, cr_stale = corner_reads()
    if not cr_obls and not cr_stale:
        raise core.CheckerBroken("no get_initial_regions found in ffuncs.py")
    try:
        sym, sym_s = symdiff.run(ctx.tier)
    except symdiff.Stale as e:
        sym, sym_s = [], 0.0
        cr_stale.append(("ccubes.ccube._compute_common_cells_from_marginal_diffs", str(e)))
    mon, totals = runner.run_sharded(drive_encoding.work, ctx.tier, extra=int(ctx.seed))
    for name, ok_, text in cr_obls:
        if not ok_:
            ctx.violation(core.Violation("C05", name, "the grand-total corner is initialised from the encoding: %s" % text, input=None,
                                         cls={"site": name}, solver={"site": text}, no_input=True))
    for name, verdict, detail in [r for r in sym if r[1] != "unsat"][:3]:
        ctx.violation(core.Violation("C05", name, "the real _compute_common_cells_from_marginal_diffs, run on symbolic cell contents under this tuple of common values, "
                                     "does not return the per-cell value (which no other tuple of common values changes): %r" % (detail,),
                                     input={"config": name.split("[", 1)[1].rstrip("]"), "cell": detail}, cls={"function": "_compute_common_cells_from_marginal_diffs"}))
    kinds = {k.split("/", 1)[1]: int(v) for k, v in mon.calls.items() if k.startswith("C05:common-cell/")}
    for need in ("empty", "rare", "most_frequent"):
        if not kinds.get(need):
            raise core.CheckerBroken("no encoding with a %s common cell was explored" % need)
    failing = {k.split("/", 1)[1]: int(v) for k, v in mon.calls.items() if k.startswith("C05:failing-class/")}
    sampled = drive_encoding.is_sampled(ctx.tier)
    runner.report(ctx, mon, totals, belongs, RULE, expect_clauses=EXPECT, exhaustive=not sampled,
                  extra_cov={"common_kinds": kinds, "failing_input_classes": failing,
                             "common_kinds_note": "number of (cube under one encoding, dimension) whose common value has no row / some rows but "
                                                  "fewer than the mode / as many rows as the mode",
                             "exhaustive_data_families": drive_encoding.exhaustive_families(ctx.tier),
                             "families": [f["name"] for f in drive_encoding.families(ctx.tier)]})
    ctx.coverage["proved_subobligations"] = {
        "what": "(1) the REAL _compute_common_cells_from_marginal_diffs executed on object arrays of z3 terms: for every tuple of common values of a shape the "
                "differenced region equals the same per-cell symbol, for ALL cell contents (bounded in shape: 1-3 dims, extents 1-3, with/without scaffold); "
                "(2) structural obligations on every ffunc's get_initial_regions: the grand-total corner reads no common value and no entry of any dimension",
        "obligations": len(sym) + len(cr_obls), "discharged": sum(1 for r in sym if r[1] == "unsat") + sum(1 for o in cr_obls if o[1]),
        "solver_s": round(sym_s, 2), "back_ends": ["z3 (symbolic contents)", "syntactic reads analysis on the AST"],
        "functions_under_contract": ["ccubes.ccube._compute_common_cells_from_marginal_diffs"] + [o[0].split("/")[0] for o in cr_obls], "corner_reads": [list(map(str, o)) for o in cr_obls], "proof_stale": cr_stale}
    if cr_stale:
        ctx.notes.append("proof_stale: %r - decided by the bounded encoding comparison" % (cr_stale,))
    ctx.assumptions += ["bounded: holds on the enumerated cube/call/encoding scope only (engine C is the bounded stand-in, not a proof)",
                        "oracle is relational by the property's own definition: library output under one encoding against library output "
                        "under another; agreement with the per-cell definition is C02/C03's obligation",
                        "interacting_shape explicit and identical for all encodings (precondition: exceeds every value and every common)"]


def replay(path):
    from .. import env

    rec = json.load(open(path))
    inp = rec.get("input") or {}
    if "same-cube-after" in (rec.get("obligation") or ""):
        return core.generic_replay(PROP, path, run, LEVEL)
    if "dims" not in inp or "call" not in inp:
        print("this replay file has no recorded case; re-run the check itself: ./check %s" % rec.get("property", PROP))
        return core.EXIT_UNDECIDED
    env.import_catii()
    fails = drive_encoding.replay_case(inp)
    for f in fails:
        print("FAILED %s: %s" % (f.obligation, f.what))
    if any(f.obligation == rec["obligation"] for f in fails) or fails:
        print("VIOLATION property=%s replay=%s" % (PROP, path))
        return core.EXIT_VIOLATION
    print("clause %s holds on the recorded input" % rec["obligation"])
    return core.EXIT_OK
