"""C13 - extra axes are outermost, in order, and index independent sub-cubes (bounded; DESIGN §6 C13).

Relational property whose oracle the property text defines through the library itself (the cube of the 1-D slices):
shape equation, one block equation per combination of extra-axis positions, for both cube types and every aggregate,
plus contracts on the real ccube.product / xcube.product (cv/rtc/drive_axes.py)."""
import json

from .. import core
from ..rtc import drive_axes, runner

LEVEL = "exploration"
PROP = "C13"
RULE = ("every dimension list of 1-3 dimensions of which 1-2 carry 1 or 2 extra axes (i.e. 2- or 3-axis dimensions), extra extents drawn from "
        "{1,2,3,4} pairwise different (all 432 such lists, plus 8 lists with equal extra extents, where a transposed block stays inside the result) x N in 1..3 x category extents in 1..3 (an evenly spread choice of extent tuples per "
        "list) x dimension data over 0..extent-1 (exhaustive where there are at most `cap` data sets, otherwise a deterministic evenly spread "
        "stride over the exhaustive index range plus two ramps in which every extra-axis position carries different rows; thorough: stride "
        "offset from VERIF_SEED) x both cube types (ccube dims built with speclib.mk, common value rotating over 0..extent-1; xcube dims the same "
        "dense int64 arrays) x aggregates (count, valid_count, sum, mean; xcube also stddev, min, max) whose configurations (fact NaN-marked or "
        "(values,validity), 1 or 2 columns over {0,1,2.5,NaN}; weights None/scalar/array/(values,validity); both policies; formats NaN and "
        "(0,False)) walk their full lists with a coprime stride (min / max: one-column facts, as in C18's quantifier). A case (cube, call) is non-trivial "
        "when at least one block was compared with the cube of its 1-D slices; cases are distinct by construction")
EXPECT = ["ccube.count/extra-axes-shape-extra-extents", "xcube.count/extra-axes-shape-extra-extents",
          "ccube.mean/extra-axes-shape-extra-extents", "xcube.sum/extra-axes-shape-extra-extents",
          "ccube.count/extra-axes-block-equals-cube-of-1d-slices-missing-cells", "ccube.sum/extra-axes-block-equals-cube-of-1d-slices-values",
          "ccube.valid_count/extra-axes-block-equals-cube-of-1d-slices-values", "ccube.mean/extra-axes-block-equals-cube-of-1d-slices-missing-cells",
          "xcube.count/extra-axes-block-equals-cube-of-1d-slices-values", "xcube.valid_count/extra-axes-block-equals-cube-of-1d-slices-missing-cells",
          "xcube.sum/extra-axes-block-equals-cube-of-1d-slices-values", "xcube.mean/extra-axes-block-equals-cube-of-1d-slices-values",
          "xcube.stddev/extra-axes-block-equals", "xcube.min/extra-axes-block-equals", "xcube.max/extra-axes-block-equals",
          "extra-axes-shape-with-inferred-category-extents", "extra-axes-no-raise", "extra-axes-after-mutation-of-a-dimension-block-equals-bruteforce",
          "ccubes.ccube.product/ensures-each-coordinate-combination-exactly-once", "ccubes.ccube.product/ensures-first-dimension-outermost",
          "ccubes.ccube.product/ensures-data-is-the-1d-slice-at-its-coordinates",
          "xcubes.xcube.product/ensures-each-coordinate-combination-exactly-once",
          "xcubes.xcube.product/ensures-documented-order-first-coordinate-outermost"]


def belongs(ob):
    return "/extra-axes-" in ob or ob.startswith("ccubes.ccube.product/") or ob.startswith("xcubes.xcube.product/")


def structural():
    """Obligations on the working-tree ASTs of ccube.product and ccube.calculate's task body (all inputs; syntactic):
    sub-cubes are the product, in dimension order, of each dimension's slices1d() pairs; the block a sub-cube fills is
    selected by the coordinates of its dimensions concatenated in dimension order, then axis order, as the LEADING
    indices of each region.  -> (obligations [(name, ok, text)], stale [(name, why)])"""
    import ast

    from .. import env

    tree = ast.parse(env.read_source("ccubes.py"))
    cls = next((c for c in tree.body if isinstance(c, ast.ClassDef) and c.name == "ccube"), None)
    meth = {m.name: m for m in (cls.body if cls else []) if isinstance(m, ast.FunctionDef)}
    obls, stale = [], []
    norm = lambda t: "".join(ast.unparse(ast.parse(t, mode="eval")).split()) if isinstance(t, str) else "".join(ast.unparse(t).split())  # noqa

    def same(a, b):
        """equal up to the names of comprehension variables"""
        def canon(node):
            node = ast.parse(ast.unparse(node), mode="eval").body
            ren = {}
            for n in ast.walk(node):
                if isinstance(n, ast.comprehension):
                    for t in ast.walk(n.target):
                        if isinstance(t, ast.Name):
                            ren.setdefault(t.id, "v%d" % len(ren))
            for n in ast.walk(node):
                if isinstance(n, ast.Name) and n.id in ren:
                    n.id = ren[n.id]
            return ast.dump(node)
        return canon(a) == canon(b)
    # ---- product
    name = "ccubes.ccube.product/sub-cubes-are-the-product-in-dimension-order-of-each-dimension's-slices1d-pairs"
    p_ = meth.get("product")
    rets = [n for n in ast.walk(p_) if isinstance(n, ast.Return) and n.value is not None] if p_ else []
    if len(rets) != 1 or not (isinstance(rets[0].value, ast.Call) and norm(rets[0].value.func) == "itertools.product"):
        stale.append((name, "product() is no longer a single `return itertools.product(...)`"))
    else:
        want = ast.parse("itertools.product(*[({'coords': c, 'data': s} for c, s in dim.slices1d()) for dim in self.dims])", mode="eval").body
        obls.append((name, same(rets[0].value, want), ast.unparse(rets[0].value)))
    # ---- block selection in the task body
    name = "ccubes.ccube.calculate/block-is-selected-by-the-sub-cube's-coordinates-in-dimension-then-axis-order-as-leading-indices"
    calc = meth.get("calculate")
    task = next((n for n in ast.walk(calc) if isinstance(n, ast.FunctionDef) and n.name == "fill_one_cube"), None) if calc else None
    if task is None or len(task.args.args) != 1:
        stale.append((name, "no nested fill_one_cube(subcube_dims)"))
    else:
        arg = task.args.args[0].arg
        assigns = {a.targets[0].id: a.value for a in ast.walk(task) if isinstance(a, ast.Assign) and len(a.targets) == 1 and isinstance(a.targets[0], ast.Name)}
        flat = [k for k, v in assigns.items() if isinstance(v, ast.ListComp) and len(v.generators) == 2]
        coords = [k for k, v in assigns.items() if isinstance(v, ast.ListComp) and len(v.generators) == 1 and same(v, ast.parse("[dim['coords'] for dim in %s]" % arg, mode="eval").body)]
        if len(flat) != 1 or len(coords) != 1:
            stale.append((name, "the coordinate list / its flattening are not the two list comprehensions the obligation is stated for"))
        else:
            f, cname = flat[0], coords[0]
            ok_flat = same(assigns[f], ast.parse("[e for coords in %s for e in coords]" % cname, mode="eval").body)
            subs = [n for n in ast.walk(task) if isinstance(n, ast.Subscript) and norm(n.slice) == norm("tuple(%s)" % f)]
            ok_sub = len(subs) >= 1 and all(isinstance(n.value, ast.Name) for n in subs)
            data = [n for n in ast.walk(task) if isinstance(n, ast.ListComp) and same(n, ast.parse("[dim['data'] for dim in %s]" % arg, mode="eval").body)]
            obls.append((name, bool(ok_flat and ok_sub and data), "flattening %s; block %s; sub-cube dims %s" % (
                ast.unparse(assigns[f]), ", ".join(ast.unparse(n) for n in subs[:2]), ast.unparse(data[0]) if data else "-")))
    return obls, stale


def proved_part():
    import ast

    from .. import env
    from ..kvc import discharge, slexec

    stale = []
    try:
        obls = slexec.verify_slices1d(ast.parse(env.read_source("iindexes.py")))
    except slexec.Unsupported as e:
        return [], [("iindex.slices1d", str(e))]
    return discharge.discharge(obls), stale


def run(ctx):
    results, sl_stale = proved_part()
    st_obls, st_stale = structural()
    mon, totals = runner.run_sharded(drive_axes.work, ctx.tier, extra=int(ctx.seed))
    donors = [f for f in mon.failures if belongs(f.obligation)]
    for r in results:
        if r.kind == "canary" and not r.discharged:
            raise core.CheckerBroken("vacuous hypotheses: canary %s is %s" % (r.name, r.verdict))
        if r.kind != "canary" and not r.discharged:
            ctx.violation(core.Violation("C13", r.name, "obligation generated from the current source of slices1d is not discharged (%s by %s)" % (r.verdict, r.backend),
                                         input=None, cls={"function": "slices1d"},
                                         solver={"verdict": r.verdict, "backend": r.backend, "detail": r.detail, "site": r.ob.meta.get("site", "")}, no_input=True))
    # a structural obligation is a pattern: matching it proves the clause for all inputs, not matching it proves nothing
    st_stale += [(name, "source is not of the stated form: %s" % text) for name, ok_, text in st_obls if not ok_]
    st_obls = [o for o in st_obls if o[1]]
    lists = {k.split("/", 1)[1]: int(v) for k, v in mon.calls.items() if k.startswith("C13:dimension-lists/")}
    for need in ("[2]", "[3]", "[2, 2]", "[2, 3]", "[3, 3]"):
        if not any(k.endswith("=" + need) and v for k, v in lists.items()):
            raise core.CheckerBroken("no dimension list with multi-axis dimensions of %s axes was explored" % need)
    runner.report(ctx, mon, totals, belongs, RULE, expect_clauses=EXPECT, exhaustive=not drive_axes.is_sampled(ctx.tier),
                  extra_cov={"dimension_lists_by_axes": lists, "structures": len(drive_axes.structures()),
                             "exhaustive_part": "all 432 dimension-list structures with pairwise different extra extents; dimension data exhaustive for shapes with at most "
                                                "%d data sets; every block of every result" % drive_axes.scopes(ctx.tier)["cap"]})
    real = [r for r in results if r.kind != "canary"]
    ctx.coverage["proved_subobligations"] = {
        "what": "iindex.slices1d executed abstractly on the working tree's AST per contract case (no extra axis / one or more), induction over the number of axes: every "
                "coordinate tuple in range is yielded exactly once, labelled in axis order, with the content at exactly those coordinates, the index's common value "
                "and shape (N,); structural obligations: product() is the product in dimension order of the slices1d() pairs, the task body selects the block by the "
                "coordinates concatenated in dimension-then-axis order as leading indices",
        "obligations": len(real) + len(st_obls), "discharged": sum(1 for r in real if r.discharged) + sum(1 for o in st_obls if o[1]),
        "canaries": sum(1 for r in results if r.kind == "canary"), "solver_s": round(sum(r.seconds for r in results), 2),
        "back_ends": sorted({r.backend for r in real if r.discharged}) + (["syntactic match on the AST"] if st_obls else []),
        "functions_under_contract": ["iindexes.iindex.slices1d", "ccubes.ccube.product", "ccubes.ccube.calculate.fill_one_cube (block selection)"],
        "names": [r.name for r in real] + [o[0] for o in st_obls], "proof_stale": sl_stale + st_stale}
    if sl_stale or st_stale:
        ctx.notes.append("proof_stale: %r - decided by the bounded block comparison" % (sl_stale + st_stale,))
    ctx.assumptions += ["proved part: loop rules (each key / each bucket position once), constructor contract of iindex(entries, common, shape), itertools.product's "
                        "documented order; the array cube's side (xcube.product, strided coordinates) is bounded only",
                        "bounded: holds on the enumerated cube/call scope only (engine C is the bounded stand-in, not a proof)",
                        "oracle is relational by the property's own definition: a block of the library's output against the library's "
                        "output on the 1-D slices; agreement of 1-D cubes with the per-cell definition is C02/C03's obligation",
                        "iindex.slices1d's own iteration order is not constrained (only that the slice delivered with a coordinate is "
                        "the slice at that coordinate); interacting_shape explicit and shared by the cube and its sub-cubes"]


def replay(path):
    from .. import env

    rec = json.load(open(path))
    inp = rec.get("input") or {}
    if "dims" not in inp or "cube" not in inp:
        print("this replay file has no recorded case; re-run the check itself: ./check %s" % rec.get("property", PROP))
        return core.EXIT_UNDECIDED
    env.import_catii()
    fails = drive_axes.replay_case(inp)
    for f in fails:
        print("FAILED %s: %s" % (f.obligation, f.what))
    if fails:
        print("VIOLATION property=%s replay=%s" % (PROP, path))
        return core.EXIT_VIOLATION
    print("clause %s holds on the recorded input" % rec["obligation"])
    return core.EXIT_OK
