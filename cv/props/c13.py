"""C13 - extra axes are outermost, in order, and index independent sub-cubes (bounded; DESIGN §6 C13).

Relational property whose oracle the property text defines through the library itself (the cube of the 1-D slices):
shape equation, one block equation per combination of extra-axis positions, for both cube types and every aggregate,
plus contracts on the real ccube.product / xcube.product (cv/rtc/drive_axes.py)."""
import json

from .. import core
from ..rtc import drive_axes, runner

LEVEL = "exploration"
PROP = "C13"
RULE = ("every dimension list of 1-3 dimensions of which 1-2 carry 1 or 2 extra axes (i.e. 2- or 3-axis dimensions), extra extents drawn from "
        "{1,2,3,4} pairwise different (all 432 such lists, plus 8 lists with equal extra extents, where a transposed block stays inside the result) x N in 1..3 x category extents in 1..3 (an evenly spread choice of extent tuples per "
        "list) x dimension data over 0..extent-1 (exhaustive where there are at most `cap` data sets, otherwise a deterministic evenly spread "
        "stride over the exhaustive index range plus two ramps in which every extra-axis position carries different rows; thorough: stride "
        "offset from VERIF_SEED) x both cube types (ccube dims built with speclib.mk, common value rotating over 0..extent-1; xcube dims the same "
        "dense int64 arrays) x aggregates (count, valid_count, sum, mean; xcube also stddev, min, max) whose configurations (fact NaN-marked or "
        "(values,validity), 1 or 2 columns over {0,1,2.5,NaN}; weights None/scalar/array/(values,validity); both policies; formats NaN and "
        "(0,False)) walk their full lists with a coprime stride (min / max: one-column facts, as in C18's quantifier). A case (cube, call) is non-trivial "
        "when at least one block was compared with the cube of its 1-D slices; cases are distinct by construction")
EXPECT = ["ccube.count/extra-axes-shape-extra-extents", "xcube.count/extra-axes-shape-extra-extents",
          "ccube.mean/extra-axes-shape-extra-extents", "xcube.sum/extra-axes-shape-extra-extents",
          "ccube.count/extra-axes-block-equals-cube-of-1d-slices-missing-cells", "ccube.sum/extra-axes-block-equals-cube-of-1d-slices-values",
          "ccube.valid_count/extra-axes-block-equals-cube-of-1d-slices-values", "ccube.mean/extra-axes-block-equals-cube-of-1d-slices-missing-cells",
          "xcube.count/extra-axes-block-equals-cube-of-1d-slices-values", "xcube.valid_count/extra-axes-block-equals-cube-of-1d-slices-missing-cells",
          "xcube.sum/extra-axes-block-equals-cube-of-1d-slices-values", "xcube.mean/extra-axes-block-equals-cube-of-1d-slices-values",
          "xcube.stddev/extra-axes-block-equals", "xcube.min/extra-axes-block-equals", "xcube.max/extra-axes-block-equals",
          "extra-axes-shape-with-inferred-category-extents", "extra-axes-no-raise", "extra-axes-after-mutation-of-a-dimension-block-equals-bruteforce",
          "ccubes.ccube.product/ensures-each-coordinate-combination-exactly-once", "ccubes.ccube.product/ensures-first-dimension-outermost",
          "ccubes.ccube.product/ensures-data-is-the-1d-slice-at-its-coordinates",
          "xcubes.xcube.product/ensures-each-coordinate-combination-exactly-once",
          "xcubes.xcube.product/ensures-documented-order-first-coordinate-outermost"]


def belongs(ob):
    return "/extra-axes-" in ob or ob.startswith("ccubes.ccube.product/") or ob.startswith("xcubes.xcube.product/")


def run(ctx):
    mon, totals = runner.run_sharded(drive_axes.work, ctx.tier, extra=int(ctx.seed))
    lists = {k.split("/", 1)[1]: int(v) for k, v in mon.calls.items() if k.startswith("C13:dimension-lists/")}
    for need in ("[2]", "[3]", "[2, 2]", "[2, 3]", "[3, 3]"):
        if not any(k.endswith("=" + need) and v for k, v in lists.items()):
            raise core.CheckerBroken("no dimension list with multi-axis dimensions of %s axes was explored" % need)
    runner.report(ctx, mon, totals, belongs, RULE, expect_clauses=EXPECT, exhaustive=not drive_axes.is_sampled(ctx.tier),
                  extra_cov={"dimension_lists_by_axes": lists, "structures": len(drive_axes.structures()),
                             "exhaustive_part": "all 432 dimension-list structures with pairwise different extra extents; dimension data exhaustive for shapes with at most "
                                                "%d data sets; every block of every result" % drive_axes.scopes(ctx.tier)["cap"]})
    ctx.assumptions += ["bounded: holds on the enumerated cube/call scope only (engine C is the bounded stand-in, not a proof)",
                        "oracle is relational by the property's own definition: a block of the library's output against the library's "
                        "output on the 1-D slices; agreement of 1-D cubes with the per-cell definition is C02/C03's obligation",
                        "iindex.slices1d's own iteration order is not constrained (only that the slice delivered with a coordinate is "
                        "the slice at that coordinate); interacting_shape explicit and shared by the cube and its sub-cubes"]


def replay(path):
    from .. import env

    rec = json.load(open(path))
    inp = rec.get("input") or {}
    if "dims" not in inp or "cube" not in inp:
        print("this replay file has no recorded case; re-run the check itself: ./check %s" % rec.get("property", PROP))
        return core.EXIT_UNDECIDED
    env.import_catii()
    fails = drive_axes.replay_case(inp)
    for f in fails:
        print("FAILED %s: %s" % (f.obligation, f.what))
    if fails:
        print("VIOLATION property=%s replay=%s" % (PROP, path))
        return core.EXIT_VIOLATION
    print("clause %s holds on the recorded input" % rec["obligation"])
    return core.EXIT_OK
