"""C15 - library-chosen common is a mode; equality is canonical (bounded; same enumeration as C06)."""
from . import c06

LEVEL = "exploration"


def run(ctx):
    c06.run(ctx, "C15")


replay = c06.replay
