"""C17 - aggregations are pure (other: static frame proof [engine B] + run-time frame contract [bounded])."""
from .. import core, env
from ..frames import drive_pure, fresh
from ..rtc import contracts_iindex, drive_iindex, runner

LEVEL = "other"
RULE = ("static: every store site of ffuncs/xfuncs/ccubes/xcubes and of the non-mutating iindex methods; run time: every cube layout in scope x every "
        "aggregate (byte snapshots of every argument before/after, second call, re-use, every permutation of triples of aggregates) + the frame clauses of the "
        "iindex operation contracts on every index state in scope")


def run(ctx):
    total = ok = 0
    fns = 0
    stale_sites = []
    for mod in ("ffuncs", "xfuncs", "ccubes", "xcubes", "iindexes"):
        sites, nf = fresh.analyse_module(mod, env.read_source(mod + ".py"))
        fns += nf
        for s in sites:
            total += 1
            if s.ok:
                ok += 1
            elif "<unknown provenance>" in s.why or s.name.endswith("/unsupported-statement"):
                # the analysis does not recognise the construct (incompleteness, not an alias chain to caller-owned memory):
                # that site is proof_stale and is decided by the run-time frame contract below
                stale_sites.append(s)
            else:
                ctx.violation(core.Violation("C17", s.name, "store site `%s` %s: not provably confined to memory allocated in this call or handed over for writing"
                                             % (s.text, s.why), input=None, cls={"site": s.name}, solver={"statement": s.text, "why": s.why, "line": s.lineno}, no_input=True))
    if total == 0:
        raise core.CheckerBroken("zero store sites analysed")
    mon, totals = runner.run_sharded(drive_pure.work, ctx.tier)
    mon2, totals2 = runner.run_sharded(drive_iindex.work, ctx.tier)
    frame = lambda ob: "/frame-" in ob or "/no-shared-" in ob  # noqa
    for f in mon2.failures:
        if frame(f.obligation):
            mon.failures.append(f)
            mon.fail_counts[f.obligation] += mon2.fail_counts[f.obligation]
    for ob, n in mon2.evals.items():
        if frame(ob):
            mon.evals[ob] += n
    totals["nontrivial"] += totals2["nontrivial"]
    totals["driver_calls"] += totals2["driver_calls"]
    # a static failure is replayed by the run-time byte comparison: when both fire the run-time record carries the input
    had_static = [v for v in ctx.violations if v.no_input]
    runner.report(ctx, mon, totals, lambda ob: True, RULE, expect_clauses=[
        "frame-arguments-unchanged", "frame-dimensions-unchanged", "pure-second-call", "pure-multi-aggregate", "pure-reused-objects", "frame-self-unchanged",
        "frame-other-unchanged", "frame-inputs-unchanged"])
    if had_static and any(not v.no_input for v in ctx.violations):
        ctx.violations = [v for v in ctx.violations if not v.no_input] + had_static[:0]
        ctx.notes.append("static store-site failures were replayed by the run-time byte comparison: %s" % ", ".join(v.obligation for v in had_static))
    ctx.coverage["explanation"] = (
        "Static half (all inputs): %d/%d store-site obligations discharged over %d functions by provenance analysis of the working tree's ASTs "
        "(no store, in-place operator, mutating method call or out= target reaches caller-owned memory, module-level state, or an attribute outside "
        "__init__ other than the diagnostics the property excludes). Run-time half (bounded): byte snapshots of every argument around every aggregate "
        "of both cube types, second call == first, re-used function objects == fresh ones on the same and on another cube, every permutation of "
        "aggregate triples equals the single evaluations, plus the frame / no-shared-storage clauses of every iindex operation contract." % (ok, total, fns))
    ctx.coverage["static_store_sites"] = {"obligations": total, "discharged": ok, "functions": fns,
                                          "proof_stale": [{"site": x.name, "statement": x.text, "why": x.why} for x in stale_sites]}
    ctx.assumptions += ["NumPy functions mutate their arguments only through out= and the known mutating methods",
                        "array-level aliasing inside freshly built containers is judged at run time (byte snapshots), not statically"]


def replay(path):
    from .. import core as _core

    return _core.generic_replay(PROP if "PROP" in globals() else "C17", path, run, LEVEL)
