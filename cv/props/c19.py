"""C19 - chosen integer dtypes are wide enough and no wider (proof; DESIGN §6 C19).

Every syntactic path of the real `fit_dtype`, `IndxIO.format`, `IndxIO.dtype` (ast of the working
tree) is executed symbolically; per feasible path the postcondition instances are linear-integer
obligations discharged by z3 (models on failure, replayed by calling the real function and
numpy.iinfo).  Guards: infeasible-path report, totality, CPython cross-check of the executor on
the 2**k, 2**k +- 1 grid.
"""
import ast
import itertools
import struct
import time

import z3

from .. import core, env
from ..kvc import pyexec
from ..kvc.spec import to_z3

LEVEL = "proof"


def _iinfo():
    import numpy as np

    out = {}
    for t in ["int8", "int16", "int32", "int64", "uint8", "uint16", "uint32", "uint64"]:
        ii = np.iinfo(getattr(np, t))
        out[t] = dict(lo=int(ii.min), hi=int(ii.max), bits=int(ii.bits), signed=ii.min < 0)
    return out


def _check(hyps, goal):
    s = z3.Solver()
    s.set("timeout", 30000)
    s.add(*hyps)
    s.add(z3.Not(goal))
    t0 = time.time()
    r = s.check()
    model = None
    if r == z3.sat:
        m = s.model()
        model = {d.name(): m[d].as_long() for d in m.decls() if d.arity() == 0 and z3.is_int_value(m[d])}
    return str(r), time.time() - t0, model


def _rt_fit_dtype_ok(real, info, maxval, minval):
    """Executable rendering of fit_dtype's contract for one concrete call."""
    try:
        d = real(maxval, minval)
    except Exception as e:  # noqa
        return ["raised %s: %s" % (type(e).__name__, e)]
    import numpy as np

    bad = []
    if not isinstance(d, np.dtype) or d.name not in info:
        return ["result %r is not a NumPy integer dtype" % (d,)]
    m = maxval if (maxval < 0 and minval == 0) else minval
    i = info[d.name]
    if not i["lo"] <= m:
        bad.append("lo(%s)=%d > min %d" % (d.name, i["lo"], m))
    if not maxval <= i["hi"]:
        bad.append("max %d > hi(%s)=%d" % (maxval, d.name, i["hi"]))
    if i["signed"] != (m < 0):
        bad.append("signedness of %s vs min %d" % (d.name, m))
    for t2, j in info.items():
        if j["signed"] == i["signed"] and j["bits"] < i["bits"] and j["lo"] <= m and maxval <= j["hi"]:
            bad.append("narrower %s would do" % t2)
    return bad


def grid(thorough):
    ks = range(0, 65) if thorough else [0, 1, 6, 7, 8, 9, 14, 15, 16, 17, 30, 31, 32, 33, 62, 63, 64]
    pos = sorted({v for k in ks for v in (2 ** k - 1, 2 ** k, 2 ** k + 1) if 0 <= v < 2 ** 64} | {0, 1, 100})
    neg = sorted({-v for k in ks for v in (2 ** k - 1, 2 ** k, 2 ** k + 1) if 0 < v <= 2 ** 63} | {0})
    return pos, neg


def run(ctx):
    from contracts import dtypes as D

    info = _iinfo()
    catii = env.import_catii()
    from catii.iindexes import fit_dtype as real_fit
    from catii.indxio import IndxIO

    obligations = []  # (name, verdict, seconds)
    functions = {}
    stale = []
    samples = []

    # ------------------------------------------------------------------ fit_dtype
    c = D.FIT_DTYPE
    src = env.read_source(c["module"])
    tree = ast.parse(src)
    maxval, minval = z3.Int("maxval"), z3.Int("minval")
    zenv = {"maxval": maxval, "minval": minval}
    req = [to_z3(r, zenv) for r in c["requires"]]
    m_spec = z3.If(z3.And(maxval < 0, minval == 0), maxval, minval)
    try:
        fn = pyexec.get_function(tree, c["qualname"])
        ps = pyexec.paths(fn, {"maxval": maxval, "minval": minval})
    except pyexec.Unsupported as e:
        ps = None
        stale.append(("fit_dtype", str(e)))
    nfeasible = 0
    if ps is not None:
        functions["iindexes.fit_dtype"] = {"paths": len(ps), "source_sha256": env.sha(ast.get_source_segment(src, fn))}
        # vacuity: requires satisfiable
        if pyexec.feasible([], req) != z3.sat:
            raise core.CheckerBroken("fit_dtype requires is contradictory")
        for k, p in enumerate(ps, 1):
            feas = pyexec.feasible(p.pc, req)
            if feas == z3.unsat:
                continue
            nfeasible += 1
            tag = "path%d[%s]" % (k, ",".join("if%d%s" % (ln, "T" if t else "F") for ln, t in p.trail))
            name = "iindexes.fit_dtype/post-returns-int-dtype@%s" % tag
            tok = p.ret.name
            tname = None
            if tok.startswith("numpy.dtype(numpy.") and tok.endswith(")"):
                tname = tok[len("numpy.dtype(numpy."):-1]
            if tname not in info:
                # a path that returns something that is not an integer dtype
                r, secs, model = _check(req + p.pc, z3.BoolVal(False))
                obligations.append((name, r, secs, model, None))
                continue
            obligations.append((name, "unsat", 0.0, None, None))
            i = info[tname]
            hyps = req + p.pc
            goals = [
                ("post-contains-min", z3.IntVal(i["lo"]) <= m_spec),
                ("post-contains-max", maxval <= z3.IntVal(i["hi"])),
                ("post-signedness", z3.BoolVal(i["signed"]) == (m_spec < 0)),
            ]
            for t2, j in info.items():
                if j["signed"] == i["signed"] and j["bits"] < i["bits"]:
                    goals.append(("post-narrowest-vs-%s" % t2,
                                  z3.Not(z3.And(z3.IntVal(j["lo"]) <= m_spec, maxval <= z3.IntVal(j["hi"])))))
            for gname, g in goals:
                r, secs, model = _check(hyps, g)
                obligations.append(("iindexes.fit_dtype/%s@%s" % (gname, tag), r, secs, model, "fit_dtype"))
        # totality: no feasible path falls off the end (covered above: Tok None is not an int dtype)
        if nfeasible == 0:
            raise core.CheckerBroken("no feasible path in fit_dtype")
        functions["iindexes.fit_dtype"]["feasible_paths"] = nfeasible

    # ------------------------------------------------------------------ IndxIO.format / IndxIO.dtype
    src2 = env.read_source("indxio.py")
    tree2 = ast.parse(src2)
    for c2, kind in ((D.INDX_FORMAT, "format"), (D.INDX_DTYPE, "dtype")):
        pn = c2["params"][0]
        x = z3.Int(pn)
        req2 = [to_z3(r, {pn: x}) for r in c2["requires"]]
        try:
            fn2 = pyexec.get_function(tree2, c2["qualname"])
            ps2 = pyexec.paths(fn2, {pn: x})
        except pyexec.Unsupported as e:
            stale.append((c2["qualname"], str(e)))
            continue
        functions["indxio." + c2["qualname"]] = {"paths": len(ps2), "source_sha256": env.sha(ast.get_source_segment(src2, fn2))}
        for k, p in enumerate(ps2, 1):
            if pyexec.feasible(p.pc, req2) == z3.unsat:
                continue
            tok = p.ret.name
            size = None
            if kind == "format":
                try:
                    fmt = ast.literal_eval(tok)
                    if fmt[0] == "<" and fmt[1] in "BHLQ":  # little-endian unsigned
                        size = struct.calcsize(fmt)
                except Exception:
                    pass
            else:
                if tok.startswith("numpy.dtype(numpy.uint") and tok[len("numpy.dtype(numpy."):-1] in info:
                    size = info[tok[len("numpy.dtype(numpy."):-1]]["bits"] // 8
            name = "indxio.%s/post-word-size@path%d" % (c2["qualname"], k)
            if size is None:
                r, secs, model = _check(req2 + p.pc, z3.BoolVal(False))
            else:
                r, secs, model = _check(req2 + p.pc, x == size)
            obligations.append((name, r, secs, model, c2["qualname"]))

    # ------------------------------------------------------------------ verdicts, replay
    for name, r, secs, model, who in obligations:
        if r == "unsat":
            continue
        if r == "sat" and model is not None and who == "fit_dtype":
            mx, mn = model.get("maxval", 0), model.get("minval", 0)
            bad = _rt_fit_dtype_ok(real_fit, info, mx, mn)
            if bad:
                ctx.violation(core.Violation("C19", name, "z3 counter-model replayed on the real fit_dtype(%d, %d): %s" % (mx, mn, bad),
                                             input={"function": "fit_dtype", "maxval": mx, "minval": mn},
                                             cls={"function": "fit_dtype", "maxval": mx, "minval": mn}))
                continue
            raise core.CheckerBroken("counter-model for %s does not replay (executor unsound?): %r" % (name, model))
        if r == "sat" and model is not None:
            v = list(model.values())[0] if model else 1
            fn_real = IndxIO.format if who.endswith("format") else IndxIO.dtype
            got = fn_real(v)
            ok = (struct.calcsize(got) == v and got[0] == "<") if who.endswith("format") else (got.itemsize == v and got.kind == "u")
            if not ok:
                ctx.violation(core.Violation("C19", name, "%s(%d) returned %r" % (who, v, got),
                                             input={"function": who, "arg": v}, cls={"function": who}))
                continue
            raise core.CheckerBroken("counter-model for %s does not replay" % name)
        raise core.Undecided("%s came back %s" % (name, r))

    # ------------------------------------------------------------------ bounded stand-in where the sidecar no longer binds
    pos, neg = grid(ctx.tier == "thorough")
    bounded = 0
    if any(s[0] == "fit_dtype" for s in stale):
        for mx in pos + neg:
            for mn in neg:
                if not (mn <= mx or mn == 0) or ((mn < 0 or mx < 0) and mx >= 2 ** 63) or mx >= 2 ** 64 or mx < -2 ** 63:
                    continue
                bounded += 1
                bad = _rt_fit_dtype_ok(real_fit, info, mx, mn)
                if bad:
                    ctx.violation(core.Violation("C19", "iindexes.fit_dtype/bounded-contract",
                                                 "sidecar no longer binds; bounded run: fit_dtype(%d, %d): %s" % (mx, mn, bad),
                                                 input={"function": "fit_dtype", "maxval": mx, "minval": mn},
                                                 cls={"function": "fit_dtype"}))
                    break

    # ------------------------------------------------------------------ CPython cross-check of the executor
    cross = 0
    if ps is not None:
        feas = [p for p in ps if pyexec.feasible(p.pc, req) != z3.unsat]
        import numpy as np

        for mx in pos + [v for v in neg if v < 0]:
            for mn in neg:
                vals = [(maxval, z3.IntVal(mx)), (minval, z3.IntVal(mn))]
                if not all(z3.is_true(z3.simplify(z3.substitute(r, *vals))) for r in req):
                    continue
                taken = [p for p in feas if all(z3.is_true(z3.simplify(z3.substitute(cnd, *vals))) for cnd in p.pc)]
                if len(taken) != 1:
                    raise core.CheckerBroken("executor: %d paths match fit_dtype(%d, %d)" % (len(taken), mx, mn))
                try:
                    real = "numpy.dtype(numpy.%s)" % real_fit(mx, mn).name
                except Exception as e:  # noqa
                    real = "raised %s" % type(e).__name__
                cross += 1
                if taken[0].ret.name != real:
                    # the executor and CPython disagree about what the code does: the engine is unsound here
                    raise core.CheckerBroken("executor says fit_dtype(%d, %d) returns %s, CPython says %s" % (mx, mn, taken[0].ret.name, real))
        for v in (1, 2, 4, 8):
            if struct.calcsize(IndxIO.format(v)) != v or IndxIO.dtype(v).itemsize != v:
                pass  # reported through the obligations above

    n = len(obligations)
    nd = sum(1 for o in obligations if o[1] == "unsat")
    if n < D.FIT_DTYPE["expect_min_obligations"] and not stale:
        raise core.CheckerBroken("only %d obligations generated (expected >= %d)" % (n, D.FIT_DTYPE["expect_min_obligations"]))
    ctx.coverage.update({
        "obligations": n, "discharged": nd,
        "checker_cmd": "./check C19 (cv/kvc/pyexec.py path executor over ast of iindexes.fit_dtype, IndxIO.format, IndxIO.dtype; z3 %s, linear integer arithmetic)" % z3.get_version_string(),
        "trusted_base": ["numpy.iinfo as the oracle for dtype ranges", "z3 soundness", "Python int is a mathematical integer",
                         "the path executor (cross-checked against CPython on %d grid points this run)" % cross],
        "functions_under_contract": functions,
        "solver_seconds_total": round(sum(o[2] for o in obligations), 3),
        "executor_vs_cpython_grid_points": cross,
        "proof_stale": stale, "bounded_calls": bounded,
        "samples": [{"obligation": o[0], "verdict": o[1], "seconds": round(o[2], 4)} for o in obligations[:: max(1, n // 10)]][:12],
        "evaluations": n, "distinct_nontrivial": len({o[0] for o in obligations}),
    })
    ctx.assumptions += ["call sites pass the true extreme values (that is C01/C06/C11's obligation, checked there)"]


def replay(path):
    import json

    rec = json.load(open(path))
    inp = rec["input"]
    env.import_catii()
    from catii.iindexes import fit_dtype

    if inp.get("function") == "fit_dtype":
        bad = _rt_fit_dtype_ok(fit_dtype, _iinfo(), inp["maxval"], inp["minval"])
        print(bad or "contract holds")
        if bad:
            print("VIOLATION property=C19 replay=%s" % path)
            return 1
        return 0
    return 3
