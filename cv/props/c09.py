"""C09 - sorted-set kernels never touch memory outside their buffers (proof; DESIGN §6 C09)."""
from ..kvc import kernels_check

LEVEL = "proof"


def run(ctx):
    kernels_check.run(ctx, "C09")


def replay(path):
    return kernels_check.replay(path)
