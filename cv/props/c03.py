"""C03 - index cube, array cube and direct group-by agree on the shared aggregates (bounded; DESIGN §6 C03).

The same postcondition `out ~ Spec_agg(views, fact, weights, ignore_missing)` is attached to
count / valid_count / sum / mean of BOTH cube classes (missing cells exactly, values within
1e-9 * max(1, |grand total|), exact output shape), so "agree" is a lemma; it is also stated directly
(`agree-ccube-xcube-*`).  Intermediate contracts: as_separate_validity (both modules),
xcube._set_strides / strided_dims, the constructors' normalisation and xfunc_*.fill per bin.
The enumeration is shared with C04 (clauses containing `/missing-rule-` or `/formats-` are C04's)."""
from ..rtc import contracts_agg, drive_agg, runner
from .. import core

LEVEL = "exploration"
PROP = "C03"
RULE = ("family A: every cube in scope (0-3 dims of 1-D indexes/arrays, all dense rows over the value set, every common per dim incl. absent, "
        "explicit and inferred shape; DESIGN §4.3) x a pairwise-covering design over (fact form, weight form, policy, xcube dim dtype) "
        "x 4 aggregates x 4 report formats x both cube types, contents walking the exhaustive grid lists; family B: 1-dim cubes over two "
        "categories, N <= 3, fact and weight contents enumerated exhaustively. A case is non-trivial when the cube has at least one row; "
        "distinct by construction (enumeration without repetition, one design row = one distinct (cube, fact, weights, policy))")


def belongs_to(prop):
    return lambda ob: contracts_agg.property_of(ob) == prop


def run(ctx, prop=PROP):
    proved = None
    if prop == "C03":
        # engine A: the real reduce of both cube types on the same cell symbols (all cell contents; reals for floats)
        from ..kvc import cell_check

        proved = cell_check.run_agree(ctx, "C03")
    mon, totals = runner.run_sharded(drive_agg.work, ctx.tier)
    broken = {ob: n for ob, n in mon.fail_counts.items() if contracts_agg.property_of(ob) == "checker"}
    if broken:
        first = [f for f in mon.failures if f.obligation in broken][:1]
        raise core.CheckerBroken("self-check of the checker failed: %r %s" % (broken, first[0].what if first else ""))
    mine = [q for q in mon.outside if q.split(".")[-1] in contracts_agg.AGG_METHODS and mon.outside[q]]
    if mine:
        raise core.CheckerBroken("driver made calls outside the aggregates' precondition: %r" % {q: mon.outside[q] for q in mine})
    runner.report(ctx, mon, totals, belongs_to(prop), RULE, expect_clauses=EXPECT[prop], exhaustive=True,
                  extra_cov={"driver_calls_by_family": {k.split(":", 1)[1]: int(v) for k, v in sorted(mon.calls.items()) if k.startswith("driver:")},
                             "scope": drive_agg.scopes(ctx.tier)})
    if proved:
        ctx.coverage["proved_subobligations"] = dict(proved, back_ends=["z3"], functions_under_contract=sorted(proved.get("cellwise_functions", {})), what="the real reduce of ffunc_X and xfunc_X (X = count, valid_count, sum, mean) executed cell-wise on the "
                                                     "SAME symbols (V valid rows, M missing rows, Wv valid weight, S value): same missing flag, same value where not missing, "
                                                     "and that value is the direct per-cell aggregate (rows or weighted count / S / S over Wv), for both policies, weighted and "
                                                     "unweighted, NaN and (value, validity) report formats")
        if proved["cellwise_stale"]:
            ctx.notes.append("proof_stale: %r - construct outside the cell-wise executor; the bounded contracts decide" % (proved["cellwise_stale"][:4],))
        ctx.assumptions.append("proved part: floats treated as reals; the meaning of each region at one cell after marginal differencing is the sidecar's "
                               "(contracts/reduce.py), checked on real fills by the bounded clauses get_initial_regions / _fill / fill; differencing itself: C02")
    ctx.assumptions += ["bounded: holds on the enumerated cube / fact / weight scope only (engine C is the bounded stand-in, not a proof)",
                        "contents of family A design rows are a deterministic full-cycle walk through the grid lists, not their full product "
                        "with every cube (family B enumerates contents exhaustively for the 1-dimension cubes)",
                        "weights >= 0, extents exceed every value and the common value, array-cube dims non-negative (preconditions from the code)"]


_A = ["ccubes.ccube.%s/", "xcubes.xcube.%s/"]
_AGGS = contracts_agg.AGG_METHODS
EXPECT = {
    "C03": [p % a + c for p in _A for a in _AGGS for c in ("no-raise", "ensures-shape-exact", "ensures-missing-cells-equal-spec",
                                                            "ensures-values-equal-spec-on-nonmissing-cells")]
    + ["cubes.%s/agree-ccube-xcube-%s" % (a, c) for a in _AGGS for c in ("missing-cells", "values")]
    + ["ffuncs.as_separate_validity/ensures-values-alias-input", "xfuncs.as_separate_validity/ensures-validity-fresh",
       "ffuncs.as_separate_validity/ensures-validity-equals", "xfuncs.as_separate_validity/ensures-validity-equals",
       "xcube._set_strides/ensures-multipliers", "xcube._set_strides/ensures-mintype", "xcube.strided_dims/ensures-sum-equals-ravel",
       "xcube.strided_dims/ensures-cell-number-below-size"]
    + ["xfuncs.xfunc_%s.fill/ensures-per-bin-%s" % (a, c) for a in _AGGS for c in ("values", "valid-counts", "missing-counts")]
    + ["ffuncs.ffunc_%s.get_initial_regions/%s" % (a, c) for a in _AGGS for c in ("ensures-regions-have-working-shape", "ensures-corner-values-total",
                                                                                   "ensures-corner-valid-count-total", "ensures-corner-missing-count-total",
                                                                                   "ensures-zero-outside-corner")]
    + ["ffuncs.ffunc_%s.fill_func._fill/%s" % (a, c) for a in _AGGS for c in ("ensures-cell-holds-values-over-rowids", "ensures-cell-holds-valid-count",
                                                                               "ensures-cell-holds-missing-count", "frame-other-cells-unchanged")]
    + ["%s.%sfunc_%s.__init__/ensures-validity" % (m, m[0], a) for m in ("ffuncs", "xfuncs") for a in _AGGS]
    + ["%s.%sfunc_%s.__init__/ensures-summables" % (m, m[0], a) for m in ("ffuncs", "xfuncs") for a in ("sum", "mean")]
    + ["%s.%sfunc_%s.__init__/ensures-countables" % (m, m[0], a) for m in ("ffuncs", "xfuncs") for a in ("count", "valid_count", "mean")],
    "C04": [p % a + c for p in _A for a in _AGGS for c in ("missing-rule-propagate", "missing-rule-ignore",
                                                            "formats-tuple-missing-cells-hold-sentinel",
                                                            "formats-plain-missing-cells-hold-replacement", "formats-same-missing-set",
                                                            "formats-identical-values-on-nonmissing-cells",
                                                            "formats-plain-zero-where-nan-format-is-missing")],
}


def replay(path, prop=PROP):
    import json

    from .. import env
    from ..rtc.contract import MON

    rec = json.load(open(path))
    env.import_catii()
    contracts_agg.install()
    drive_agg.replay_input(rec["input"])
    ob = rec["obligation"]
    for f in MON.failures:
        print("FAILED %s: %s" % (f.obligation, f.what))
    if MON.fail_counts.get(ob):
        print("VIOLATION property=%s replay=%s" % (rec["property"], path))
        return core.EXIT_VIOLATION
    if not MON.evals.get(ob):
        print("clause %s was not evaluated by the recorded input" % ob)
        return core.EXIT_BROKEN
    print("clause %s holds on the recorded input" % ob)
    return core.EXIT_OK
