"""C18 - array-cube-only statistics equal the per-cell textbook statistic (bounded; DESIGN §6 C18).

Contracts on the real xcube.stddev / quantile / min / max / corrcoef / covariance, on the fill
methods of their xfunc objects and on xfunc.bins (cv/rtc/contracts_stats.py), judged against the
pure-NumPy per-cell definitions of cv/rtc/spec_stats.py over the exhaustively enumerated scope of
cv/rtc/drive_stats.py."""
import json

from .. import core
from ..rtc import contracts_stats, drive_stats, runner

LEVEL = "exploration"
PROP = "C18"
RULE = ("every fact vector over {0, 1, 2.5, -3, NaN} with N <= 4 rows (thorough: 5), every (fact, weight) pair with N <= 3 (4), every (N,2) fact "
        "matrix with N <= 3 (+ N = 4 on a 3-value grid), every dimension assignment with N <= 4 rows and extents <= 3 (0-2 dimensions, explicit "
        "and inferred shape, extra axes), cells of 5-6 rows with 1-3 columns, int / datetime64 facts for min / max; policy and probability "
        "{0, .1, .25, .5, .9, 1} in full product, input form (NaN-marked | (values, validity) with garbage under False), weight form and report "
        "format (NaN | (sentinel, False)) rotated with the job number (covering design). A case is non-trivial when it has at least one row; "
        "cases are distinct by construction (enumeration without repetition). Clause evaluations are counted per output cell / matrix entry.")

EXPECT = [
    "xcube.stddev/ensures-shape", "xcube.stddev/ensures-missing-cells-exact", "xcube.stddev/ensures-value-equals-percell-statistic",
    "xcube.stddev/ensures-formats-same-missing-cells", "xcube.stddev/ensures-formats-same-values",
    "xcube.quantile/ensures-missing-cells-exact", "xcube.quantile/ensures-value-equals-percell-statistic",
    "xcube.quantile/ensures-weighted-missing-rule", "xcube.quantile/ensures-weighted-missing-rule-p1-zero-weight-on-last-sorted-valid-row",
    "xcube.quantile/ensures-weighted-within-min-max-of-valid-values", "xcube.quantile/ensures-weighted-invariant-under-weight-rescaling",
    "xcube.quantile/ensures-formats-same-missing-cells",
    "xcube.min/ensures-missing-cells-exact", "xcube.min/ensures-value-equals-percell-statistic", "xcube.min/ensures-formats-same-values",
    "xcube.max/ensures-missing-cells-exact", "xcube.max/ensures-value-equals-percell-statistic", "xcube.max/ensures-formats-same-missing-cells",
    "xcube.covariance/ensures-missing-cells-exact", "xcube.covariance/ensures-value-equals-percell-statistic",
    "xcube.covariance/ensures-formats-same-missing-cells",
    "xcube.corrcoef/ensures-missing-cells-exact", "xcube.corrcoef/ensures-value-equals-percell-statistic",
    "xcube.corrcoef/ensures-formats-same-values", "ensures-format-sentinel-in-missing-cells",
    "xfunc.bins/ensures-one-mask-per-output-cell", "xfunc.bins/ensures-masks-partition-the-rows", "xfunc.bins/ensures-mask-selects-the-rows-of-its-cell",
    "xfunc_stddev.fill/ensures-bin-valid-counts", "xfunc_stddev.fill/ensures-bin-missing-counts", "xfunc_stddev.fill/ensures-bin-value-equals",
    "xfunc_quantile.fill/ensures-bin-missing-cells-exact", "xfunc_quantile.fill/ensures-bin-weighted-missing-rule",
    "xfunc_op_base.fill/ensures-bin-missing-cells-exact", "xfunc_op_base.fill/ensures-bin-value-equals",
    "xfunc_covariance.fill/ensures-bin-missing-cells-exact", "xfunc_corrcoef.fill/ensures-bin-value-equals",
    "__init__/ensures-missing-rows-normalised",
]


def run(ctx):
    # proved half: the standard-deviation missing rule and format agreement of xfunc_stddev.reduce, cell-wise
    from ..kvc import cell_check

    proved = cell_check.run(ctx, "C18", kinds={"stddev"})
    mon, totals = runner.run_sharded(drive_stats.work, ctx.tier)
    runner.report(ctx, mon, totals, contracts_stats.belongs, RULE, expect_clauses=EXPECT, exhaustive=True)
    ctx.coverage["proved_subobligations"] = proved
    ctx.assumptions += [
        "bounded: holds on the enumerated data / layout / factor scope only (engine C is the bounded stand-in, not a proof)",
        "oracle: spec_stats (pure NumPy on the raw arguments; numpy.quantile, numpy.cov, numpy.sqrt are trusted)",
        "not compared (mathematically undefined, as the property says): correlation entries with a constant column; cells whose valid weights "
        "sum to zero (weighted sd, weighted quantile); weighted covariance entries with no degree of freedom left",
        "purity of the calls made inside the relational clauses (other format, rescaled weights) is C17's",
    ]


def replay(path):
    rec = json.load(open(path))
    from .. import env
    from ..rtc.contract import MON

    env.import_catii()
    import warnings

    import numpy as np

    XC, XF = contracts_stats.install()
    warnings.simplefilter("ignore")
    np.seterr(all="ignore")
    ob = rec["obligation"]
    inp = rec["input"] or {}
    try:
        if inp.get("stat") == "bins":
            list(XF.xfunc.bins(contracts_stats.dec(inp["coordinates"]), inp["size"]))
        elif "stat" in inp and "fact" in inp:
            contracts_stats.call_from_description(inp)
        else:
            print("this replay file records a driver-level clause; re-run the check itself: ./check %s" % rec["property"])
            return core.EXIT_UNDECIDED
    except Exception as e:  # noqa
        print("call raised %s: %s" % (type(e).__name__, e))
    for f in MON.failures:
        print("FAILED %s: %s" % (f.obligation, f.what))
    if any(f.obligation == ob for f in MON.failures):
        print("VIOLATION property=%s replay=%s" % (rec["property"], path))
        return core.EXIT_VIOLATION
    print("clause %s holds on the recorded input" % ob)
    return core.EXIT_OK
