"""C14 - walk presents exactly the non-empty uncommon and marginal intersections (DESIGN §6 C14, §12).

Proved part (engine A, cv/kvc/walkexec.py): the real `_walk` is executed symbolically per case of its contract; the count of
deliveries of an arbitrary coordinate tuple and the rows delivered are obligations discharged by z3 for all dimensions, data and
depths (induction over len(dims), the recursive calls entering by the contract), the kernel entering by the set-level reading of
the contract C08 proves.

Bounded part: ghost trace of callback invocations on ccube.walk / ccube._walk (per branch of the recursion) /
ccube.interactions, compared with {(c, rows(c))} computed by brute force from the dense views; same
driver and cases as C02 (walk parts: interactions(), walk((f, g)), walk(f), and the walks that
calculate makes on the 1-D sub-cubes of a count)."""
from . import c02

LEVEL = "exploration"


def proved_part():
    import ast

    from .. import env
    from ..kvc import discharge, walkexec as W
    from contracts import kernels as K

    tree = ast.parse(env.read_source("ccubes.py"))
    obls, stale = [], []
    for what, f in (("ccube._walk", lambda: W.verify_walk(tree)), ("ccube.walk", lambda: W.verify_entry_points(tree)), ("kernel lemma", lambda: W.kernel_lemma(K))):
        try:
            obls += f()
        except W.Unsupported as e:
            stale.append((what, str(e)))
    return (discharge.discharge(obls) if obls else []), stale


def run(ctx):
    from .. import core

    results, stale = proved_part()
    c02.run(ctx, "C14")
    real = [r for r in results if r.kind != "canary"]
    failed = [r for r in results if not r.discharged]
    for r in failed:
        if r.kind == "canary":
            raise core.CheckerBroken("vacuous hypotheses: canary %s is %s" % (r.name, r.verdict))
        # (when the bounded run of the real code found a failing input in this run, core adopts it for this violation)
        ctx.violation(core.Violation("C14", r.name, "obligation generated from the current source of _walk is not discharged (%s by %s)" % (r.verdict, r.backend),
                                     input=None, cls={"function": "_walk"},
                                     solver={"verdict": r.verdict, "backend": r.backend, "detail": r.detail, "model": r.model}, no_input=True))
    ctx.coverage["proved_subobligations"] = {
        "what": "ccube._walk executed symbolically on the working tree's AST per contract case (several/one/no dimensions x restricted/unrestricted): for an ARBITRARY "
                "coordinate tuple the number of callback calls is 1 iff every coordinate is a key or -1, not all are -1 (unrestricted), and the intersection is "
                "non-empty, else 0; the rows passed are exactly that intersection, strictly increasing; recursive calls meet the contract's requires on strictly "
                "shorter dims (induction); the set-level kernel contract is derived from the array-level contract C08 proves",
        "obligations": len(real), "discharged": sum(1 for r in real if r.discharged), "canaries": sum(1 for r in results if r.kind == "canary"),
        "solver_s": round(sum(r.seconds for r in results), 2), "back_ends": sorted({r.backend for r in real if r.discharged}),
        "second_back_end": sorted({str(r.second) for r in real if r.second is not None}),
        "functions_under_contract": ["ccubes.ccube._walk", "ccubes.ccube.walk (entry)", "set_operations.set_intersect_merge_np (set-level lemma over the contract proved under C08)"],
        "names": [r.name for r in real][:60], "proof_stale": stale,
    }
    if stale:
        ctx.notes.append("proved part not generated (source outside the executor's subset; the bounded part decides): %r" % (stale,))
    ctx.assumptions += [
        "proved part: dict iteration visits every key of dims[0] exactly once and `for func in funcs` every callback once (loop rule); a strictly increasing uint32 "
        "array is abstracted to its element set; dimensions are one-axis indexes with keys (k,), k >= 0, entries strictly increasing (possibly empty); "
        "row-id arrays shorter than 2**31 (the kernel's length limit); the accumulation into self.intersection_data_points is outside the contract",
    ]


replay = c02.replay
