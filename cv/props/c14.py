"""C14 - walk presents exactly the non-empty uncommon and marginal intersections (bounded; DESIGN §6 C14).

Ghost trace of callback invocations on ccube.walk / ccube._walk (per branch of the recursion) /
ccube.interactions, compared with {(c, rows(c))} computed by brute force from the dense views; same
driver and cases as C02 (walk parts: interactions(), walk((f, g)), walk(f), and the walks that
calculate makes on the 1-D sub-cubes of a count)."""
from . import c02

LEVEL = "exploration"


def run(ctx):
    c02.run(ctx, "C14")


replay = c02.replay
