"""C04 - missing-cell rule; the three missing-value report formats agree (bounded; same enumeration as C03).

Clauses `missing-rule-propagate` / `missing-rule-ignore` on every aggregate of both cube types (the
missing set equals the rule of the property text, computed by spec_agg.missing_rule), and the
relational `formats-*` clauses: NaN, (0, False), (-7.5, False) and plain 0 describe the same missing
set and identical values elsewhere.  Excluded, as the property says: valid_count with a plain
replacement value under propagation."""
from . import c03

LEVEL = "exploration"


def run(ctx):
    # proved half (engine A): the missing flag of every counter-based `reduce`, cell-wise, for all V/M/weights,
    # and agreement of the three report formats on flag and value
    from ..kvc import cell_check

    proved = cell_check.run(ctx, "C04")
    c03.run(ctx, "C04")
    ctx.coverage["proved_subobligations"] = proved


def replay(path):
    return c03.replay(path, "C04")
