"""C08 - sorted-set kernels compute exact set algebra (proof; DESIGN §6 C08)."""
from ..kvc import kernels_check

LEVEL = "proof"


def run(ctx):
    kernels_check.run(ctx, "C08")


def replay(path):
    return kernels_check.replay(path)
