"""C06 - index operations track NumPy on the dense array over any history (bounded; DESIGN §6 C06).

Per-operation contracts over the whole dense view on EVERY well-formed state in scope; histories
are covered by induction over the contracts (wf is all a later operation requires)."""
from ..rtc import contracts_iindex, drive_iindex, runner

LEVEL = "exploration"
PROP = "C06"
RULE = ("every well-formed 1-D/2-D/3-D index state in scope (built directly, not through the library) x every operation x every argument "
        "in scope (DESIGN §4.3); a case is non-trivial when the state has at least one row; distinct by construction (enumeration without repetition)")


def run(ctx, prop=PROP):
    mon, totals = runner.run_sharded(drive_iindex.work, ctx.tier)
    runner.report(ctx, mon, totals, lambda ob: contracts_iindex.property_of(ob) == prop, RULE,
                  expect_clauses=EXPECT[prop])
    ctx.assumptions += ["bounded: holds on the enumerated state/argument scope only (engine C is the bounded stand-in, not a proof)",
                        "histories: by induction over per-operation contracts whose only precondition on the receiver is wf"]


EXPECT = {
    "C06": ["shift_common/ensures-view", "append/ensures-view", "update/ensures-view", "filtered/ensures-view", "sliced/ensures-view",
            "slices1d/ensures-view", "reindexed/ensures-view", "collapsed/ensures-view", "copy/ensures-view", "column_stack/ensures-view",
            "union_update/ensures-entrywise", "intersection_update/ensures-entrywise", "difference_update/ensures-entrywise",
            "common_rowids/ensures-rows", "to_dict/ensures-content", "get/ensures-rows", "items/ensures-forced",
            "append/frame-other-unchanged", "copy/no-shared-storage", "column_stack/no-shared-storage"],
    "C07": ["shift_common/ensures-wf-empty-entry", "append/ensures-wf-empty-entry", "update/ensures-wf-", "filtered/ensures-wf-",
            "sliced/ensures-wf-", "reindexed/ensures-wf-", "collapsed/ensures-wf-", "copy/ensures-wf-", "column_stack/ensures-wf-",
            "union_update/ensures-wf-", "ensures-validate", "observer-equals-unique", "observer-fraction", "observer-inferred-shape"],
    "C15": ["shift_common/ensures-common-is-mode", "append/ensures-common-is-mode", "filtered/ensures-common-is-mode",
            "collapsed/ensures-common-is-mode", "eq-iff-same", "eq-ne-never-raises", "eq-ne-is-negation", "eq-symmetric", "eq-reflexive",
            "eq-false-against-non-index", "eq-append-result-equals"],
}


def replay(path):
    from ..rtc import replay as R

    return R.replay_iindex(path)
