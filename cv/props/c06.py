"""C06 - index operations track NumPy on the dense array over any history (bounded; DESIGN §6 C06).

Per-operation contracts over the whole dense view on EVERY well-formed state in scope; histories
are covered by induction over the contracts (wf is all a later operation requires)."""
from ..rtc import contracts_iindex, drive_iindex, runner

LEVEL = "exploration"
PROP = "C06"
RULE = ("every well-formed 1-D/2-D/3-D index state in scope (built directly, not through the library) x every operation x every argument "
        "in scope (DESIGN §4.3); a case is non-trivial when the state has at least one row; distinct by construction (enumeration without repetition)")


def proved_part(prop):
    """Engine A: per-key obligations of union/intersection/difference_update and set_if on the real ASTs,
    with the kernel wrappers entering by their proved contracts (C08).  Returns (results, stale)."""
    import ast

    from .. import env
    from ..kvc import discharge, updexec as U
    from contracts import kernels as K

    tree = ast.parse(env.read_source("iindexes.py"))
    obls, stale = [], []
    try:
        obls += U.verify_set_if(U.find_method(tree, "set_if"))
    except U.Unsupported as e:
        stale.append(("iindex.set_if", str(e)))
    for name, kind in (("union_update", "union"), ("intersection_update", "intersection"), ("difference_update", "difference")):
        try:
            obls += U.verify_update(U.find_method(tree, name), kind, K.WRAPPERS)
        except U.Unsupported as e:
            stale.append(("iindex." + name, str(e)))
    mine_c07 = lambda n: "post-entry-strictly-increasing" in n or "post-no-empty-entry" in n  # noqa
    if prop == "C07":
        obls = [o for o in obls if o.kind == "canary" or mine_c07(o.name)]
    elif prop == "C06":
        obls = [o for o in obls if not mine_c07(o.name)]
    else:
        obls = []
    return (discharge.discharge(obls) if obls else []), stale


def run(ctx, prop=PROP):
    from .. import core

    results, stale = proved_part(prop)
    mon, totals = runner.run_sharded(drive_iindex.work, ctx.tier)
    real = [r for r in results if r.kind != "canary"]
    failed = [r for r in real if not r.discharged]
    for r in failed:
        method = r.name.split("/")[0].rsplit(".", 1)[-1]
        witness = [f for f in mon.failures if (".%s/" % method) in f.obligation or (method == "set_if" and "_update/" in f.obligation)]
        if witness:
            f = witness[0]
            ctx.violation(core.Violation(prop, r.name, "obligation generated from the current source is not discharged (%s); the bounded run of the real "
                                         "code fails %s: %s" % (r.verdict, f.obligation, f.what), input=f.input, cls=f.cls))
        else:
            ctx.violation(core.Violation(prop, r.name, "obligation generated from the current source is not discharged (%s by %s); the bounded run found no failing input"
                                         % (r.verdict, r.backend), input=None, cls={"method": method},
                                         solver={"verdict": r.verdict, "backend": r.backend, "detail": r.detail, "model": r.model}, no_input=True))
    callsites = None
    if prop == "C06":
        from ..kvc import callsite

        callsites = callsite.run(ctx, "C06", ["collapsed"])
    bad_canaries = [r for r in results if r.kind == "canary" and not r.discharged]
    if bad_canaries and not failed:
        raise core.CheckerBroken("vacuity: `False` provable at %s" % bad_canaries[0].name)
    runner.report(ctx, mon, totals, lambda ob: contracts_iindex.property_of(ob) == prop, RULE,
                  expect_clauses=EXPECT[prop])
    if prop in ("C06", "C07"):
        ctx.coverage["proved_subobligations"] = {
            "what": "per-key obligations of union_update / intersection_update / difference_update / set_if generated from the real ASTs; "
                    "union/intersection/difference enter by their contracts proved under C08; dict-iteration rule assumed",
            "obligations": len(real), "discharged": len(real) - len(failed), "proof_stale": stale,
            "solver_s": round(sum(r.seconds for r in results), 2),
            "samples": [{"obligation": r.name, "verdict": r.verdict, "backend": r.backend} for r in real[:6]],
        }
        if callsites:
            ctx.coverage["proved_subobligations"]["fit_dtype_call_sites"] = callsites
    ctx.assumptions += ["bounded: holds on the enumerated state/argument scope only (engine C is the bounded stand-in, not a proof)",
                        "histories: by induction over per-operation contracts whose only precondition on the receiver is wf"]


EXPECT = {
    "C06": ["shift_common/ensures-view", "append/ensures-view", "update/ensures-view", "filtered/ensures-view", "sliced/ensures-view",
            "slices1d/ensures-view", "reindexed/ensures-view", "collapsed/ensures-view", "copy/ensures-view", "column_stack/ensures-view",
            "union_update/ensures-entrywise", "intersection_update/ensures-entrywise", "difference_update/ensures-entrywise",
            "common_rowids/ensures-rows", "to_dict/ensures-content", "get/ensures-rows", "items/ensures-forced",
            "append/frame-other-unchanged", "copy/no-shared-storage", "column_stack/no-shared-storage"],
    "C07": ["shift_common/ensures-wf-empty-entry", "append/ensures-wf-empty-entry", "update/ensures-wf-", "filtered/ensures-wf-",
            "sliced/ensures-wf-", "reindexed/ensures-wf-", "collapsed/ensures-wf-", "copy/ensures-wf-", "column_stack/ensures-wf-",
            "union_update/ensures-wf-", "ensures-validate", "observer-equals-unique", "observer-fraction", "observer-inferred-shape"],
    "C15": ["shift_common/ensures-common-is-mode", "append/ensures-common-is-mode", "filtered/ensures-common-is-mode",
            "collapsed/ensures-common-is-mode", "eq-iff-same", "eq-ne-never-raises", "eq-ne-is-negation", "eq-symmetric", "eq-reflexive",
            "eq-false-against-non-index", "eq-append-result-equals"],
}


def replay(path):
    from ..rtc import replay as R

    return R.replay_iindex(path)
