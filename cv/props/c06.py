"""C06 - index operations track NumPy on the dense array over any history (bounded; DESIGN §6 C06).

Per-operation contracts over the whole dense view on EVERY well-formed state in scope; histories
are covered by induction over the contracts (wf is all a later operation requires)."""
from ..rtc import contracts_iindex, drive_iindex, runner

LEVEL = "exploration"
PROP = "C06"
RULE = ("every well-formed 1-D/2-D/3-D index state in scope (built directly, not through the library) x every operation x every argument "
        "in scope (DESIGN §4.3); a case is non-trivial when the state has at least one row; distinct by construction (enumeration without repetition)")


def proved_part(prop):
    """Engine A: per-key obligations of union/intersection/difference_update and set_if on the real ASTs,
    with the kernel wrappers entering by their proved contracts (C08).  Returns (results, stale)."""
    import ast

    from .. import env
    from ..kvc import discharge, updexec as U
    from contracts import kernels as K

    tree = ast.parse(env.read_source("iindexes.py"))
    obls, stale = [], []
    try:
        obls += U.verify_set_if(U.find_method(tree, "set_if"))
    except U.Unsupported as e:
        stale.append(("iindex.set_if", str(e)))
    for name, kind in (("union_update", "union"), ("intersection_update", "intersection"), ("difference_update", "difference")):
        try:
            obls += U.verify_update(U.find_method(tree, name), kind, K.WRAPPERS)
        except U.Unsupported as e:
            stale.append(("iindex." + name, str(e)))
    mine_c07 = lambda n: "post-entry-strictly-increasing" in n or "post-no-empty-entry" in n  # noqa
    if prop == "C07":
        obls = [o for o in obls if o.kind == "canary" or mine_c07(o.name)]
    elif prop == "C06":
        obls = [o for o in obls if not mine_c07(o.name)]
    else:
        obls = []
    return (discharge.discharge(obls) if obls else []), stale


def run(ctx, prop=PROP):
    from .. import core

    results, stale = proved_part(prop)
    mon, totals = runner.run_sharded(drive_iindex.work, ctx.tier)
    if prop in ("C07", "C15"):
        # C07 "including ... construction from arrays": the well-formedness clauses of from_array's contract (same run as C01);
        # C15 "building from an array without one": the mode clause of the same contract, under every mapping of the scope
        from ..rtc import drive_convert

        mon2, totals2 = runner.run_sharded(drive_convert.work, ctx.tier)
        if prop == "C07":
            keep = lambda ob: ob.startswith("iindexes.iindex.from_array/ensures-wf-") or ob == "iindexes.iindex.from_array/ensures-validate"  # noqa
        else:
            keep = lambda ob: ob == "iindexes.iindex.from_array/ensures-common-is-mode"  # noqa
        for ob, n in mon2.evals.items():
            if keep(ob):
                mon.evals[ob] += n
        for f in mon2.failures:
            if keep(f.obligation):
                mon.failures.append(f)
                mon.fail_counts[f.obligation] += mon2.fail_counts[f.obligation]
        totals["driver_calls"] += totals2["driver_calls"]
        totals["nontrivial"] += totals2["nontrivial"]
    real = [r for r in results if r.kind != "canary"]
    failed = [r for r in real if not r.discharged]
    for r in failed:
        method = r.name.split("/")[0].rsplit(".", 1)[-1]
        # (when the bounded run of the real code found a failing input in this run, core adopts it for this violation)
        ctx.violation(core.Violation(prop, r.name, "obligation generated from the current source is not discharged (%s by %s)" % (r.verdict, r.backend),
                                     input=None, cls={"method": method},
                                     solver={"verdict": r.verdict, "backend": r.backend, "detail": r.detail, "model": r.model}, no_input=True))
    eqres = None
    if prop == "C15":
        import ast as _ast

        from .. import env as _env
        from ..kvc import eqlemma

        if not eqlemma.probe_setxor1d():
            raise core.CheckerBroken("numpy.setxor1d probe failed")
        eqres, eqstale = eqlemma.run(_ast.parse(_env.read_source("iindexes.py")))
        for name, verdict, secs, detail in eqres:
            if verdict == "unsat":
                continue
            witness = [f for f in mon.failures if "/eq-" in f.obligation]
            if witness:
                f = witness[0]
                ctx.violation(core.Violation("C15", name, "equality obligation generated from the current __eq__/__ne__ source is not discharged (%s); the bounded "
                                             "run of the real code fails %s: %s" % (verdict, f.obligation, f.what), input=f.input, cls=f.cls))
            else:
                ctx.violation(core.Violation("C15", name, "equality obligation generated from the current __eq__/__ne__ source is not discharged (%s); the bounded run "
                                             "found no failing pair" % verdict, input=None, cls={"obligation": name}, solver={"verdict": verdict, "detail": detail}, no_input=True))
    callsites = None
    if prop == "C06":
        from ..kvc import callsite

        callsites = callsite.run(ctx, "C06", ["collapsed"])
    bad_canaries = [r for r in results if r.kind == "canary" and not r.discharged]
    if bad_canaries and not failed:
        raise core.CheckerBroken("vacuity: `False` provable at %s" % bad_canaries[0].name)
    runner.report(ctx, mon, totals, lambda ob: contracts_iindex.property_of(ob) == prop, RULE,
                  expect_clauses=EXPECT[prop])
    if prop in ("C06", "C07"):
        ctx.coverage["proved_subobligations"] = {
            "what": "per-key obligations of union_update / intersection_update / difference_update / set_if generated from the real ASTs; "
                    "union/intersection/difference enter by their contracts proved under C08; dict-iteration rule assumed",
            "obligations": len(real), "discharged": len(real) - len(failed), "proof_stale": stale,
            "solver_s": round(sum(r.seconds for r in results), 2),
            "samples": [{"obligation": r.name, "verdict": r.verdict, "backend": r.backend} for r in real[:6]],
        }
        if callsites:
            ctx.coverage["proved_subobligations"]["fit_dtype_call_sites"] = callsites
    if eqres is not None:
        ctx.coverage["proved_subobligations"] = {
            "what": "the return expression of the real __eq__ translated to SMT-LIB over abstract finite maps (keys: finite sets with cardinality, cvc5): "
                    "for well-formed operands it holds iff shape, common and entries coincide; under wf the entries are determined by (common, dense view) "
                    "and conversely (z3); __ne__ is the negation of __eq__",
            "obligations": len(eqres), "discharged": sum(1 for r in eqres if r[1] == "unsat"), "proof_stale": eqstale,
            "samples": [{"obligation": r[0], "verdict": r[1], "seconds": round(r[2], 3)} for r in eqres[:6]],
        }
    ctx.assumptions += ["bounded: holds on the enumerated state/argument scope only (engine C is the bounded stand-in, not a proof)",
                        "histories: by induction over per-operation contracts whose only precondition on the receiver is wf"]


EXPECT = {
    "C06": ["shift_common/ensures-view", "append/ensures-view", "update/ensures-view", "filtered/ensures-view", "sliced/ensures-view",
            "slices1d/ensures-view", "reindexed/ensures-view", "collapsed/ensures-view", "copy/ensures-view", "column_stack/ensures-view",
            "union_update/ensures-entrywise", "intersection_update/ensures-entrywise", "difference_update/ensures-entrywise",
            "common_rowids/ensures-rows", "to_dict/ensures-content", "get/ensures-rows", "items/ensures-forced",
            "append/frame-other-unchanged", "copy/no-shared-storage", "column_stack/no-shared-storage"],
    "C07": ["shift_common/ensures-wf-empty-entry", "append/ensures-wf-empty-entry", "update/ensures-wf-", "filtered/ensures-wf-",
            "sliced/ensures-wf-", "reindexed/ensures-wf-", "collapsed/ensures-wf-", "copy/ensures-wf-", "column_stack/ensures-wf-",
            "union_update/ensures-wf-", "ensures-validate", "observer-equals-unique", "observer-fraction", "observer-inferred-shape",
            "from_array/ensures-wf-"],
    "C15": ["shift_common/ensures-common-is-mode", "append/ensures-common-is-mode", "filtered/ensures-common-is-mode",
            "collapsed/ensures-common-is-mode", "eq-iff-same", "eq-ne-never-raises", "eq-ne-is-negation", "eq-symmetric", "eq-reflexive",
            "eq-false-against-non-index", "eq-append-result-equals"],
}


def replay(path):
    from ..rtc import replay as R

    return R.replay_iindex(path)
