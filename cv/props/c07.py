"""C07 - every operation preserves index well-formedness (bounded; same enumeration as C06)."""
from . import c06

LEVEL = "exploration"


def run(ctx):
    c06.run(ctx, "C07")


replay = c06.replay
