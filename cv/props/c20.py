"""C20 - an interrupt at any cancellation point stops the cube cleanly
(other: exceptional-flow obligations on the real ASTs [all inputs] + fault enumeration [bounded])."""
from .. import core, env
from ..frames import drive_interrupt, excflow
from ..rtc import runner

LEVEL = "other"
RULE = ("every cube layout in scope (1..12 sub-cubes), both cube types, serial and (>= 3 sub-cubes) pooled with the real ThreadPool: the callback raises at "
        "every invocation index (every non-empty subset of invocations for <= 4 sub-cubes in pooled mode); a case = one interrupted calculate() followed "
        "by an uninterrupted one on the same objects")


def run(ctx):
    if not excflow.probe():
        raise core.CheckerBroken("contextlib.closing probe failed (must close and propagate)")
    obl = []
    for mod, cls in (("ccubes", "ccube"), ("xcubes", "xcube")):
        try:
            obl += excflow.analyse(env.read_source(mod + ".py"), cls)
        except Exception as e:  # the structure the sidecar speaks about is gone: bounded part stands alone
            ctx.notes.append("exceptional-flow obligations could not be generated for %s: %r (proof_stale)" % (cls, e))
    mon, totals = runner.run_sharded(drive_interrupt.work, ctx.tier)
    static_fail = [(n, why) for n, ok, why in obl if not ok]
    runner.report(ctx, mon, totals, lambda ob: True, RULE, expect_clauses=[
        "interrupt-callback-once-per-subcube", "interrupt-raise-propagates", "interrupt-reuse-after-abort", "interrupt-stops-at-first-raise"])
    dyn = bool(ctx.violations)
    for n, why in static_fail:
        # a structural obligation that no longer holds is a violation only together with a failing run-time clause;
        # alone it means the code was restructured (proof stale), which the bounded part then covers by itself
        if dyn:
            ctx.violation(core.Violation("C20", n, "exceptional-flow obligation does not hold on the current source: %s" % why, input=None,
                                         cls={"site": n}, solver={"detail": why}, no_input=True))
        else:
            ctx.notes.append("proof_stale: %s no longer matches the source (%s); the fault enumeration found no failing input" % (n, why))
    ctx.coverage["explanation"] = (
        "All inputs: %d/%d exceptional-flow obligations hold on the ASTs of ccube.calculate and xcube.calculate (callback guarded and first in the task, "
        "called nowhere else, no try statement, only contextlib.closing as with-item, task invoked exactly once per sub-cube from the serial loop and from "
        "pool.map, result regions local to the call). Bounded: %d interrupted evaluations (raise at every invocation index; every subset in pooled mode with "
        "the real ThreadPool) each followed by a re-use check." % (len(obl) - len(static_fail), len(obl), totals["driver_calls"]))
    ctx.coverage["exceptional_flow_obligations"] = [{"obligation": n, "holds": ok, "detail": why} for n, ok, why in obl]
    ctx.assumptions += ["ThreadPool.map re-raises an exception raised by a task (after closing() closes the pool)",
                        "pooled mode: which of several raised exceptions propagates depends on the schedule, which is not explored"]


def replay(path):
    from .. import core as _core

    return _core.generic_replay(PROP if "PROP" in globals() else "C20", path, run, LEVEL)
