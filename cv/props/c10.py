"""C10 - INDX: engine A obligations on the real save/load ASTs (proved) + byte-level contracts against an
independent encoder/decoder over an enumerated scope (bounded).  See DESIGN §6 C10-C12."""
from ..kvc import indx_check
from ..rtc import drive_indx, runner

LEVEL = "proof"
PROP = "C10"
RULE = ("files: entries dicts of arity 1-4 with 0-3 entries, coordinate and common magnitudes independently in each word-size class, "
        "row-id arrays of length 0-3 with values up to 2**32-1; foreign files in all 16 (W, R) word-size pairs wide enough; stub arrays "
        "for totals crossing 2**30 / 2**32; sparse files of 4-16 GiB apparent size (first and last row of every entry written) loaded whole; every well-formed unsigned index of the state scope; every cut point of every file. "
        "A case is one file (or one cut); all are distinct by construction")
EXPECT = {
    "C10": ["roundtrip/common-equal", "roundtrip/keys-equal", "roundtrip/rowids-equal", "roundtrip/rebuilt-index-equal-and-valid"],
    "C11": ["save/bytes-equal-independent-encoder", "save/independent-decoder-recovers", "load/loads-independent-encoding",
            "save/size-field-equals-payload-for-large-totals"],
    "C12": ["load/torn-file-rejected"],
}


def run(ctx):
    stale = indx_check.run(ctx, PROP)
    mon, totals = runner.run_sharded(drive_indx.work, ctx.tier, extra=PROP)
    proved = dict(ctx.coverage)
    runner.report(ctx, mon, totals, lambda ob: drive_indx.property_of(ob) == PROP, RULE, expect_clauses=EXPECT[PROP])
    ctx.coverage["bounded_part"] = "byte-level clauses above are checked on the enumerated scope only (bounded, not proved)"
    if stale:
        ctx.notes.append("proof_stale: %r - the byte-level bounded check stands alone for those functions" % (stale,))
    ctx.assumptions += ["the byte-level half holds on the enumerated files only", "see coverage.trusted_base for the proved half"]


def replay(path):
    from .. import core as _core

    return _core.generic_replay(PROP if "PROP" in globals() else "C10", path, run, LEVEL)
