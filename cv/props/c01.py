"""C01 - array -> inverted index -> array is lossless (bounded; DESIGN §6 C01).

Contracts on the real `iindex.from_array` / `iindex.to_array` (cv/rtc/contracts_convert.py) judged on an
exhaustively enumerated scope (cv/rtc/drive_convert.py); the round trip is also stated directly.
Path-cover obligation: every feasible combination of from_array's scalar control skeleton
(counts given?, mapping given?, common present/absent/omitted, size == 0, < 5 distinct values,
where / row-scan strategy, 1-D / 2-D) must have been executed, else the check is broken (exit 3)."""
import json

from .. import core
from ..rtc import contracts_convert as CC
from ..rtc import drive_convert, runner

LEVEL = "exploration"
PROP = "C01"
RULE = ("every integer array in scope (all 1-D N<=3 over {-1,0,1,2}, all 2-D N<=2,C<=2 over {0,1,2}, N=0 included; dtype-boundary arrays; "
        "79..120-row filler+payload arrays on both sides of the where/row-scan switch) x common omitted / each present value / one absent "
        "value x counts omitted / exact x mapping omitted / every map into a 3-element target (injective and many-to-one; an evenly spaced "
        "subset plus fixed shift/rotation/fold maps when there are more than 4 keys) / permutations, "
        "each followed by to_array with dtype=int, default dtype and a value mapping; plus to_array on every well-formed index state in "
        "scope (built directly) x default / int / tightest dtype x every total mapping. A case is non-trivial when the array has at least "
        "one cell; distinct by construction (enumeration without repetition)")

EXPECT = ["from_array/no-raise", "from_array/ensures-view-equals-mapped-input", "from_array/ensures-shape-equals-input-shape",
          "from_array/ensures-common-as-requested", "from_array/ensures-returns-instance-of-cls", "from_array/ensures-wf-empty-entry",
          "from_array/ensures-wf-not-exclusive", "from_array/ensures-validate", "from_array/frame-values-unchanged",
          "from_array/frame-counts-unchanged", "from_array/frame-mapping-unchanged",
          "from_array/roundtrip-to_array(dtype=int)", "from_array/roundtrip-to_array(default-dtype)",
          "from_array/roundtrip-to_array(mapping,dtype=int)", "from_array/roundtrip-to_array(mapping,default-dtype)",
          "to_array/no-raise", "to_array/ensures-shape-equals-index-shape", "to_array/ensures-equals-view-as-python-ints",
          "to_array/ensures-dtype-as-requested", "to_array/frame-self-unchanged", "to_array/frame-mapping-unchanged"]


def belongs(ob):
    return CC.belongs_c01(ob)


def run(ctx):
    # proved part (engine A): to_array's fit_dtype call sites hold every value they write (fit_dtype by contract, C19)
    from ..kvc import callsite

    callsites = callsite.run(ctx, "C01", ["to_array"])
    mon, totals = runner.run_sharded(drive_convert.work, ctx.tier)
    path_cover = {k[len(drive_convert.PATH_PREFIX):]: int(n) for k, n in sorted(mon.calls.items()) if k.startswith(drive_convert.PATH_PREFIX)}
    counting = {k[len(drive_convert.COUNTING_PREFIX):]: int(n) for k, n in sorted(mon.calls.items()) if k.startswith(drive_convert.COUNTING_PREFIX)}
    feasible = CC.feasible_paths()
    missing = [k for k in feasible if not path_cover.get(k)]
    if missing:
        raise core.CheckerBroken("path cover: %d feasible from_array combination(s) never executed, e.g. %s" % (len(missing), "; ".join(missing[:4])))
    for k in ("given", "bincount", "unique"):
        if not counting.get(k):
            raise core.CheckerBroken("path cover: counting variant %r never executed" % k)
    if mon.calls.get(CC.QF, 0) == 0 or mon.calls.get(CC.QT, 0) == 0:
        raise core.CheckerBroken("contract wrapper on from_array / to_array was never entered")
    runner.report(ctx, mon, totals, belongs, RULE, expect_clauses=EXPECT, exhaustive=True,
                  extra_cov={"path_cover": {"feasible": len(feasible), "executed_feasible": len([k for k in feasible if path_cover.get(k)]),
                                            "combinations": path_cover, "counting": counting,
                                            "note": "strategy computed in the driver from the inputs with the code's arithmetic; "
                                                    "a combination counts as executed when the call was made inside `requires`"},
                             "wrapper_calls": {CC.QF: int(mon.calls[CC.QF]), CC.QT: int(mon.calls[CC.QT])}})
    ctx.assumptions += ["bounded: holds on the enumerated array/option scope only (engine C is the bounded stand-in, not a proof)",
                        "values >= 2^20 reach from_array only where numpy.bincount is bypassed (counts given or a negative value present): "
                        "bincount allocates 8*max bytes, a resource hazard the property does not speak about",
                        "ensures-common-is-mode on from_array is evaluated in the same run but belongs to C15"]
    ctx.coverage["proved_subobligations"] = callsites


def replay(path):
    """Re-run the recorded call (contract-level) or the recorded round trip (driver-level) against the current tree."""
    import numpy as np

    from .. import env
    from ..rtc.contract import MON
    from ..rtc.speclib import from_description

    rec = json.load(open(path))
    env.import_catii()
    M = CC.install()
    ob = rec["obligation"]
    inp = rec.get("input") or {}
    try:
        if "from_array" in inp:
            values, opts = drive_convert.undesc_call(inp["from_array"])
            drive_convert.roundtrip(values, opts)
        elif "values" in inp:
            values, opts = drive_convert.undesc_call(inp)
            M.iindex.from_array(values, **opts)
        elif "self" in inp:
            kw = {}
            if inp.get("mapping") is not None:
                kw["mapping"] = CC.unpairs(inp["mapping"])
            if inp.get("dtype") is not None:
                kw["dtype"] = np.dtype(inp["dtype"])
            from_description(inp["self"]).to_array(**kw)
        else:
            print("replay file has no input to re-run; re-run the check itself: ./check %s" % rec["property"])
            return core.EXIT_UNDECIDED
    except Exception as e:  # noqa  (already recorded by the no-raise clause)
        print("call raised %s: %s" % (type(e).__name__, e))
    for f in MON.failures:
        print("FAILED %s: %s" % (f.obligation, f.what))
    if MON.fail_counts.get(ob):
        print("VIOLATION property=%s replay=%s" % (rec["property"], path))
        return core.EXIT_VIOLATION
    if not MON.evals.get(ob):
        print("clause %s was not evaluated on the recorded input (outside its precondition on this tree?)" % ob)
        return core.EXIT_BROKEN
    print("clause %s holds on the recorded input" % ob)
    return core.EXIT_OK
