"""Shared plumbing: run context, violations, known findings, evidence, exit codes."""
import json
import os
import sys
import time
import traceback

VERIF = os.path.dirname(os.path.dirname(os.path.abspath(__file__)))
# (CV_EVIDENCE_DIR / CV_REPLAY_DIR: used only by tools/eval_seeded.py so that runs against seeded trees do not overwrite real evidence)
EVIDENCE_DIR = os.environ.get("CV_EVIDENCE_DIR") or os.path.join(VERIF, "evidence")
REPLAY_DIR = os.environ.get("CV_REPLAY_DIR") or os.path.join(VERIF, "replays")
FINDINGS_FILE = os.path.join(VERIF, "known_findings.json")

EXIT_OK, EXIT_VIOLATION, EXIT_UNDECIDED, EXIT_BROKEN = 0, 1, 2, 3


class CheckerBroken(Exception):
    """The checker itself cannot do its job (probe failed, zero obligations, ...): exit 3."""


class Undecided(Exception):
    """Solver instability on an unchanged obligation: exit 2."""


def jsonable(x):
    import numpy as np

    if isinstance(x, dict):
        return {str(k): jsonable(v) for k, v in x.items()}
    if isinstance(x, (list, tuple, set, frozenset)):
        return [jsonable(v) for v in x]
    if isinstance(x, np.ndarray):
        return {"dtype": str(x.dtype), "shape": list(x.shape), "data": jsonable(x.tolist())}
    if isinstance(x, np.generic):
        return jsonable(x.item())
    if isinstance(x, float):
        if x != x:
            return "NaN"
        if x in (float("inf"), float("-inf")):
            return str(x)
        return x
    if isinstance(x, (int, str, bool)) or x is None:
        return x
    if isinstance(x, bytes):
        return {"bytes_hex": x.hex()}
    return repr(x)


class Violation:
    def __init__(self, prop, obligation, what, input=None, cls=None, solver=None, no_input=False):
        self.prop = prop
        self.obligation = obligation  # stable name of the failed contract clause / VC
        self.what = what  # human text: required vs observed
        self.input = input  # JSON-able failing input (None if the solver gave none)
        self.cls = cls or {}  # classification attributes for known-finding matching
        self.solver = solver  # solver output when there is no input
        self.no_input = no_input


class Findings:
    """known_findings.json (committed, hand-edited only; never written at run time).

    entries: {"property", "id", "status": "open"|"fixed", "obligation": <exact name or prefix*>,
              "when": <python expr over the violation's cls dict, optional>, "what", "commit"?}
    Only status == "open" entries suppress; a "fixed" entry suppresses nothing."""

    def __init__(self):
        self.entries = []
        if os.path.exists(FINDINGS_FILE):
            with open(FINDINGS_FILE) as f:
                self.entries = json.load(f)["findings"]

    def match(self, v):
        for e in self.entries:
            if e.get("status") != "open" or e["property"] != v.prop:
                continue
            ob = e["obligation"]
            if ob.endswith("*"):
                if not v.obligation.startswith(ob[:-1]):
                    continue
            elif ob != v.obligation:
                continue
            when = e.get("when")
            if when:
                try:
                    if not eval(when, {"__builtins__": {}}, dict(v.cls)):
                        continue
                except Exception:
                    continue
            return e
        return None


class Ctx:
    """One run of one property's check."""

    def __init__(self, prop, tier, seed, level):
        self.prop = prop
        self.tier = tier
        self.seed = seed
        self.level = level
        self.t0 = time.time()
        self.findings = Findings()
        self.violations = []  # unlisted
        self.known = {}  # finding id -> (entry, count, first violation)
        self.coverage = {}
        self.assumptions = []
        self.notes = []
        self._replay_n = 0

    # ---- reporting
    def violation(self, v):
        e = self.findings.match(v)
        if e is not None:
            k = e["id"]
            if k in self.known:
                self.known[k][1] += 1
            else:
                self.known[k] = [e, 1, v]
            return
        # keep the first few per obligation; count the rest
        same = [w for w in self.violations if w.obligation == v.obligation]
        if len(same) < 3:
            self.violations.append(v)
        else:
            same[0].more = getattr(same[0], "more", 0) + 1

    def write_replay(self, v):
        os.makedirs(REPLAY_DIR, exist_ok=True)
        self._replay_n += 1
        safe = "".join(ch if ch.isalnum() or ch in "._-" else "_" for ch in v.obligation)[:80]
        path = os.path.join(REPLAY_DIR, "%s-%s-%d.json" % (self.prop, safe, self._replay_n))
        with open(path, "w") as f:
            json.dump(
                {
                    "property": self.prop,
                    "obligation": v.obligation,
                    "what": v.what,
                    "input": jsonable(v.input),
                    "class": jsonable(v.cls),
                    "solver_output": v.solver,
                    "no_failing_input_found": bool(v.no_input),
                    # when the input was found by the bounded run of the real code rather than by the solver: the clause it fails
                    "replay_obligation": getattr(v, "adopted_from", None),
                    "tier": self.tier,
                    "seed": self.seed,
                },
                f,
                indent=1,
            )
        return path

    def finish(self):
        """Print KNOWN-FINDING / VIOLATION lines, write evidence, return exit code."""
        for k, (e, n, v) in sorted(self.known.items()):
            print("KNOWN-FINDING: property=%s %s [%s; %d failing evaluations this run]"
                  % (self.prop, e["what"], e["id"], n))
        code = EXIT_OK
        # an undischarged obligation for which the solver gave no replayable input adopts the failing input that the
        # bounded run of the real code found in the same run (it is a failing input of the same property on the same tree)
        donors = [w for w in self.violations if not w.no_input and w.input is not None]
        for v in self.violations:
            if v.no_input and donors:
                d = donors[0]
                v.input = d.input
                v.adopted_from = d.obligation
                v.what += " | the bounded run of the real code fails %s on the recorded input: %s" % (d.obligation, d.what[:300])
                v.no_input = False
        for v in self.violations:
            path = self.write_replay(v)
            tail = " no-failing-input-found" if v.no_input else ""
            print("VIOLATION property=%s replay=%s%s" % (self.prop, path, tail))
            print("  obligation: %s\n  %s" % (v.obligation, v.what), file=sys.stderr)
            code = EXIT_VIOLATION
        if self.violations:
            byob = {}
            for v in self.violations:
                byob[v.obligation] = byob.get(v.obligation, 0) + 1
            print("  failing obligations: %s" % ", ".join(sorted(byob)), file=sys.stderr)
        self.write_evidence(len(self.violations))
        return code

    def write_evidence(self, nviol):
        os.makedirs(EVIDENCE_DIR, exist_ok=True)
        ev = {
            "property_id": self.prop,
            "tier": self.tier,
            "seed": int(self.seed),
            "level": self.level,
            "coverage": jsonable(self.coverage),
            "assumptions": list(self.assumptions),
            "wall_s": round(time.time() - self.t0, 3),
            "violations": int(nviol),
            "known_findings_reproduced": sorted(self.known),
            "notes": self.notes,
        }
        tmp = os.path.join(EVIDENCE_DIR, ".%s.json.tmp%d" % (self.prop, os.getpid()))
        with open(tmp, "w") as f:
            json.dump(ev, f, indent=1)
        os.replace(tmp, os.path.join(EVIDENCE_DIR, "%s.json" % self.prop))


def run_check(prop, tier, seed, runner, level):
    ctx = Ctx(prop, tier, seed, level)
    try:
        runner(ctx)
        return ctx.finish()
    except Undecided as e:
        print("UNDECIDED property=%s: %s" % (prop, e), file=sys.stderr)
        return EXIT_UNDECIDED
    except CheckerBroken as e:
        print("CHECKER-BROKEN property=%s: %s" % (prop, e), file=sys.stderr)
        return EXIT_BROKEN
    except Exception:
        traceback.print_exc()
        print("CHECKER-BROKEN property=%s: unexpected exception (above)" % prop, file=sys.stderr)
        return EXIT_BROKEN


def generic_replay(prop, path, runner, level):
    """Fallback `--replay`: the recorded obligation is re-decided by re-running the property's quick check on the current
    tree (checks whose failing inputs are whole driver cases have no cheaper single-call replay). Exit 1 iff the same
    obligation fails again."""
    rec = json.load(open(path))
    ob = rec.get("obligation")
    print("replay of %s: re-running ./check %s and looking for obligation %s" % (os.path.basename(path), prop, ob))
    print("recorded input: %s" % json.dumps(rec.get("input"))[:600])
    ctx = Ctx(prop, "quick", 0, level)
    saved = (globals()["EVIDENCE_DIR"], globals()["REPLAY_DIR"])
    import tempfile

    tmp = tempfile.mkdtemp(prefix="cvreplay-")
    globals()["EVIDENCE_DIR"], globals()["REPLAY_DIR"] = tmp, tmp
    try:
        runner(ctx)
    finally:
        globals()["EVIDENCE_DIR"], globals()["REPLAY_DIR"] = saved
        import shutil

        shutil.rmtree(tmp, ignore_errors=True)
    again = [v for v in ctx.violations if v.obligation == ob]
    if again:
        print("the obligation fails again: %s" % again[0].what[:400])
        print("VIOLATION property=%s replay=%s" % (prop, path))
        return EXIT_VIOLATION
    print("the obligation holds on the current tree (%d other violation(s))" % len(ctx.violations))
    return EXIT_OK
