"""./check <ID> [--tier quick|thorough] [--replay PATH]"""
import argparse
import importlib
import os
import sys

from . import core

PROPS = ["C%02d" % i for i in range(1, 21)]


def main(argv=None):
    import warnings

    warnings.simplefilter("ignore")  # the library under test emits NumPy RuntimeWarnings by design (0/0 cells)
    os.environ.setdefault("PYTHONWARNINGS", "ignore")
    ap = argparse.ArgumentParser(prog="check")
    ap.add_argument("prop")
    ap.add_argument("--tier", default=os.environ.get("VERIF_TIER", "quick"), choices=["quick", "thorough"])
    ap.add_argument("--replay", default=None)
    ap.add_argument("--seed", type=int, default=int(os.environ.get("VERIF_SEED", "0") or 0))
    a = ap.parse_args(argv)
    if a.prop == "selftest":
        from . import selftest

        return selftest.main(a.tier)
    os.environ["VERIF_TIER"] = a.tier
    pid = a.prop.upper()
    if pid not in PROPS:
        print("unknown property %r" % a.prop, file=sys.stderr)
        return core.EXIT_BROKEN
    try:
        mod = importlib.import_module("cv.props.%s" % pid.lower())
    except ImportError as e:
        print("CHECKER-BROKEN: no check module for %s (%s)" % (pid, e), file=sys.stderr)
        return core.EXIT_BROKEN
    if a.replay:
        import json
        import tempfile

        rec = json.load(open(a.replay))
        if rec.get("replay_obligation"):
            # the recorded input fails a run-time clause of the same property on the real code: replay judges that clause
            print("recorded for %s; the input was found by the bounded run and fails %s" % (rec["obligation"], rec["replay_obligation"]))
            rec["obligation"] = rec["replay_obligation"]
            with tempfile.NamedTemporaryFile("w", suffix=".json", delete=False, dir=os.path.dirname(os.path.abspath(a.replay))) as f:
                json.dump(rec, f)
            try:
                return mod.replay(f.name)
            finally:
                os.unlink(f.name)
        return mod.replay(a.replay)
    return core.run_check(pid, a.tier, a.seed, mod.run, mod.LEVEL)


if __name__ == "__main__":
    sys.exit(main())
