"""C20 driver: a callback raising at every invocation index (every subset in pooled mode)."""
import itertools

import numpy as np

from ..rtc.contract import MON
from ..rtc.speclib import mk
from . import cases


class Boom(Exception):
    pass


def work(args):
    tier, shard, nshards = args[:3]
    from .. import env

    env.import_catii()
    from catii import ccube, xcube

    calls = nontriv = 0
    samples = []
    j = 0
    for dims, ext in cases.cube_cases(tier):
        j += 1
        if j % nshards != shard:
            continue
        N = dims[0].shape[0]
        nsub = int(np.prod([int(np.prod(d.shape[1:])) for d in dims]))
        for kind in ("ccube", "xcube"):
            facs, F = (cases.ffunc_factories(N) if kind == "ccube" else cases.xfunc_factories(N))
            names = sorted(facs)
            grp = [names[0], names[len(names) // 2], names[-1]]
            q = "%ss.%s.calculate" % (kind, kind)
            ex0 = {"cube": kind, "dims": [d.tolist() for d in dims], "interacting_shape": list(ext), "aggregates": grp, "subcubes": nsub}

            def build():
                if kind == "ccube":
                    return ccube([mk(d, 0) for d in dims], ext)
                return xcube([d.copy() for d in dims], ext)

            fresh = build().calculate([facs[n]() for n in grp])
            for pooled in (False, True):
                if pooled and nsub < 3:
                    continue
                cls = {"cube": kind, "pooled": pooled}
                # ---- not raising: consulted exactly once per sub-cube, calculate returns
                c = build()
                c.parallel = pooled
                count = [0]

                def cb():
                    count[0] += 1

                c.check_interrupt = cb
                objs = [facs[n]() for n in grp]
                try:
                    r = c.calculate(objs)
                    MON.check(q + "/interrupt-callback-once-per-subcube", count[0] == nsub, lambda: "%d invocations for %d sub-cubes" % (count[0], nsub), ex0, cls)
                    MON.check(q + "/interrupt-quiet-callback-returns-result", cases.same_result(r, fresh), "result with a quiet callback differs", ex0, cls)
                except Exception as e:  # noqa
                    MON.check(q + "/interrupt-quiet-callback-returns-result", "raised %s: %s" % (type(e).__name__, e), None, ex0, cls)
                # ---- raising at invocation i (serial) / at every subset of invocations (pooled, <= 4 sub-cubes)
                if pooled and nsub <= 4:
                    subsets = [s for r_ in range(1, nsub + 1) for s in itertools.combinations(range(nsub), r_)]
                else:
                    subsets = [(i,) for i in range(nsub)]
                for sub in subsets:
                    ex = dict(ex0, pooled=pooled, raise_at=list(sub))
                    c = build()
                    c.parallel = pooled
                    seen = [0]
                    raised = []
                    import threading

                    lock = threading.Lock()

                    def cb2():
                        with lock:
                            i = seen[0]
                            seen[0] += 1
                        if i in sub:
                            e = Boom(i)
                            raised.append(e)
                            raise e

                    c.check_interrupt = cb2
                    objs = [facs[n]() for n in grp]
                    try:
                        c.calculate(objs)
                        MON.check(q + "/interrupt-raise-propagates", "calculate returned although the callback raised at invocation(s) %r" % (sub,), None, ex, cls)
                    except Boom as e:
                        MON.check(q + "/interrupt-raise-propagates", any(e is x for x in raised), "a different exception object propagated", ex, cls)
                    except Exception as e:  # noqa
                        MON.check(q + "/interrupt-raise-propagates", "calculate raised %s instead of the callback's exception" % type(e).__name__, None, ex, cls)
                    if not pooled:
                        MON.check(q + "/interrupt-stops-at-first-raise", seen[0] == min(sub) + 1, lambda: "callback consulted %d times after raising at %d" % (seen[0], min(sub)), ex, cls)
                    # ---- afterwards the same cube and function objects give correct results
                    c.check_interrupt = None
                    try:
                        again = c.calculate(objs)
                        MON.check(q + "/interrupt-reuse-after-abort-equals-fresh", cases.same_result(again, fresh), "re-use after an interrupted evaluation differs from a fresh one", ex, cls)
                    except Exception as e:  # noqa
                        MON.check(q + "/interrupt-reuse-after-abort-equals-fresh", "raised %s: %s" % (type(e).__name__, e), None, ex, cls)
                    calls += 1
                    nontriv += 1
            if len(samples) < 2:
                samples.append(ex0)
    out = MON.dump()
    out.update(driver_calls=calls, nontrivial=nontriv, samples=samples, jobs=j)
    return out
