"""Exceptional-flow obligations for calculate()/fill_one_cube (C20), decided on the real ASTs.

  <cls>.calculate.fill_one_cube/interrupt-first       the first statement of the task is the guarded
                                                       `if self.check_interrupt is not None: self.check_interrupt()`
  <cls>.calculate/callback-only-in-task               check_interrupt is called nowhere else in calculate
  <cls>.calculate/exc-propagates-no-handler           no try statement encloses the callback call or any call
                                                       of the task with a handler (none exists in calculate)
  <cls>.calculate/exc-propagates-with-items           every `with` item on the path is contextlib.closing(...)
                                                       (its __exit__ returns None, so exceptions propagate - probed)
  <cls>.calculate/task-once-per-subcube               the task is invoked from exactly two sites: the serial
                                                       `for x in <product>: fill_one_cube(x)` and `pool.map(fill_one_cube, <product>)`
  <cls>.calculate/regions-local-to-call               the result regions are a local of calculate (never stored on self)
"""
import ast
import contextlib


def probe():
    class R:
        closed = False

        def close(self):
            self.closed = True

    r = R()
    try:
        with contextlib.closing(r):
            raise KeyError("x")
    except KeyError:
        return r.closed
    return False


def analyse(mod_src, cls_name):
    tree = ast.parse(mod_src)
    cls = [n for n in tree.body if isinstance(n, ast.ClassDef) and n.name == cls_name][0]
    calc = [n for n in cls.body if isinstance(n, ast.FunctionDef) and n.name == "calculate"][0]
    fills = [n for n in ast.walk(calc) if isinstance(n, ast.FunctionDef) and n.name == "fill_one_cube"]
    q = "%ss.%s.calculate" % (cls_name, cls_name)
    out = []
    if len(fills) != 1:
        return [(q + "/task-function-present", False, "fill_one_cube not found exactly once")]
    fill = fills[0]
    first = fill.body[0]
    ok1 = (isinstance(first, ast.If) and ast.unparse(first.test) == "self.check_interrupt is not None" and len(first.body) == 1
           and ast.unparse(first.body[0]) == "self.check_interrupt()" and not first.orelse)
    out.append((q + ".fill_one_cube/interrupt-first", ok1, ast.unparse(first)[:80]))
    cb_calls = [n for n in ast.walk(calc) if isinstance(n, ast.Call) and ast.unparse(n.func) == "self.check_interrupt"]
    inside = [n for n in ast.walk(first) if isinstance(n, ast.Call) and ast.unparse(n.func) == "self.check_interrupt"]
    out.append((q + "/callback-only-in-task", len(cb_calls) == 1 and len(inside) == 1, "%d call sites" % len(cb_calls)))
    trys = [n for n in ast.walk(calc) if isinstance(n, ast.Try)]
    out.append((q + "/exc-propagates-no-handler", not trys, "%d try statements in calculate" % len(trys)))
    withs = [ast.unparse(i.context_expr) for n in ast.walk(calc) if isinstance(n, ast.With) for i in n.items]
    out.append((q + "/exc-propagates-with-items", all(w.startswith("closing(") for w in withs), "with items: %r" % withs))
    direct, mapped, other = [], [], []
    for n in ast.walk(calc):
        if isinstance(n, ast.Call):
            f = ast.unparse(n.func)
            if f == "fill_one_cube":
                direct.append(n)
            elif f.endswith(".map") and n.args and ast.unparse(n.args[0]) == "fill_one_cube":
                mapped.append(n)
            elif any(isinstance(a, ast.Name) and a.id == "fill_one_cube" for a in ast.walk(n) if a is not n.func) and f != "fill_one_cube":
                other.append(n)
    loops = [n for n in ast.walk(calc) if isinstance(n, ast.For) and any(d in ast.walk(n) for d in direct)]
    prod = lambda t: t in ("self.product()", "self.product")  # noqa
    ok5 = (len(direct) == 1 and len(mapped) == 1 and not other and len(loops) == 1 and prod(ast.unparse(loops[0].iter))
           and len(mapped[0].args) == 2 and prod(ast.unparse(mapped[0].args[1]))
           and len(direct[0].args) == 1 and ast.unparse(direct[0].args[0]) == ast.unparse(loops[0].target)
           and len(loops[0].body) == 1)
    out.append((q + "/task-once-per-subcube", ok5, "direct %r, mapped %r, loops over %r" % (
        [ast.unparse(d) for d in direct], [ast.unparse(m) for m in mapped], [ast.unparse(l.iter) for l in loops])))
    stores_self = [ast.unparse(n) for n in ast.walk(calc) if isinstance(n, ast.Assign) for t in n.targets
                   if isinstance(t, ast.Attribute) and ast.unparse(t).startswith("self.") and "results" in ast.unparse(n.value)]
    res_assign = [n for n in calc.body if isinstance(n, ast.Assign) and ast.unparse(n.targets[0]) == "results"]
    out.append((q + "/regions-local-to-call", len(res_assign) == 1 and not stores_self and "get_initial_regions" in ast.unparse(res_assign[0].value),
                "results = %s" % (ast.unparse(res_assign[0].value)[:70] if res_assign else "?")))
    return out
