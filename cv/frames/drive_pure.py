"""C17 driver (run-time frame contract + relational purity clauses), bounded in inputs."""
import itertools

import numpy as np

from ..rtc.contract import MON
from ..rtc.speclib import mk
from . import cases


def work(args):
    tier, shard, nshards = args[:3]
    from .. import env

    env.import_catii()
    from catii import ccube, xcube

    calls = nontriv = 0
    samples = []
    j = 0
    for dims, ext in cases.cube_cases(tier):
        j += 1
        if j % nshards != shard:
            continue
        N = dims[0].shape[0]
        for kind in ("ccube", "xcube"):
            facs, F = (cases.ffunc_factories(N) if kind == "ccube" else cases.xfunc_factories(N))
            names = sorted(facs)
            q = "%ss.%s.calculate" % (kind, kind)

            def build(other=False):
                ds = [d.copy() for d in dims]
                if other:  # another cube: rows reversed
                    ds = [d[::-1].copy() for d in dims]
                if kind == "ccube":
                    idx = [mk(d, 0) for d in ds]
                    return ccube(idx, ext), idx
                return xcube(ds, ext), ds

            ex0 = {"cube": kind, "dims": [d.tolist() for d in dims], "interacting_shape": list(ext)}
            # ---- construction leaves the dimensions untouched
            c, held = build()
            MON.check("%ss.%s.__init__/frame-dims-unchanged" % (kind, kind),
                      all(cases.snapshot(a) == cases.snapshot(b) for a, b in zip(held, build()[1])), "cube construction changed a dimension", ex0, {"cube": kind})
            for n in names:
                ex = dict(ex0, aggregate=n)
                cls = {"cube": kind, "aggregate": n}
                try:
                    c, held = build()
                    snap_dims = [cases.snapshot(h) for h in held]
                    snap_args = cases.snapshot(F)
                    f = facs[n]()
                    snap_f = _fstate(f)
                    r1 = c.calculate([f])[0]
                    MON.check(q + "/frame-arguments-unchanged", cases.snapshot(F) == snap_args, "a fact / weight argument (incl. values under a False validity) changed", ex, cls)
                    MON.check(q + "/frame-dimensions-unchanged", [cases.snapshot(h) for h in held] == snap_dims, "a dimension changed", ex, cls)
                    r2 = c.calculate([f])[0]
                    MON.check(q + "/pure-second-call-equals-first", cases.same_result(r1, r2), lambda: "second call %r, first %r" % (r2, r1), ex, cls)
                    MON.check(q + "/pure-function-object-state-unchanged", _fstate(f) == snap_f, "the aggregate-function object's arrays changed across calculate", ex, cls)
                    # re-use of the same function object on another cube equals a fresh object there
                    c2, _ = build(other=False)
                    fresh_same = c2.calculate([facs[n]()])[0]
                    MON.check(q + "/pure-result-equals-fresh-object-fresh-cube", cases.same_result(r1, fresh_same), "result differs from a fresh object on a fresh cube", ex, cls)
                    calls += 1
                    nontriv += 1
                except Exception as e:  # noqa
                    MON.check(q + "/no-raise", "raised %s: %s" % (type(e).__name__, e), None, ex, cls)
            # ---- several aggregates in one pass, any order, equal each one alone; re-use on another cube
            triples = cases.spread(list(itertools.combinations(names, 3)), 6 if tier != "thorough" else 30)
            for tr in triples:
                try:
                    alone = {}
                    for n in tr:
                        c, _ = build()
                        alone[n] = c.calculate([facs[n]()])[0]
                    for perm in itertools.permutations(tr):
                        c, _ = build()
                        objs = [facs[n]() for n in perm]
                        res = c.calculate(objs)
                        okp = all(cases.same_result(res[i], alone[n]) for i, n in enumerate(perm))
                        MON.check(q + "/pure-multi-aggregate-equals-each-alone", okp, lambda: "order %r differs from the single evaluations" % (perm,),
                                  dict(ex0, aggregates=list(perm)), {"cube": kind, "aggregates": ",".join(sorted(tr))})
                        # the same objects on another cube (rows reversed) equal fresh objects there
                        c3, _ = build(other=True)
                        reused = c3.calculate(objs)
                        c4, _ = build(other=True)
                        freshr = c4.calculate([facs[n]() for n in perm])
                        MON.check(q + "/pure-reused-objects-on-another-cube-equal-fresh", cases.same_result(reused, freshr), "re-used function objects carry state from the previous cube",
                                  dict(ex0, aggregates=list(perm)), {"cube": kind, "aggregates": ",".join(sorted(tr))})
                        calls += 1
                except Exception as e:  # noqa
                    MON.check(q + "/no-raise", "raised %s: %s" % (type(e).__name__, e), None, dict(ex0, aggregates=list(tr)), {"cube": kind})
            if len(samples) < 2:
                samples.append(ex0)
    out = MON.dump()
    out.update(driver_calls=calls, nontrivial=nontriv, samples=samples, jobs=j)
    return out


def _fstate(f):
    out = {}
    for k, v in vars(f).items():
        if k in ("tracing",):
            continue
        out[k] = cases.snapshot(v) if isinstance(v, (np.ndarray, tuple, list)) else repr(v)[:60]
    return out
