"""Engine B, run-time half: the frame monitor as a *substituted pool* (DESIGN §3.2).

`xcube.pool_class` is an attribute and `ccubes.multiprocessing.pool.ThreadPool` is looked up at call
time, so the pool is substituted in the scratch import - no repository hook.  The pool receives the
REAL `fill_one_cube` closure; its closure cells give `results` (the shared regions).  For every task
i the real closure is run three times from saved region contents - base, poisoned everywhere,
poisoned outside block i - and every cell of every region is classified:

  O1  cells outside region[coords_i] are untouched;
  O2  the coords_i of distinct tasks are distinct full-length integer tuples (=> blocks pairwise disjoint);
  O3  block i after the task is the same whether or not the other blocks were poisoned;
  O4  no attribute of the cube or of any function object changes across a task except the whitelisted
      diagnostics;
  O5  (checked by the driver on the recorded coordinates) over all map calls of one calculate() the pool is
      handed every sub-cube of the scaffold exactly once.
Finally all tasks are run once, in REVERSE order, from the base contents, so that calculate()
returns a result that must equal the serial one bit for bit.
"""
import numpy as np

DIAG = {"intersection_data_points", "_tracing", "tracing"}


def poison(a):
    if a.dtype == bool:
        return ~a
    if a.dtype.kind == "f":
        b = a.copy()
        b[np.isnan(b)] = 0
        return b + 12345.5
    if a.dtype.kind in "iu":
        return a + 1000003
    if a.dtype.kind == "M":
        return a + np.timedelta64(7, "D")
    raise TypeError(a.dtype)


def same(x, y):
    if x.dtype.kind == "f":
        return (x == y) | (np.isnan(x) & np.isnan(y))
    if x.dtype.kind in "mM":
        return (x == y) | (np.isnat(x) & np.isnat(y))
    return x == y


def attr_state(obj):
    out = {}
    for k, v in vars(obj).items():
        if k in DIAG:
            continue
        if isinstance(v, np.ndarray):
            out[k] = ("nd", v.tobytes(), str(v.dtype), v.shape)
        elif isinstance(v, (list, tuple)) and all(isinstance(x, np.ndarray) for x in v):
            out[k] = ("nds", [(x.tobytes(), x.shape) for x in v])
        else:
            out[k] = ("id", id(v), repr(v)[:80])
    return out


class FramePool:
    """Stands in for ThreadPool(poolsize): same interface (map, close)."""

    log = []

    def __init__(self, n=None):
        self.n = n

    def close(self):
        pass

    def terminate(self):
        pass

    def join(self):
        pass

    @staticmethod
    def coords_of(item):
        if len(item) and isinstance(item[0], dict):
            return tuple(e for d in item for e in d["coords"])
        return tuple(e for c in item if c is not None for e in c)

    @classmethod
    def blocks_of(cls, item):
        """Coordinate tuples of the sub-cube(s) an item handed to the pool stands for: one sub-cube descriptor (a tuple of
        {"coords", "data"} dicts / a tuple of None-or-coordinate-tuples) or a list of them (a batch); None when the item is neither."""
        def is_desc(x):
            if not isinstance(x, tuple):
                return False
            if all(isinstance(d, dict) and "coords" in d for d in x):
                return True
            return all(c is None or (isinstance(c, tuple) and all(isinstance(e, (int, np.integer)) for e in c)) for c in x)
        try:
            if is_desc(item):
                return [cls.coords_of(item)]
            if isinstance(item, (list, tuple)) and len(item) and all(is_desc(x) for x in item):
                return [cls.coords_of(x) for x in item]
        except Exception:  # noqa
            pass
        return None

    @staticmethod
    def task_context(fn):
        """What the task function can reach: closure cells, functools.partial arguments, a bound self - identified by
        structure, not by name (the task function is private: a closure today, a bound method or a partial tomorrow)."""
        import functools

        vals = []
        f = fn
        while isinstance(f, functools.partial):
            vals += list(f.args) + list(f.keywords.values())
            f = f.func
        if getattr(f, "__self__", None) is not None:
            vals.append(f.__self__)
        def from_closure(g, depth):
            for c in getattr(g, "__closure__", None) or ():
                try:
                    v = c.cell_contents
                except ValueError:
                    continue
                vals.append(v)
                if depth < 3 and callable(v) and getattr(v, "__closure__", None):
                    from_closure(v, depth + 1)  # a task function that calls another closure (e.g. a batch runner)

        from_closure(f, 0)
        is_regs = lambda v: isinstance(v, (list, tuple)) and len(v) > 0 and all(  # noqa
            isinstance(r, (list, tuple)) and len(r) > 0 and all(isinstance(a, np.ndarray) for a in r) for r in v)
        is_funcs = lambda v: isinstance(v, (list, tuple)) and len(v) > 0 and all(hasattr(x, "get_initial_regions") for x in v)  # noqa
        is_cube = lambda v: hasattr(v, "calculate") and hasattr(v, "dims")  # noqa
        out = {"arrays": [("closure/argument array #%d" % i, v) for i, v in enumerate(vals) if isinstance(v, np.ndarray) and v.size]}
        for v in vals:
            if "results" not in out and is_regs(v):
                out["results"] = v
            elif "funcs" not in out and is_funcs(v):
                out["funcs"] = v
            elif "self" not in out and is_cube(v):
                out["self"] = v
        return out

    def map(self, fn, it, chunksize=None):
        items = list(it)
        if chunksize is not None and chunksize <= 0:
            # multiprocessing.pool.Pool.map with a chunk size below 1 forms no task batch at all and returns the unfilled result list (probed
            # against ThreadPool in poolmon.probe): nothing is handed to the workers
            FramePool.log.append({"tasks": 0, "violations": [], "regions": 0, "coords": [], "stale": None, "chunksize": chunksize})
            return [None] * len(items)
        cells = self.task_context(fn)
        blocks = [self.blocks_of(x) for x in items]
        known = all(b is not None for b in blocks)
        rec = {"tasks": len(items), "violations": [], "regions": 0, "coords": [co for b in blocks for co in b] if known else None, "stale": None}
        FramePool.log.append(rec)
        if "results" not in cells:
            # the monitor cannot find the shared regions: it does not bind (stale); tasks still run in reverse order
            rec["stale"] = "the task function reaches no list of region lists (closure cells, partial arguments, bound self)"
            for item in reversed(items):
                fn(item)
            return
        regions = [r for regs in cells["results"] for r in regs]
        rec["regions"] = len(regions)
        owners = [cells.get("self")] + list(cells.get("funcs", []))
        shared = [(n, a) for n, a in cells.get("arrays", []) if not any(a is r or np.shares_memory(a, r) for r in regions)]
        base = [r.copy() for r in regions]
        pois = [poison(b) for b in base]
        if known:
            coords = [co for b in blocks for co in b]
            nd_scaffold = len(coords[0]) if coords else 0
            if len(set(coords)) != len(coords) or any(len(c) != nd_scaffold or any(not isinstance(e, (int, np.integer)) for e in c) for c in coords):
                rec["violations"].append(("O2", None, "task block coordinates are not distinct full-length integer tuples: %r" % (coords,)))

        def setall(src):
            for r, s in zip(regions, src):
                r[...] = s

        written_by = [np.zeros(b.shape, dtype=np.int32) for b in base]  # how many tasks write each cell
        for item, blk in zip(items, blocks):
            before_attrs = [attr_state(o) for o in owners if o is not None]
            before_shared = [a.copy() for _, a in shared]
            setall(base)
            fn(item)
            oa = [r.copy() for r in regions]
            setall(pois)
            fn(item)
            ob = [r.copy() for r in regions]
            # the cells this task writes: seen against at least one of two backgrounds that differ everywhere
            wrote = [~(same(a_, b_) & same(o_, p_)) for a_, b_, o_, p_ in zip(oa, base, ob, pois)]
            if blk is not None:
                own = []
                for b_ in base:
                    m = np.zeros(b_.shape, bool)
                    for co in blk:
                        m[co] = True
                    own.append(m)
                for k, (w, m) in enumerate(zip(wrote, own)):
                    if (w & ~m).any():
                        rec["violations"].append(("O1", blk, "region %d: a cell outside the block(s) %r of the task was written" % (k, blk)))
            else:
                own = wrote  # tasks that are not recognisable sub-cube descriptors: their frame is what they are observed to write
            for k, m in enumerate(own):
                written_by[k] += (wrote[k] | m) if blk is not None else wrote[k]
            # own cells must not depend on the content of the other cells
            setall(pois)
            for r, b_, m in zip(regions, base, own):
                r[m] = b_[m]
            fn(item)
            oc = [r.copy() for r in regions]
            for k, m in enumerate(own):
                if not same(oa[k][m], oc[k][m]).all():
                    rec["violations"].append(("O3", blk, "region %d: the cells the task writes depend on the content of other cells" % k))
            after_attrs = [attr_state(o) for o in owners if o is not None]
            if before_attrs != after_attrs:
                changed = [k for b, a in zip(before_attrs, after_attrs) for k in set(b) | set(a) if b.get(k) != a.get(k)]
                rec["violations"].append(("O4", blk, "attributes changed across a task: %r" % sorted(set(changed))))
            for (n, a), b4 in zip(shared, before_shared):
                if a.shape != b4.shape or not same(a, b4).all():
                    rec["violations"].append(("O4", blk, "an array shared by all tasks through the task function (%s, shape %r) is written by the task" % (n, a.shape)))
        if True:
            for k, cnt in enumerate(written_by):
                if (cnt > 1).any():
                    rec["violations"].append(("O2", None, "region %d: %d cell(s) are written by more than one task" % (k, int((cnt > 1).sum()))))
        setall(base)
        for item in reversed(items):
            fn(item)


def probe():
    """The library behaviour FramePool.map mirrors for chunksize <= 0."""
    from multiprocessing.pool import ThreadPool

    seen = []
    with ThreadPool(2) as p:
        r = p.map(seen.append, [1, 2, 3], chunksize=0)
    return r == [None, None, None] and seen == []


def install():
    """Substitute the pool in the scratch-imported package."""
    import catii.ccubes as cc
    import catii.xcubes as xc

    class _Pool:  # ccubes looks up multiprocessing.pool.ThreadPool at call time
        ThreadPool = FramePool

    class _MP:
        pool = _Pool

    cc.multiprocessing = _MP
    xc.xcube.pool_class = FramePool
