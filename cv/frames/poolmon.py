"""Engine B, run-time half: the frame monitor as a *substituted pool* (DESIGN §3.2).

`xcube.pool_class` is an attribute and `ccubes.multiprocessing.pool.ThreadPool` is looked up at call
time, so the pool is substituted in the scratch import - no repository hook.  The pool receives the
REAL `fill_one_cube` closure; its closure cells give `results` (the shared regions).  For every task
i the real closure is run three times from saved region contents - base, poisoned everywhere,
poisoned outside block i - and every cell of every region is classified:

  O1  cells outside region[coords_i] are untouched;
  O2  the coords_i of distinct tasks are distinct full-length integer tuples (=> blocks pairwise disjoint);
  O3  block i after the task is the same whether or not the other blocks were poisoned;
  O4  no attribute of the cube or of any function object changes across a task except the whitelisted
      diagnostics;
  O5  (checked by the driver on the recorded coordinates) over all map calls of one calculate() the pool is
      handed every sub-cube of the scaffold exactly once.
Finally all tasks are run once, in REVERSE order, from the base contents, so that calculate()
returns a result that must equal the serial one bit for bit.
"""
import numpy as np

DIAG = {"intersection_data_points", "_tracing", "tracing"}


def poison(a):
    if a.dtype == bool:
        return ~a
    if a.dtype.kind == "f":
        b = a.copy()
        b[np.isnan(b)] = 0
        return b + 12345.5
    if a.dtype.kind in "iu":
        return a + 1000003
    if a.dtype.kind == "M":
        return a + np.timedelta64(7, "D")
    raise TypeError(a.dtype)


def same(x, y):
    if x.dtype.kind == "f":
        return (x == y) | (np.isnan(x) & np.isnan(y))
    if x.dtype.kind in "mM":
        return (x == y) | (np.isnat(x) & np.isnat(y))
    return x == y


def attr_state(obj):
    out = {}
    for k, v in vars(obj).items():
        if k in DIAG:
            continue
        if isinstance(v, np.ndarray):
            out[k] = ("nd", v.tobytes(), str(v.dtype), v.shape)
        elif isinstance(v, (list, tuple)) and all(isinstance(x, np.ndarray) for x in v):
            out[k] = ("nds", [(x.tobytes(), x.shape) for x in v])
        else:
            out[k] = ("id", id(v), repr(v)[:80])
    return out


class FramePool:
    """Stands in for ThreadPool(poolsize): same interface (map, close)."""

    log = []

    def __init__(self, n=None):
        self.n = n

    def close(self):
        pass

    def terminate(self):
        pass

    def join(self):
        pass

    @staticmethod
    def coords_of(item):
        if len(item) and isinstance(item[0], dict):
            return tuple(e for d in item for e in d["coords"])
        return tuple(e for c in item if c is not None for e in c)

    @staticmethod
    def task_context(fn):
        """What the task function can reach: closure cells, functools.partial arguments, a bound self - identified by
        structure, not by name (the task function is private: a closure today, a bound method or a partial tomorrow)."""
        import functools

        vals = []
        f = fn
        while isinstance(f, functools.partial):
            vals += list(f.args) + list(f.keywords.values())
            f = f.func
        if getattr(f, "__self__", None) is not None:
            vals.append(f.__self__)
        if getattr(f, "__closure__", None):
            for c in f.__closure__:
                try:
                    vals.append(c.cell_contents)
                except ValueError:
                    pass
        is_regs = lambda v: isinstance(v, (list, tuple)) and len(v) > 0 and all(  # noqa
            isinstance(r, (list, tuple)) and len(r) > 0 and all(isinstance(a, np.ndarray) for a in r) for r in v)
        is_funcs = lambda v: isinstance(v, (list, tuple)) and len(v) > 0 and all(hasattr(x, "get_initial_regions") for x in v)  # noqa
        is_cube = lambda v: hasattr(v, "calculate") and hasattr(v, "dims")  # noqa
        out = {}
        for v in vals:
            if "results" not in out and is_regs(v):
                out["results"] = v
            elif "funcs" not in out and is_funcs(v):
                out["funcs"] = v
            elif "self" not in out and is_cube(v):
                out["self"] = v
        return out

    def map(self, fn, it, chunksize=None):
        items = list(it)
        if chunksize is not None and chunksize <= 0:
            # multiprocessing.pool.Pool.map with a chunk size below 1 forms no task batch at all and returns the unfilled result list (probed
            # against ThreadPool in poolmon.probe): nothing is handed to the workers
            FramePool.log.append({"tasks": 0, "violations": [], "regions": 0, "coords": [], "stale": None, "chunksize": chunksize})
            return [None] * len(items)
        cells = self.task_context(fn)
        rec = {"tasks": len(items), "violations": [], "regions": 0, "coords": [self.coords_of(x) for x in items], "stale": None}
        FramePool.log.append(rec)
        if "results" not in cells:
            # the monitor cannot find the shared regions: it does not bind (stale); tasks still run in reverse order
            rec["stale"] = "the task function reaches no list of region lists (closure cells, partial arguments, bound self)"
            for item in reversed(items):
                fn(item)
            return
        regions = [r for regs in cells["results"] for r in regs]
        rec["regions"] = len(regions)
        owners = [cells.get("self")] + list(cells.get("funcs", []))
        base = [r.copy() for r in regions]
        pois = [poison(b) for b in base]
        coords = [self.coords_of(x) for x in items]
        nd_scaffold = len(coords[0]) if coords else 0
        if len(set(coords)) != len(coords) or any(len(c) != nd_scaffold or any(not isinstance(e, (int, np.integer)) for e in c) for c in coords):
            rec["violations"].append(("O2", None, "task block coordinates are not distinct full-length integer tuples: %r" % (coords,)))

        def setall(src):
            for r, s in zip(regions, src):
                r[...] = s

        for item, co in zip(items, coords):
            outs = []
            before_attrs = [attr_state(o) for o in owners if o is not None]
            for mode in ("base", "all", "outside"):
                if mode == "base":
                    setall(base)
                elif mode == "all":
                    setall(pois)
                else:
                    setall(pois)
                    for r, b in zip(regions, base):
                        r[co] = b[co]
                fn(item)
                outs.append([r.copy() for r in regions])
            after_attrs = [attr_state(o) for o in owners if o is not None]
            if before_attrs != after_attrs:
                changed = [k for b, a in zip(before_attrs, after_attrs) for k in set(b) | set(a) if b.get(k) != a.get(k)]
                rec["violations"].append(("O4", co, "attributes changed across a task: %r" % sorted(set(changed))))
            for k, (b, p) in enumerate(zip(base, pois)):
                oa, ob, oc = outs[0][k], outs[1][k], outs[2][k]
                untouched = same(oa, b) & same(ob, p)
                mask = np.ones(b.shape, bool)
                mask[co] = False  # True outside the task's own block
                if not untouched[mask].all():
                    rec["violations"].append(("O1", co, "region %d: a cell outside block %r was written" % (k, co)))
                if not same(oa[co], oc[co]).all():
                    rec["violations"].append(("O3", co, "region %d: block %r depends on the content of other blocks" % (k, co)))
        setall(base)
        for item in reversed(items):
            fn(item)


def probe():
    """The library behaviour FramePool.map mirrors for chunksize <= 0."""
    from multiprocessing.pool import ThreadPool

    seen = []
    with ThreadPool(2) as p:
        r = p.map(seen.append, [1, 2, 3], chunksize=0)
    return r == [None, None, None] and seen == []


def install():
    """Substitute the pool in the scratch-imported package."""
    import catii.ccubes as cc
    import catii.xcubes as xc

    class _Pool:  # ccubes looks up multiprocessing.pool.ThreadPool at call time
        ThreadPool = FramePool

    class _MP:
        pool = _Pool

    cc.multiprocessing = _MP
    xc.xcube.pool_class = FramePool
