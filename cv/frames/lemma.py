"""The lemma that turns frames into schedule independence (DESIGN §3.3), mechanised for two tasks.

Stores are arrays Addr -> Val, tasks are uninterpreted functions Store -> Store.  Hypotheses =
exactly the frame clauses the monitor checks per task:
   O2  the two write sets are disjoint;
   O1  a task leaves every cell outside its own write set unchanged;
   O3  what a task leaves in any cell outside the OTHER task's write set does not depend on the content
       of the other's write set (it reads no cell another task writes).
Goal:  f1(f2(s)) == f2(f1(s)) pointwise.  Also a canary: the hypotheses are satisfiable.
The lift to n tasks and to finer-than-task interleavings is the textbook disjoint-parallelism
argument (each task takes the same steps under any interleaving because it never reads what another
writes) and is listed as an assumption.
"""
import time

import z3


def prove():
    A = z3.IntSort()
    St = z3.ArraySort(A, z3.IntSort())
    f1 = z3.Function("f1", St, St)
    f2 = z3.Function("f2", St, St)
    W1 = z3.Function("W1", A, z3.BoolSort())
    W2 = z3.Function("W2", A, z3.BoolSort())
    s, t = z3.Consts("s t", St)
    a = z3.Const("a", A)

    def reads_outside(f, Wother):
        return z3.ForAll([s, t], z3.Implies(z3.ForAll([a], z3.Implies(z3.Not(Wother(a)), s[a] == t[a])),
                                             z3.ForAll([a], z3.Implies(z3.Not(Wother(a)), f(s)[a] == f(t)[a]))))

    hyp = z3.And(
        z3.ForAll([a], z3.Not(z3.And(W1(a), W2(a)))),
        z3.ForAll([s, a], z3.Implies(z3.Not(W1(a)), f1(s)[a] == s[a])),
        z3.ForAll([s, a], z3.Implies(z3.Not(W2(a)), f2(s)[a] == s[a])),
        reads_outside(f1, W2), reads_outside(f2, W1),
    )
    s0 = z3.Const("s0", St)
    b = z3.Const("b", A)
    out = {}
    sol = z3.Solver()
    sol.set("timeout", 60000)
    sol.add(hyp)
    sol.add(f1(f2(s0))[b] != f2(f1(s0))[b])
    t0 = time.time()
    out["commute"] = (str(sol.check()), round(time.time() - t0, 3))
    sol = z3.Solver()
    sol.set("timeout", 5000)
    sol.add(hyp)
    t0 = time.time()
    out["canary-hypotheses-consistent"] = (str(sol.check()), round(time.time() - t0, 3))
    # the lemma must NOT hold without O3 (a task whose own block depends on another block): sanity of the encoding
    hyp_weak = z3.And(
        z3.ForAll([a], z3.Not(z3.And(W1(a), W2(a)))),
        z3.ForAll([s, a], z3.Implies(z3.Not(W1(a)), f1(s)[a] == s[a])),
        z3.ForAll([s, a], z3.Implies(z3.Not(W2(a)), f2(s)[a] == s[a])),
    )
    sol = z3.Solver()
    sol.set("timeout", 5000)
    sol.add(hyp_weak)
    sol.add(f1(f2(s0))[b] != f2(f1(s0))[b])
    t0 = time.time()
    out["without-O3-not-provable"] = (str(sol.check()), round(time.time() - t0, 3))
    return out
