"""Shared case generators for the frame / schedule / interrupt checks (C16, C17, C20).

A case = (dense dimension arrays, explicit interacting shape, fact / weight arrays).  Deterministic
enumeration (no RNG): data are all arrays over a small value set for small N, thinned evenly.
"""
import itertools

import numpy as np

NaN = float("nan")


def spread(seq, k):
    seq = list(seq)
    if len(seq) <= k:
        return seq
    step = len(seq) / float(k)
    return [seq[int(i * step)] for i in range(k)]


def dim_arrays(shape, vals, limit):
    """`limit` arrays of the given shape over `vals`, evenly spaced in the lexicographic enumeration of all of them
    (the i-th one is decoded directly from its index: the full product is never iterated)."""
    size = int(np.prod(shape))
    total = len(vals) ** size
    step = max(1, total // limit)
    out = []
    for k in range(min(limit, total)):
        i = k * step
        digits = []
        for _ in range(size):
            i, r = divmod(i, len(vals))
            digits.append(vals[r])
        out.append(np.array(digits[::-1], dtype=np.int64).reshape(shape))
    return out


def cube_cases(tier, min_subcubes=1):
    """Yield (dims list of dense arrays, interacting_shape)."""
    N = 4 if tier != "thorough" else 5
    lim = 6 if tier != "thorough" else 14
    layouts = [
        [(N,)],
        [(N, 3)],
        [(N, 2), (N,)],
        [(N,), (N, 3)],
        [(N, 2, 2)],
        [(N, 2), (N, 2)],
        [(N, 3), (N,), (N, 2)],
    ]
    if tier == "thorough":
        layouts += [[(N, 4)], [(N, 2, 3)], [(N, 2), (N, 3), (N, 2)]]
    for lay in layouts:
        nsub = int(np.prod([int(np.prod(s[1:])) for s in lay]))
        if nsub < min_subcubes:
            continue
        pools = [dim_arrays(s, (0, 1, 2) if i == 0 else (0, 1), lim) for i, s in enumerate(lay)]
        for combo in spread(list(itertools.product(*pools)), lim * 2):
            ext = tuple(int(max(2, d.max() + 1)) + (1 if i == 0 else 0) for i, d in enumerate(combo))
            yield [d.copy() for d in combo], ext


def big_scaffold_cases(tier):
    """Cubes whose scaffold has many sub-cubes (65 .. 260): anything that batches, chunks or caps the task list shows here."""
    N = 4
    lays = [[(N, 65)], [(N, 9), (N, 9)], [(N, 5, 13), (N,)], [(N, 130)]]
    if tier == "thorough":
        lays += [[(N, 257)], [(N, 17), (N, 16)], [(N, 1025)]]
    for lay in lays:
        dims = []
        for i, s in enumerate(lay):
            n = int(np.prod(s))
            dims.append(((np.arange(n) * (i + 2) + (np.arange(n) // 7)) % 3).reshape(s).astype(np.int64))
        ext = tuple(3 + (1 if i == 0 else 0) for i in range(len(lay)))
        yield dims, ext


def facts(N):
    """fact / weight arrays of N rows (deterministic, with missing values and garbage under False validity)."""
    base = np.array(([1.0, NaN, 2.5, -3.0, 0.0, 4.0] * 3)[:N])
    two = np.column_stack([base, np.array(([2.0, 1.0, NaN, 0.0, 5.0, -1.0] * 3)[:N])])
    valid = np.array(([True, False, True, True, False, True] * 3)[:N])
    garbage = np.array(([7.0, NaN, 1.0, 2.0, 99.0, 3.0] * 3)[:N])
    ints = np.array(([3, 9, 1, 0, 7, 2] * 3)[:N], dtype=np.int64)
    w = np.array(([1.0, 2.0, 0.0, 1.5, NaN, 3.0] * 3)[:N])
    wv = (np.array(([1.0, 2.0, 0.0, 1.5, 5.0, 3.0] * 3)[:N]), np.array(([True, True, True, False, True, True] * 3)[:N]))
    valid2 = np.column_stack([valid, np.array(([True, True, False, True, True, False] * 3)[:N])])
    wn = np.array(([1.0, 2.0, NaN, 1.5, 0.5, 3.0] * 3)[:N])
    return dict(base=base, two=two, pair=(garbage, valid), ints=(ints, valid), w=w, wv=wv, pair2=(two.copy(), valid2), wn=wn)


def ffunc_factories(N):
    """name -> callable returning a fresh list-ready ffunc object (ccube side)."""
    from catii import ffuncs

    F = facts(N)
    out = {}
    for ig in (False, True):
        t = "ig" if ig else "pr"
        out["count[%s]" % t] = lambda ig=ig: ffuncs.ffunc_count(ignore_missing=ig)
        out["count-w[%s]" % t] = lambda ig=ig: ffuncs.ffunc_count(F["w"], ignore_missing=ig)
        out["count-wv[%s]" % t] = lambda ig=ig: ffuncs.ffunc_count(F["wv"], ignore_missing=ig, return_missing_as=(0, False))
        out["valid_count[%s]" % t] = lambda ig=ig: ffuncs.ffunc_valid_count(F["base"], F["w"], ignore_missing=ig)
        out["sum2[%s]" % t] = lambda ig=ig: ffuncs.ffunc_sum(F["two"], F["wv"], ignore_missing=ig)
        out["sum-pair[%s]" % t] = lambda ig=ig: ffuncs.ffunc_sum(F["pair"], ignore_missing=ig, return_missing_as=(0, False))
        out["mean[%s]" % t] = lambda ig=ig: ffuncs.ffunc_mean(F["base"], F["w"], ignore_missing=ig)
        out["mean-int[%s]" % t] = lambda ig=ig: ffuncs.ffunc_mean(F["ints"], ignore_missing=ig)
        # (values, validity) facts together with weights that are missing on rows where the fact is valid
        out["mean-pair-w[%s]" % t] = lambda ig=ig: ffuncs.ffunc_mean(F["pair"], F["wn"], ignore_missing=ig)
        out["sum-ints-wv[%s]" % t] = lambda ig=ig: ffuncs.ffunc_sum(F["ints"], F["wv"], ignore_missing=ig)
        out["valid_count-pair-wv[%s]" % t] = lambda ig=ig: ffuncs.ffunc_valid_count(F["pair"], F["wv"], ignore_missing=ig)
    return out, F


def xfunc_factories(N):
    from catii import xfuncs

    F = facts(N)
    warr = np.array(([1.0, 2.0, 0.0, 1.5, 0.5, 3.0] * 3)[:N])
    out = {}
    for ig in (False, True):
        t = "ig" if ig else "pr"
        out["count[%s]" % t] = lambda ig=ig: xfuncs.xfunc_count(ignore_missing=ig)
        out["count-w[%s]" % t] = lambda ig=ig: xfuncs.xfunc_count(F["w"], ignore_missing=ig)
        out["valid_count[%s]" % t] = lambda ig=ig: xfuncs.xfunc_valid_count(F["base"], F["w"], ignore_missing=ig)
        out["sum2[%s]" % t] = lambda ig=ig: xfuncs.xfunc_sum(F["two"], F["wv"], ignore_missing=ig)
        out["mean[%s]" % t] = lambda ig=ig: xfuncs.xfunc_mean(F["base"], F["w"], ignore_missing=ig)
        out["mean-pair[%s]" % t] = lambda ig=ig: xfuncs.xfunc_mean(F["pair"], ignore_missing=ig, return_missing_as=(0, False))
        out["stddev[%s]" % t] = lambda ig=ig: xfuncs.xfunc_stddev(F["base"], warr, ignore_missing=ig)
        out["stddev2[%s]" % t] = lambda ig=ig: xfuncs.xfunc_stddev(F["two"], ignore_missing=ig)
        out["quantile[%s]" % t] = lambda ig=ig: xfuncs.xfunc_quantile(F["base"], 0.5, ignore_missing=ig)
        out["quantile-w[%s]" % t] = lambda ig=ig: xfuncs.xfunc_quantile(F["pair"], 0.25, warr, ignore_missing=ig)
        out["max[%s]" % t] = lambda ig=ig: xfuncs.xfunc_max(F["base"], ignore_missing=ig)
        out["min-int[%s]" % t] = lambda ig=ig: xfuncs.xfunc_min(F["ints"], ignore_missing=ig, return_missing_as=(0, False))
        out["covariance[%s]" % t] = lambda ig=ig: xfuncs.xfunc_covariance(F["two"], warr, ignore_missing=ig)
        out["corrcoef[%s]" % t] = lambda ig=ig: xfuncs.xfunc_corrcoef(F["two"], ignore_missing=ig)
        # (values, validity) facts together with weights that are missing on rows where the fact is valid
        out["mean-pair-w[%s]" % t] = lambda ig=ig: xfuncs.xfunc_mean(F["pair"], F["wn"], ignore_missing=ig)
        out["sum-ints-wv[%s]" % t] = lambda ig=ig: xfuncs.xfunc_sum(F["ints"], F["wv"], ignore_missing=ig)
        out["valid_count-pair-wv[%s]" % t] = lambda ig=ig: xfuncs.xfunc_valid_count(F["pair"], F["wv"], ignore_missing=ig)
        out["stddev-pair-wv[%s]" % t] = lambda ig=ig: xfuncs.xfunc_stddev(F["pair"], F["wv"], ignore_missing=ig)
        out["quantile-ints-wv[%s]" % t] = lambda ig=ig: xfuncs.xfunc_quantile(F["ints"], 0.5, F["wv"], ignore_missing=ig)
        out["covariance-pair2-w[%s]" % t] = lambda ig=ig: xfuncs.xfunc_covariance(F["pair2"], F["wn"], ignore_missing=ig)
        out["corrcoef-pair2[%s]" % t] = lambda ig=ig: xfuncs.xfunc_corrcoef(F["pair2"], ignore_missing=ig)
    return out, F


def snapshot(obj):
    """Byte-level snapshot of an argument (arrays, tuples of arrays, indexes, dicts, lists)."""
    from ..rtc.speclib import snap

    try:
        from catii import iindex
    except Exception:  # pragma: no cover
        iindex = ()
    if isinstance(obj, np.ndarray):
        return ("nd", obj.tobytes(), str(obj.dtype), obj.shape, obj.flags.writeable)
    if iindex and isinstance(obj, iindex):
        return ("idx", snap(obj))
    if isinstance(obj, tuple):
        return ("tuple", tuple(snapshot(x) for x in obj))
    if isinstance(obj, list):
        return ("list", [snapshot(x) for x in obj])
    if isinstance(obj, dict):
        return ("dict", [(repr(k), snapshot(v)) for k, v in obj.items()])
    return ("val", repr(obj))


def same_result(a, b):
    """Bit-for-bit equality of two calculate() results (arrays or tuples of arrays), NaN == NaN."""
    if isinstance(a, (tuple, list)) and isinstance(b, (tuple, list)):
        return len(a) == len(b) and all(same_result(x, y) for x, y in zip(a, b))
    a, b = np.asarray(a), np.asarray(b)
    if a.shape != b.shape or a.dtype != b.dtype:
        return False
    if a.dtype.kind == "f":
        return bool(((a == b) | (np.isnan(a) & np.isnan(b))).all())
    if a.dtype.kind in "mM":
        return bool(((a == b) | (np.isnat(a) & np.isnat(b))).all())
    return bool((a == b).all())
