"""C16 driver: pooled evaluation under the frame monitor == serial evaluation, bit for bit."""
import numpy as np

from ..rtc.contract import MON
from ..rtc.speclib import mk
from . import cases, poolmon


def work(args):
    tier, shard, nshards = args[:3]
    from .. import env

    env.import_catii()
    import catii.ccubes as cc
    from catii import ccube, xcube

    real_mp = cc.multiprocessing
    real_pool_class = xcube.pool_class
    calls = nontriv = 0
    samples = []
    j = 0
    import itertools

    for dims, ext, big in itertools.chain(((d, e, False) for d, e in cases.cube_cases(tier, min_subcubes=3)), ((d, e, True) for d, e in cases.big_scaffold_cases(tier))):
        j += 1
        if j % nshards != shard:
            continue
        N = dims[0].shape[0]
        for kind in ("ccube", "xcube"):
            facs, F = (cases.ffunc_factories(N) if kind == "ccube" else cases.xfunc_factories(N))
            names = sorted(facs)
            groups = [[n] for n in names] + [names[:4], names[4:9], names[-5:]]
            if big:
                groups = [names[:4], [names[len(names) // 2]], names[-5:]]
            for grp in groups:
                ex = {"cube": kind, "dims": [d.tolist() for d in dims], "interacting_shape": list(ext), "aggregates": grp}
                cls = {"cube": kind, "aggregates": ",".join(grp)}
                try:
                    def build():
                        if kind == "ccube":
                            return ccube([mk(d, 0) for d in dims], ext)
                        return xcube([d.copy() for d in dims], ext)

                    ser_cube = build()
                    serial = ser_cube.calculate([facs[n]() for n in grp])
                    # monitored pooled run
                    poolmon.install()
                    poolmon.FramePool.log = []
                    c = build()
                    c.parallel = True
                    pooled = c.calculate([facs[n]() for n in grp])
                    log = list(poolmon.FramePool.log)
                except Exception as e:  # noqa
                    MON.check("%ss.%s.calculate/pooled-no-raise" % (kind, kind), "raised %s: %s" % (type(e).__name__, e), None, ex, cls)
                    continue
                finally:
                    cc.multiprocessing = real_mp
                    xcube.pool_class = real_pool_class
                q = "%ss.%s.calculate" % (kind, kind)
                MON.check(q + "/pooled-path-engaged", len(log) >= 1 and sum(l["tasks"] for l in log) >= 3, lambda: "pool.map calls: %r" % ([l["tasks"] for l in log],), ex, cls)
                if all(l["coords"] is not None for l in log):
                    got = sorted(tuple(int(e) for e in co) for l in log for co in l["coords"])
                    want = sorted(np.ndindex(*[int(e) for d in dims for e in d.shape[1:]]))
                    MON.check(q + "/task-frame-O5-every-sub-cube-handed-to-the-pool-exactly-once", got == want,
                              lambda: "%d sub-cubes handed over for %d; never handed: %r; more than once: %r" % (
                                  len(got), len(want), sorted(set(want) - set(got))[:5], sorted({c for c in got if got.count(c) > 1})[:5]), ex, cls)
                else:
                    MON.check(q + "/frame-monitor-task-items-not-recognised", True)  # O5 not judged; pooled == serial is
                viol = [v for l in log for v in l["violations"]]
                if any(l.get("stale") for l in log):
                    # the monitor does not bind to this task function: O1-O4 are not judged (reported as proof_stale by the check)
                    MON.check(q + "/frame-monitor-stale", True)
                else:
                    for code in ("O1", "O2", "O3", "O4", "monitor"):
                        these = [v for v in viol if v[0] == code]
                        MON.check(q + "/task-frame-%s" % code, not these, lambda: "; ".join("%s at block %r" % (v[2], v[1]) for v in these[:3]), ex, cls)
                MON.check(q + "/pooled-equals-serial-bit-for-bit", cases.same_result(pooled, serial),
                          lambda: "pooled %r != serial %r" % (pooled, serial), ex, cls)
                calls += 1
                nontriv += 1
                if len(samples) < 2:
                    samples.append(ex)
                # thorough: the real ThreadPool with pool sizes 1..16 as a sanity check of the substitution
                if tier == "thorough" and len(grp) > 1:
                    for ps in (1, 2, 3, 4, 8, 16):
                        c = build()
                        c.parallel = True
                        c.poolsize = ps
                        r = c.calculate([facs[n]() for n in grp])
                        MON.check(q + "/real-threadpool-equals-serial", cases.same_result(r, serial), lambda: "poolsize %d differs" % ps, ex, cls)
    out = MON.dump()
    out.update(driver_calls=calls, nontrivial=nontriv, samples=samples, jobs=j)
    return out
