"""Engine B, static half: a `modifies nothing caller-owned` proof by provenance analysis (DESIGN §3.1).

Intraprocedural abstract interpretation over the real AST (ast.parse of the working tree) of
ffuncs.py, xfuncs.py, ccubes.py, xcubes.py and the non-mutating methods of iindexes.py.  Every
expression gets a provenance:

    F            fresh: allocated inside this call (numpy.zeros/full/empty/array/concatenate/..., .copy(),
                 .astype(T) without copy=False, arithmetic / comparison / ~ on arrays, boolean-mask or
                 fancy reads, literals, comprehensions)
    A(root)      may alias `root`: a parameter (PARAM:p), an attribute of self (self.x) or a local
                 (numpy.asarray(x), x.T, basic slicing, reshape, tuple unpacking of an alias)
    U            unknown (anything the rules do not recognise) - never accepted as a store target

The analysis is *modular*: each function is checked with its own parameters as caller-owned, so a
callee that receives caller-owned memory is itself obliged not to store into it; parameters the
protocol hands over for writing (`regions`, `region`, the `arr` of adjust_zeros) are OWNED.
NumPy calls are assumed not to mutate their arguments except through `out=` and the known
mutators, which are store sites too.

Obligation per store site (ordinal in source order within the function, never a line number):

  <fn>/store#k/target-fresh-or-owned     x[...] = v, x[...] op= v, del x[k], x op= v (in place)
  <fn>/mutator#k/receiver-fresh-or-owned x.sort() / .append() / .pop() / .fill() / .update() / ...
  <fn>/out#k/target-fresh-or-owned       f(..., out=x)
  <fn>/attr#k/only-in-init-or-diagnostic self.x = v outside __init__ (whitelist: the diagnostics the
                                         property itself excludes)

A failed obligation carries the alias chain (which parameter the target may alias).
"""
import ast

FRESH_NUMPY = {
    "zeros", "full", "empty", "ones", "array", "concatenate", "append", "bincount", "cumprod", "nansum", "sum", "isnan",
    "isclose", "count_nonzero", "arange", "repeat", "prod", "sqrt", "unique", "diff", "digitize", "corrcoef", "cov", "all",
    "any", "nanquantile", "quantile", "amax", "amin", "flip", "apply_along_axis", "where", "setxor1d", "column_stack",
    "dtype", "cumsum", "clip", "zeros_like", "divide", "iinfo", "array_equal", "errstate", "timedelta64", "datetime64",
    "uint8", "uint16", "uint32", "uint64", "int8", "int16", "int32", "int64", "float64", "bool_",
}
FRESH_BUILTINS = {
    "len", "float", "int", "type", "tuple", "list", "dict", "set", "defaultdict", "max", "min", "range", "sorted", "reversed",
    "enumerate", "zip", "isinstance", "reduce", "hasattr", "repr", "str", "sum", "any", "all", "iter", "next", "print", "chain",
    "islice", "fit_dtype", "closing", "ccube", "iindex", "union", "intersection", "difference", "set_intersect_merge_np",
    "ValueError", "TypeError", "RuntimeError", "AssertionError", "NotImplementedError", "bool", "abs", "id",
}
FRESH_METHODS = {
    "copy", "astype", "sum", "cumsum", "argsort", "clip", "nonzero", "tolist", "any", "all", "item", "values", "items", "keys",
    "index", "time", "perf_counter", "format", "join", "intersection", "issubset", "type", "count", "get_initial_regions",
    "fill_func", "qfunc", "op", "weighted_quantile", "bins", "reduce", "fill", "calculate", "strided_dims", "product",
    "slices1d", "common_rowids", "to_array", "to_dict", "from_array", "sliced", "filtered", "reindexed", "collapsed",
    "interactions", "map", "common_common", "nbytes", "mean", "max", "min", "startswith", "get_include", "product",
}
ALIAS_METHODS = {"reshape", "view", "ravel", "squeeze", "transpose", "get", "setdefault", "pop", "__getitem__"}
MUTATORS = {"sort", "append", "extend", "insert", "pop", "remove", "clear", "fill", "update", "setdefault", "resize", "put",
            "itemset", "setflags", "set_if", "shift_common", "union_update", "intersection_update", "difference_update", "add",
            "discard", "popitem", "reverse", "byteswap", "partition"}
SCALAR_ATTRS = {"shape", "dtype", "size", "ndim", "nbytes", "itemsize", "common", "rowid_dtype", "ROWID_DTYPE", "str", "kind",
                "ignore_missing", "return_missing_as", "null", "N", "probability", "poolsize", "debug", "parallel", "check_interrupt",
                "scaffold_shape", "scaffold_size", "interacting_shape", "working_shape", "marginless", "corner", "scaffold", "mintype",
                "pool_class", "max", "min", "type", "name", "itemsize"}
DIAGNOSTIC_ATTRS = {"self.tracing", "self._tracing", "self.intersection_data_points"}


class Site:
    def __init__(self, name, ok, why, text, lineno):
        self.name, self.ok, self.why, self.text, self.lineno = name, ok, why, text, lineno


F = ("F",)
U = ("U",)


def A(root):
    return ("A", frozenset([root]))


def join(*ps):
    if any(p == U for p in ps):
        return U
    roots = set()
    for p in ps:
        if p[0] == "A":
            roots |= p[1]
        elif p[0] == "T":
            q = join(*p[1]) if p[1] else F
            if q == U:
                return U
            if q[0] == "A":
                roots |= q[1]
    return ("A", frozenset(roots)) if roots else F


class Analyser:
    module_globals = frozenset()

    def __init__(self, qual, fn, params, owned, is_init, self_is_param):
        self.qual = qual
        self.fn = fn
        self.is_init = is_init
        self.env = {}
        for p in params:
            self.env[p] = A("PARAM:" + p)
        for o in owned:
            self.env[o] = F
        self.self_is_param = self_is_param
        self.sites = []
        self.ctr = {"store": 0, "mutator": 0, "out": 0, "attr": 0}

    # ---- provenance of an expression
    def prov(self, e):
        env = self.env
        if isinstance(e, ast.Constant):
            return F
        if isinstance(e, ast.Name):
            if e.id in env:
                return env[e.id]
            if e.id == "self":
                return A("PARAM:self") if self.self_is_param else F
            if e.id in self.module_globals:
                return A("GLOBAL:" + e.id)  # module-level mutable state: a store into it is hidden state between calls
            return F  # imported modules / builtins / functions / classes
        if isinstance(e, (ast.BinOp, ast.UnaryOp, ast.Compare, ast.BoolOp, ast.JoinedStr, ast.Dict, ast.ListComp, ast.GeneratorExp,
                          ast.DictComp, ast.SetComp, ast.Lambda, ast.Set)):
            self.scan_calls(e)
            return F
        if isinstance(e, (ast.Tuple, ast.List)):
            return ("T", tuple(self.prov(x) for x in e.elts))
        if isinstance(e, ast.Starred):
            return self.prov(e.value)
        if isinstance(e, ast.IfExp):
            return join(self.prov(e.body), self.prov(e.orelse))
        if isinstance(e, ast.Attribute):
            if e.attr == "T" or e.attr == "flat" or e.attr == "real":
                return self.prov(e.value)
            if isinstance(e.value, ast.Name) and e.value.id == "self":
                key = "self." + e.attr
                if key in env:
                    return env[key]
                if e.attr in SCALAR_ATTRS:
                    return F
                return A(key)
            if e.attr in SCALAR_ATTRS:
                return F
            return self.prov(e.value)
        if isinstance(e, ast.Subscript):
            if self.fancy(e.slice):
                return F  # boolean-mask / fancy read copies
            return self.prov(e.value)
        if isinstance(e, ast.Call):
            return self.prov_call(e)
        if isinstance(e, ast.NamedExpr):
            p = self.prov(e.value)
            self.env[e.target.id] = p
            return p
        return U

    def fancy(self, s):
        if isinstance(s, ast.UnaryOp) and isinstance(s.op, ast.Invert):
            return True
        if isinstance(s, ast.Compare):
            return True
        if isinstance(s, ast.Tuple):
            return any(self.fancy(x) for x in s.elts)
        if isinstance(s, ast.Name):
            p = self.env.get(s.id)
            return s.id in self.maskish
        return False

    def prov_call(self, e):
        f = e.func
        self.call_sites(e)
        if isinstance(f, ast.Attribute):
            if isinstance(f.value, ast.Name) and f.value.id in ("numpy", "np"):
                if f.attr == "asarray":
                    return self.prov(e.args[0]) if e.args else F
                if f.attr in FRESH_NUMPY:
                    return F
                return U
            if isinstance(f.value, ast.Attribute) and ast.unparse(f.value) in ("numpy.random", "numpy.linalg", "numpy.add", "itertools", "operator", "time", "warnings", "struct", "mmap"):
                return F
            if isinstance(f.value, ast.Name) and f.value.id in ("itertools", "operator", "time", "warnings", "struct", "mmap", "sys", "functools"):
                return F
            if f.attr == "astype":
                for kw in e.keywords:
                    if kw.arg == "copy" and isinstance(kw.value, ast.Constant) and kw.value.value is False:
                        return self.prov(f.value)
                return F
            if f.attr == "adjust_zeros":
                return self.prov(e.args[0]) if e.args else F  # contract: returns arr (adjusted in place) or a fresh copy
            if f.attr == "flat_regions":
                return self.prov(e.args[0]) if e.args else F  # reshape views of the regions
            if f.attr == "__class__":
                return F  # self.__class__(...) builds a new container (its arrays are judged at run time)
            if f.attr in ALIAS_METHODS:
                return self.prov(f.value)
            if f.attr in FRESH_METHODS:
                return F
            if f.attr in MUTATORS:
                return F  # value of a mutator call; the mutation itself is a site (call_sites)
            return U
        if isinstance(f, ast.Name):
            if f.id == "as_separate_validity":
                return ("T", (self.prov(e.args[0]) if e.args else F, F))
            if f.id in FRESH_BUILTINS or f.id in self.local_functions:
                return F
            if f.id == "super":
                return A("PARAM:self") if self.self_is_param else F
            return U
        if isinstance(f, ast.Call):  # super().get(...)
            return self.prov(f) if ast.unparse(f).startswith("super(") else U
        return U

    # ---- store-like effects hidden in calls
    def call_sites(self, e):
        f = e.func
        for kw in e.keywords:
            if kw.arg == "out":
                self.site("out", kw.value, e)
        if isinstance(f, ast.Attribute) and f.attr in MUTATORS and not (f.attr == "fill" and len(e.args) == 2):
            base = f.value
            if isinstance(base, ast.Name) and base.id in ("numpy", "warnings", "itertools", "self") and f.attr not in ("update",):
                if base.id == "self" and self.self_is_param:
                    self.site("mutator", base, e)
                return
            self.site("mutator", base, e)
        for a in list(e.args) + [k.value for k in e.keywords]:
            self.scan_calls(a)

    def scan_calls(self, e):
        for n in ast.walk(e):
            if isinstance(n, ast.Call) and n is not e:
                self.call_sites_shallow(n)

    def call_sites_shallow(self, e):
        f = e.func
        for kw in e.keywords:
            if kw.arg == "out":
                self.site("out", kw.value, e)
        if isinstance(f, ast.Attribute) and f.attr in MUTATORS and not (f.attr == "fill" and len(e.args) == 2):
            base = f.value
            if isinstance(base, ast.Name) and base.id in ("numpy", "warnings", "itertools"):
                return
            self.site("mutator", base, e)

    # ---- sites
    def roots_bad(self, p):
        if p == U:
            return {"<unknown provenance>"}
        if p == F:
            return set()
        if p[0] == "T":
            out = set()
            for q in p[1]:
                out |= self.roots_bad(q)
            return out
        bad = set()
        for r in p[1]:
            if r in DIAGNOSTIC_ATTRS:
                continue
            if r.startswith("GLOBAL:"):
                bad.add(r)
            if r.startswith("PARAM:") or r.startswith("self."):
                if r.startswith("self.") and self.is_init:
                    # in __init__ a store through self.x is a store into the object being built, provided
                    # self.x itself was bound to something fresh (tracked in env); otherwise it aliases a parameter
                    bad.add(r)
                else:
                    bad.add(r)
        return bad

    def site(self, kind, target, node):
        base = target
        while isinstance(base, ast.Subscript):
            base = base.value
        p = self.prov(base)
        bad = self.roots_bad(p)
        key = (id(node), kind, ast.unparse(target))
        if key in self.by_node:
            st = self.by_node[key]
            if bad and st.ok:
                st.ok, st.why = False, "may alias %s" % ", ".join(sorted(bad))
            return
        self.ctr[kind] += 1
        label = {"store": "target-fresh-or-owned", "mutator": "receiver-fresh-or-owned", "out": "target-fresh-or-owned"}[kind]
        name = "%s/%s#%d/%s" % (self.qual, kind, self.ctr[kind], label)
        st = Site(name, not bad, "may alias %s" % ", ".join(sorted(bad)) if bad else "", ast.unparse(node)[:90], node.lineno)
        self.by_node[key] = st
        self.sites.append(st)

    def attr_site(self, t, node):
        key = (id(node), "attr", ast.unparse(t))
        if key in self.by_node:
            return
        self.ctr["attr"] += 1
        k = ast.unparse(t)
        ok = self.is_init or k in DIAGNOSTIC_ATTRS
        name = "%s/attr#%d/only-in-init-or-diagnostic" % (self.qual, self.ctr["attr"])
        st = Site(name, ok, "" if ok else "stores %s outside __init__" % k, ast.unparse(node)[:90], node.lineno)
        self.by_node[key] = st
        self.sites.append(st)

    # ---- statements
    def assign(self, t, p):
        if isinstance(t, ast.Name):
            self.env[t.id] = p
            if self.last_value_maskish:
                self.maskish.add(t.id)
            else:
                self.maskish.discard(t.id)
        elif isinstance(t, (ast.Tuple, ast.List)):
            if p[0] == "T" and len(p[1]) == len(t.elts):
                for x, q in zip(t.elts, p[1]):
                    self.assign(x, q)
            else:
                for x in t.elts:
                    self.assign(x, p if p[0] != "T" else join(*p[1]))
        elif isinstance(t, ast.Starred):
            self.assign(t.value, p)

    def is_maskish(self, v):
        """Is this value a boolean mask / index array computed here (so that x[v] is a fancy, copying read)?"""
        if isinstance(v, ast.Compare):
            return True
        if isinstance(v, ast.UnaryOp) and isinstance(v.op, ast.Invert):
            return True
        if isinstance(v, ast.BinOp) and isinstance(v.op, (ast.BitOr, ast.BitAnd)):
            return self.is_maskish(v.left) or self.is_maskish(v.right)
        if isinstance(v, ast.Call):
            t = ast.unparse(v.func)
            if t in ("numpy.isnan", "numpy.isclose", "numpy.zeros", "numpy.ones", "numpy.empty") and any(
                    k.arg == "dtype" and ast.unparse(k.value) == "bool" for k in v.keywords):
                return True
            if t in ("numpy.isnan", "numpy.isclose"):
                return True
            if t.endswith(".argsort") or t.endswith(".nonzero"):
                return True
        if isinstance(v, ast.Subscript) and isinstance(v.value, ast.Name) and v.value.id in self.maskish:
            return True
        return False

    def walk(self, stmts):
        for s in stmts:
            self.stmt(s)

    def stmt(self, s):
        if isinstance(s, ast.Assign):
            self.last_value_maskish = self.is_maskish(s.value)
            p = self.prov(s.value)
            for t in s.targets:
                if isinstance(t, ast.Subscript):
                    self.site("store", t, s)
                elif isinstance(t, ast.Attribute):
                    if isinstance(t.value, ast.Name) and t.value.id == "self":
                        self.attr_site(t, s)
                        self.env["self." + t.attr] = p
                    else:
                        self.site("store", t, s)
                else:
                    self.assign(t, p)
            self.last_value_maskish = False
        elif isinstance(s, ast.AugAssign):
            self.scan_calls(s.value)
            if isinstance(s.target, ast.Subscript):
                self.site("store", s.target, s)
            elif isinstance(s.target, ast.Attribute):
                if isinstance(s.target.value, ast.Name) and s.target.value.id == "self":
                    self.attr_site(s.target, s)
                else:
                    self.site("store", s.target, s)
            elif isinstance(s.target, ast.Name):
                # `x op= v` mutates in place when x is an array: a store into whatever x may alias
                p = self.env.get(s.target.id, F)
                if p != F:
                    self.site("store", s.target, s)
        elif isinstance(s, ast.Delete):
            for t in s.targets:
                if isinstance(t, ast.Subscript):
                    self.site("store", t, s)
        elif isinstance(s, ast.Expr):
            if isinstance(s.value, ast.Call):
                self.prov_call(s.value)
            elif isinstance(s.value, (ast.Yield, ast.YieldFrom)) and s.value.value is not None:
                self.prov(s.value.value)
        elif isinstance(s, ast.Return):
            if s.value is not None:
                p = self.prov(s.value)
                want = RETURNS_FRESH.get(self.fn.name)
                if want:
                    comps = list(p[1]) if p[0] == "T" else None
                    for i in want:
                        q = comps[i] if comps is not None and i < len(comps) else U
                        bad = self.roots_bad(q)
                        self.ctr["store"] += 0
                        name = "%s/return#%d/component-%d-fresh" % (self.qual, len([x for x in self.sites if "/return#" in x.name]) + 1, i)
                        self.sites.append(Site(name, not bad, "returned component %d may alias %s (callers store into it)" % (i, ", ".join(sorted(bad))) if bad else "",
                                               ast.unparse(s)[:90], s.lineno))
        elif isinstance(s, ast.If):
            self.prov(s.test)
            saved = dict(self.env)
            self.walk(s.body)
            e1 = dict(self.env)
            self.env = dict(saved)
            self.walk(s.orelse)
            for k in set(e1) | set(self.env):
                a, b = e1.get(k), self.env.get(k)
                if a is None or b is None:
                    self.env[k] = a if b is None else b
                elif a != b:
                    self.env[k] = join(a, b)
        elif isinstance(s, (ast.For, ast.While)):
            if isinstance(s, ast.For):
                it = s.iter
                if isinstance(it, ast.Call) and ast.unparse(it.func) in ("zip", "enumerate"):
                    ps = [self.prov(a) for a in it.args]
                    ps = [join(*(q[1])) if q[0] == "T" and q[1] else q for q in ps]
                    if ast.unparse(it.func) == "enumerate":
                        self.assign(s.target, ("T", (F, ps[0])) if isinstance(s.target, ast.Tuple) and len(s.target.elts) == 2 else ps[0])
                    else:
                        self.assign(s.target, ("T", tuple(ps)) if isinstance(s.target, ast.Tuple) and len(s.target.elts) == len(ps) else join(*ps))
                else:
                    p = self.prov(it)
                    self.assign(s.target, join(*p[1]) if p[0] == "T" and p[1] else p)
            else:
                self.prov(s.test)
            for _ in range(2):  # two passes reach the fixed point of this flat lattice for straight-line loop bodies
                self.walk(s.body)
            self.walk(s.orelse)
        elif isinstance(s, ast.With):
            for it in s.items:
                p = self.prov(it.context_expr)
                if it.optional_vars is not None:
                    self.assign(it.optional_vars, p)
            self.walk(s.body)
        elif isinstance(s, ast.Try):
            self.walk(s.body)
            for h in s.handlers:
                self.walk(h.body)
            self.walk(s.orelse)
            self.walk(s.finalbody)
        elif isinstance(s, ast.FunctionDef):
            # closure: inherits the environment (free variables); its own parameters are caller-owned,
            # except those the protocol hands over for writing
            saved = dict(self.env)
            savedq, savedctr = self.qual, self.ctr
            self.qual = self.qual + "." + s.name
            self.ctr = {"store": 0, "mutator": 0, "out": 0, "attr": 0}
            for a in s.args.args:
                self.env[a.arg] = F if a.arg in OWNED.get(s.name, ()) else A("PARAM:" + a.arg)
            self.local_functions.add(s.name)
            self.walk(s.body)
            self.env = saved
            self.qual, self.ctr = savedq, savedctr
        elif isinstance(s, (ast.Raise, ast.Pass, ast.Break, ast.Continue, ast.Import, ast.ImportFrom, ast.Assert, ast.Global, ast.Nonlocal)):
            pass
        else:
            self.sites.append(Site("%s/unsupported-statement" % self.qual, False, type(s).__name__, ast.unparse(s)[:60], s.lineno))

    def run(self):
        self.maskish = set()
        self.by_node = {}
        self.local_functions = set()
        self.last_value_maskish = False
        self.walk(self.fn.body)
        return self.sites


# return-provenance contracts that callers rely on (checked on the callee's own body):
#   as_separate_validity(arr) -> (values: may alias arr, validity: FRESH)
RETURNS_FRESH = {"as_separate_validity": [1]}

# parameters handed over for writing by the fill/reduce protocol
OWNED = {
    "fill_func": ["regions"], "fill": ["regions"], "reduce": ["regions"], "_fill_one_no_coordinates": ["regions"],
    "_fill_one_by_coordinates": ["regions"], "adjust_zeros": ["arr"], "_compute_common_cells_from_marginal_diffs": ["region"],
    "flat_regions": ["regions"],
}
# iindex methods that are *mutating by contract* (not part of C17's list) and construction helpers
IINDEX_MUTATING = {"__init__", "shift_common", "append", "update", "union_update", "intersection_update", "difference_update", "set_if"}


def _called_only_from_init(cls, name):
    """A private helper that only __init__ calls is part of construction (e.g. xcube._set_strides)."""
    callers = set()
    for fn in cls.body:
        if isinstance(fn, ast.FunctionDef):
            for n in ast.walk(fn):
                if isinstance(n, ast.Call) and isinstance(n.func, ast.Attribute) and n.func.attr == name \
                        and isinstance(n.func.value, ast.Name) and n.func.value.id == "self":
                    callers.add(fn.name)
    return bool(callers) and callers <= {"__init__"} and name.startswith("_")


def analyse_module(mod_name, src):
    tree = ast.parse(src)
    sites = []
    fns = 0
    globs = set()
    for node in tree.body:
        if isinstance(node, ast.Assign):
            for t in node.targets:
                if isinstance(t, ast.Name):
                    globs.add(t.id)
    Analyser.module_globals = frozenset(globs)
    for node in tree.body:
        if isinstance(node, ast.ClassDef):
            for fn in node.body:
                if not isinstance(fn, ast.FunctionDef):
                    continue
                if mod_name == "iindexes" and fn.name in IINDEX_MUTATING:
                    continue
                params = [a.arg for a in fn.args.args + fn.args.kwonlyargs if a.arg not in ("self", "cls")]
                if fn.args.vararg:
                    params.append(fn.args.vararg.arg)
                owned = OWNED.get(fn.name, [])
                qual = "%s.%s.%s" % (mod_name, node.name, fn.name)
                is_init = fn.name == "__init__" or _called_only_from_init(node, fn.name)
                # for index methods `self` is a caller-owned operand; for cubes/functions self's arrays are
                # tracked through self.<attr> roots
                an = Analyser(qual, fn, [p for p in params if p not in owned], owned, is_init, self_is_param=(mod_name == "iindexes"))
                sites += an.run()
                fns += 1
        elif isinstance(node, ast.FunctionDef):
            if mod_name == "iindexes" and node.name in ("fit_dtype",):
                continue
            params = [a.arg for a in node.args.args]
            an = Analyser("%s.%s" % (mod_name, node.name), node, params, [], False, False)
            sites += an.run()
            fns += 1
    return sites, fns
