"""Engine A, entry-wise set updates of iindex (C06 / C07 proved part).

`iindex.union_update / intersection_update / difference_update` and `set_if` are executed
symbolically on the real AST (ast.parse of the working tree's iindexes.py) FOR ONE ARBITRARY KEY:

  * the receiver is an abstract dict: for the key `coords` of the current iteration it either holds a
    strictly increasing uint32 array S (non-empty: wf) or nothing; every other key is untouched, which
    is itself an obligation (`touches-only-current-key`: every dict mutation in the loop body is
    `self.set_if(coords, ...)`, `self.pop(coords, ...)`, `self[coords] = ...` or `del self[coords]`
    on the loop's own key);
  * `other[coords]` is a strictly increasing uint32 array O (or None, which the code skips);
  * `union` / `intersection` / `difference` enter by their proved contracts (contracts/kernels.py WRAPPERS,
    discharged under C08: calls are modular), after their `requires` has been discharged at the call site;
  * `set_if` enters by a contract that is proved here on its own body;
  * `numpy.asarray(x, dtype=self.rowid_dtype)` of a uint32 array is the identity on contents (axiom, probed).

Obligations per method and per case (key present / absent in the receiver):

  <method>/call-requires#k                 the wrapper's precondition at the call site
  <method>/post-entry-is-set-algebra       the entry under `coords` afterwards is exactly S (+) O, strictly increasing
  <method>/post-no-empty-entry             ... and is removed rather than left empty
  <method>/touches-only-current-key        (syntactic) frame of the loop body
  set_if/post-*                            set_if's own contract on its body

The step from "every iteration is right for its own key and touches no other key" to the whole loop
(dict iteration visits each key of `other` exactly once; `other is not self`, so it is not mutated
meanwhile) is the dict-iteration rule and is listed as an assumption.
"""
import ast
import itertools

import z3

from .kexec import Obl
from .spec import Arr, conjuncts, to_z3


class Unsupported(Exception):
    pass


NONE = object()
_ids = itertools.count()


def _fresh_arr(base):
    k = next(_ids)
    return Arr("%s!%d" % (base, k), z3.Int("len_%s!%d" % (base, k)))


def _elem_axiom(A):
    q = z3.Int("q!u%d" % next(_ids))
    return z3.ForAll([q], z3.And(0 <= z3.Select(A.a, q), z3.Select(A.a, q) < 2 ** 32), patterns=[z3.Select(A.a, q)])


def _inc(A):
    return to_z3("inc(a, len(a))", {"a": A})


class Entry:
    """What the abstract dict holds under the current key: `none` (Bool) and the array when present."""

    def __init__(self, none, arr):
        self.none = none  # python bool
        self.arr = arr


def find_method(tree, name):
    for n in tree.body:
        if isinstance(n, ast.ClassDef) and n.name == "iindex":
            for m in n.body:
                if isinstance(m, ast.FunctionDef) and m.name == name:
                    return m
    raise Unsupported("iindex.%s not found" % name)


# ------------------------------------------------------------------ set_if
def verify_set_if(fn, module="iindexes.iindex"):
    """set_if(key, value, copy=True): value None or empty -> key absent afterwards; otherwise present with the
    value's contents.  Executes the real body over the cases (value None / empty / non-empty) x (copy)."""
    obls = []
    src = ast.unparse(fn)
    # recognise the shape statement by statement
    body = [s for s in fn.body if not (isinstance(s, ast.Expr) and isinstance(s.value, ast.Constant))]
    if len(body) != 1 or not isinstance(body[0], ast.If):
        raise Unsupported("set_if body shape")
    top = body[0]
    for case in ("none", "empty", "nonempty"):
        V = _fresh_arr("value")
        pc = [V.len >= 0, _elem_axiom(V)]
        if case == "empty":
            pc.append(V.len == 0)
        if case == "nonempty":
            pc.append(V.len > 0)
        env = {"value": NONE if case == "none" else V, "key": "KEY"}
        state = {"present": z3.Bool("was_present"), "arr": _fresh_arr("old")}
        # evaluate the real test over the abstract value (None / array of symbolic length)
        cond = _eval_test(top.test, env)
        for branch, stmts, bpc in (("then", top.body, pc + [cond]), ("else", top.orelse, pc + [z3.Not(cond)])):
            s = z3.Solver()
            s.add(*bpc)
            if s.check() == z3.unsat:
                continue
            after_present, after_arr = _run_set_if_branch(stmts, env, state)
            tag = "[%s,%s]" % (case, branch)
            if case in ("none", "empty"):
                obls.append(Obl("%s.set_if/post-absent-when-none-or-empty%s" % (module, tag), "post", bpc, z3.Not(after_present)))
            else:
                obls.append(Obl("%s.set_if/post-present-when-nonempty%s" % (module, tag), "post", bpc, after_present))
                if after_arr is not None:
                    q = z3.Int("q!si%d" % next(_ids))
                    obls.append(Obl("%s.set_if/post-holds-the-value%s" % (module, tag), "post", bpc,
                                    z3.And(after_arr.len == V.len,
                                           z3.ForAll([q], z3.Implies(z3.And(0 <= q, q < V.len), z3.Select(after_arr.a, q) == z3.Select(V.a, q))))))
                else:
                    obls.append(Obl("%s.set_if/post-holds-the-value%s" % (module, tag), "post", bpc, z3.BoolVal(False)))
    return obls


def _eval_test(e, env):
    """Boolean tests over `value`: `value is None`, `value is not None`, comparisons of len(value) with
    integer constants, and / or / not."""
    if isinstance(e, ast.BoolOp):
        acc = []
        for x in e.values:
            # short-circuit: later operands are only evaluated when earlier ones did not decide
            c = _eval_test_guarded(x, env, acc, isinstance(e.op, ast.Or))
            acc.append(c)
        return z3.Or(*acc) if isinstance(e.op, ast.Or) else z3.And(*acc)
    if isinstance(e, ast.UnaryOp) and isinstance(e.op, ast.Not):
        return z3.Not(_eval_test(e.operand, env))
    if isinstance(e, ast.Compare) and len(e.ops) == 1:
        l, r = e.left, e.comparators[0]
        if isinstance(e.ops[0], (ast.Is, ast.IsNot)) and isinstance(l, ast.Name) and isinstance(r, ast.Constant) and r.value is None:
            isnone = env[l.id] is NONE
            return z3.BoolVal(isnone if isinstance(e.ops[0], ast.Is) else not isnone)
        def num(x):
            if isinstance(x, ast.Constant) and isinstance(x.value, int):
                return z3.IntVal(x.value)
            if isinstance(x, ast.Call) and ast.unparse(x.func) == "len" and isinstance(x.args[0], ast.Name):
                v = env[x.args[0].id]
                if v is NONE:
                    raise _LenOfNone()
                return v.len
            raise Unsupported("test operand %s" % ast.unparse(x))
        a, b = num(l), num(r)
        ops = {ast.Eq: a == b, ast.NotEq: a != b, ast.Lt: a < b, ast.LtE: a <= b, ast.Gt: a > b, ast.GtE: a >= b}
        if type(e.ops[0]) not in ops:
            raise Unsupported("test operator")
        return ops[type(e.ops[0])]
    raise Unsupported("test %s" % ast.unparse(e))


class _LenOfNone(Exception):
    pass


def _eval_test_guarded(x, env, earlier, is_or):
    try:
        return _eval_test(x, env)
    except _LenOfNone:
        # len(None) raises TypeError unless an earlier operand already decided the result
        decided = z3.Or(*earlier) if is_or else z3.Not(z3.And(*earlier)) if earlier else z3.BoolVal(False)
        if earlier and z3.is_true(z3.simplify(decided)):
            return z3.BoolVal(False if is_or else True)
        raise Unsupported("len(None) reachable in a test")


def _run_set_if_branch(stmts, env, state):
    present, arr = state["present"], state["arr"]
    env = dict(env)
    for s in stmts:
        t = ast.unparse(s).replace(" ", "")
        if t == "self.pop(key,None)":
            present, arr = z3.BoolVal(False), None
        elif t == "value=numpy.asarray(value)":
            pass  # identity on an ndarray
        elif t in ("self[key]=value.copy()ifcopyelsevalue", "self[key]=value"):
            present, arr = z3.BoolVal(True), env["value"] if env["value"] is not NONE else None
        else:
            raise Unsupported("set_if statement %r" % ast.unparse(s))
    return present, arr


# ------------------------------------------------------------------ the three update methods
OPS = {"union_update": "union", "intersection_update": "intersection", "difference_update": "difference"}


def verify_update(fn, kind, wrappers, module="iindexes.iindex"):
    """Per-key obligations for one update method."""
    name = fn.name
    obls = []
    loops = [s for s in fn.body if isinstance(s, ast.For)]
    others = [s for s in fn.body if not isinstance(s, ast.For) and not (isinstance(s, ast.Expr) and isinstance(s.value, ast.Constant))]
    if others:
        raise Unsupported("%s: statements outside loops: %s" % (name, ast.unparse(others[0])[:60]))
    main = loops[-1]
    pre = loops[:-1]
    # ---- optional first loop of intersection_update: keys of self not in other are deleted
    drops_missing = False
    if pre:
        if len(pre) != 1 or ast.unparse(pre[0]).replace(" ", "").replace("\n", "") != "forcoordsinlist(self.keys()):ifcoordsnotinother:delself[coords]":
            raise Unsupported("%s: first loop shape" % name)
        drops_missing = True
    if ast.unparse(main.iter).replace(" ", "") != "other.items()" or ast.unparse(main.target).replace(" ", "") != "(coords,rowids)":
        raise Unsupported("%s: main loop header" % name)
    # ---- frame: every mutation of self in the body is on the loop's own key
    ok_frame = True
    for n in ast.walk(main):
        if isinstance(n, ast.Call) and isinstance(n.func, ast.Attribute) and isinstance(n.func.value, ast.Name) and n.func.value.id == "self":
            if n.func.attr in ("set_if", "pop", "__setitem__", "__delitem__", "setdefault"):
                ok_frame &= bool(n.args) and ast.unparse(n.args[0]) == "coords"
            elif n.func.attr not in ("get",):
                ok_frame = False
        if isinstance(n, (ast.Assign, ast.AugAssign, ast.Delete)):
            tgts = n.targets if isinstance(n, (ast.Assign, ast.Delete)) else [n.target]
            for t in tgts:
                if isinstance(t, ast.Subscript) and ast.unparse(t.value) == "self":
                    ok_frame &= ast.unparse(t.slice) == "coords"
                if isinstance(t, ast.Attribute) and ast.unparse(t.value) == "self":
                    ok_frame = False
    obls.append(Obl("%s.%s/touches-only-current-key" % (module, name), "post", [], z3.BoolVal(bool(ok_frame))))
    # ---- body for one arbitrary key
    body = list(main.body)
    if not (isinstance(body[0], ast.If) and ast.unparse(body[0].test).replace(" ", "") == "rowidsisNone"
            and len(body[0].body) == 1 and isinstance(body[0].body[0], ast.Continue) and not body[0].orelse):
        raise Unsupported("%s: None guard" % name)
    if ast.unparse(body[1]).replace(" ", "") != "rowids=numpy.asarray(rowids,dtype=self.rowid_dtype)":
        raise Unsupported("%s: asarray statement" % name)
    if len(body) != 3 or not isinstance(body[2], ast.Expr) or not isinstance(body[2].value, ast.Call):
        raise Unsupported("%s: body shape" % name)
    call = body[2].value
    if ast.unparse(call.func) != "self.set_if" or ast.unparse(call.args[0]) != "coords":
        raise Unsupported("%s: set_if call" % name)
    inner = call.args[1]
    if not (isinstance(inner, ast.Call) and isinstance(inner.func, ast.Name) and inner.func.id in wrappers and len(inner.args) == 2):
        raise Unsupported("%s: expected a call of a set-operation wrapper" % name)
    callee = inner.func.id
    roles = []
    for a in inner.args:
        t = ast.unparse(a).replace(" ", "")
        if t == "self.get(coords)":
            roles.append("S")
        elif t == "rowids":
            roles.append("O")
        else:
            raise Unsupported("%s: operand %s of %s" % (name, ast.unparse(a), callee))
    W = wrappers[callee]
    for present in (True, False):
        if drops_missing and not present:
            # after the first loop every key of self is in other; a key of other absent from self: get() is None
            pass
        S, O = _fresh_arr("S"), _fresh_arr("O")
        pc = [S.len >= 1, O.len >= 1, _elem_axiom(S), _elem_axiom(O), _inc(S), _inc(O), S.len < 2 ** 30, O.len < 2 ** 30]
        opnd = {"S": (S if present else Arr("dummy_l", z3.IntVal(0)), z3.BoolVal(not present)), "O": (O, z3.BoolVal(False))}
        env = {"left_array": opnd[roles[0]][0], "left_array_none": opnd[roles[0]][1],
               "right_array": opnd[roles[1]][0], "right_array_none": opnd[roles[1]][1]}
        macros = W.get("macros", {})
        tag = "[key-%s-in-receiver]" % ("present" if present else "absent")
        for k, r in enumerate(W["requires"]):
            for j, part in enumerate(conjuncts(r, macros)):
                obls.append(Obl("%s.%s/call-requires#%d.%d%s" % (module, name, k, j, tag), "call-requires", pc, to_z3(part, env, macros)))
        out = _fresh_arr("out")
        out_none = z3.Bool("out_none!%d" % next(_ids))
        env2 = dict(env, out=out, out_none=out_none)
        pc2 = pc + [out.len >= 0, _elem_axiom(out)] + [to_z3(c, env2, macros) for c in W["ensures"]]
        # set_if by its contract: absent iff value None or empty, else holds value
        after_present = z3.And(z3.Not(out_none), out.len > 0)
        # ---- the property's entry-wise set algebra for this key
        x = z3.Int("x!%d" % next(_ids))
        inS = to_z3("mem(x, a, len(a))", {"x": x, "a": S}) if present else z3.BoolVal(False)
        inO = to_z3("mem(x, a, len(a))", {"x": x, "a": O})
        want = {"union": z3.Or(inS, inO), "intersection": z3.And(inS, inO), "difference": z3.And(inS, z3.Not(inO))}[kind]
        inOut = z3.And(after_present, to_z3("mem(x, a, len(a))", {"x": x, "a": out}))
        obls.append(Obl("%s.%s/post-entry-is-set-algebra%s" % (module, name, tag), "post", pc2,
                        z3.ForAll([x], z3.Implies(z3.And(0 <= x, x < 2 ** 32), inOut == want))))
        obls.append(Obl("%s.%s/post-entry-strictly-increasing%s" % (module, name, tag), "post", pc2,
                        z3.Implies(after_present, _inc(out))))
        obls.append(Obl("%s.%s/post-no-empty-entry%s" % (module, name, tag), "post", pc2,
                        z3.Implies(after_present, out.len > 0)))
        obls.append(Obl("%s.%s/canary%s" % (module, name, tag), "canary", pc2, z3.BoolVal(False)))
    return obls
