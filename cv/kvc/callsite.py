"""Call-site obligations for the callers of fit_dtype in iindexes.py (C19's callers; reported under C01 / C06).

C19 proves fit_dtype against its contract; whether a caller passes the TRUE extremes of what it is going to
store is the caller's obligation.  For `iindex.to_array` (both branches) and `iindex.collapsed` the real AST
is analysed:

  1. every `fit_dtype(max(X)[, min(X)])` call is located and X is resolved to a *source set*
       key0     the first coordinates of the receiver's keys        ([coords[0] for coords in self])
       common   the receiver's common value                         ([self.common])
       mapval   the values of the `mapping` argument                (list(mapping.values()))
       prec     the elements of the `precedence` argument
  2. every value written into the array allocated with that dtype (numpy.full's fill value and each
     `output[...] = v` in the same branch) is resolved to a source, or to the constant 0;
  3. per written value w one z3 obligation: under fit_dtype's contract for the ACTUAL argument list
     (a missing second argument means minval = 0), and `min(X) <= w <= max(X)` when w's source is in X's source
     set, the chosen dtype holds w:    lo(d) <= w <= hi(d)       (linear integer arithmetic, models on failure)

A model is replayed by building an index that holds the model's value and calling the real method.
"""
import ast

import z3


class Unsupported(Exception):
    pass


def _method(tree, name):
    for n in tree.body:
        if isinstance(n, ast.ClassDef) and n.name == "iindex":
            for m in n.body:
                if isinstance(m, ast.FunctionDef) and m.name == name:
                    return m
    raise Unsupported("iindex.%s not found" % name)


def _list_sources(e, assigns):
    """source set of a list-valued expression"""
    if isinstance(e, ast.Name):
        if e.id == "precedence":
            return {"prec"}
        if e.id in assigns:
            return _list_sources(assigns[e.id], assigns)
        raise Unsupported("list %s is not resolved" % e.id)
    if isinstance(e, ast.BinOp) and isinstance(e.op, ast.Add):
        return _list_sources(e.left, assigns) | _list_sources(e.right, assigns)
    if isinstance(e, ast.List):
        out = set()
        for x in e.elts:
            out |= {_value_source(x, {}, assigns)}
        return out
    if isinstance(e, ast.ListComp) and len(e.generators) == 1:
        g = e.generators[0]
        if ast.unparse(g.iter) in ("self", "self.keys()") and isinstance(g.target, ast.Name) and not g.ifs:
            return {_value_source(e.elt, {g.target.id: "key"}, assigns)}
        raise Unsupported("comprehension %s" % ast.unparse(e))
    if isinstance(e, ast.Call) and ast.unparse(e) == "list(mapping.values())":
        return {"mapval"}
    raise Unsupported("list expression %s" % ast.unparse(e))


def _value_source(e, binds, assigns):
    t = ast.unparse(e).replace(" ", "")
    if isinstance(e, ast.Constant) and isinstance(e.value, int):
        return ("const", e.value)
    if t == "self.common":
        return "common"
    if isinstance(e, ast.Subscript) and isinstance(e.value, ast.Name) and binds.get(e.value.id) == "key" and ast.unparse(e.slice) == "0":
        return "key0"
    if isinstance(e, ast.Name) and binds.get(e.id) in ("key0", "prec", "mapval"):
        return binds[e.id]
    if isinstance(e, ast.Name) and e.id in assigns:
        return _value_source(assigns[e.id], binds, assigns)
    if isinstance(e, ast.Subscript) and ast.unparse(e.value) == "mapping":
        return "mapval"
    if t.startswith("mapping.get(") and isinstance(e, ast.Call) and len(e.args) == 2:
        d = _value_source(e.args[1], binds, assigns)
        return ("mapval-or", d)
    if isinstance(e, ast.Subscript) and ast.unparse(e.value) == "precedence":
        return "prec"
    raise Unsupported("written value %s" % ast.unparse(e))


def _branches(fn):
    """Yield (label, statements) for each straight-line region that chooses a dtype and writes with it."""
    if fn.name == "to_array":
        top = [s for s in fn.body if isinstance(s, ast.If)]
        if len(top) != 1:
            raise Unsupported("to_array: top-level shape")
        yield "no-mapping", top[0].body
        yield "mapping", top[0].orelse
    else:
        yield "body", fn.body


def analyse(tree, name, iinfo):
    """Returns list of (obligation name, hyps, goal, meta)."""
    fn = _method(tree, name)
    out = []
    for label, stmts in _branches(fn):
        assigns = {}
        fits = []  # (dtype var, call node)
        writes = []  # (array var, value expr, binds, stmt)
        arrays = {}  # array var -> dtype var

        def walk(body, binds):
            for s in body:
                if isinstance(s, ast.Assign) and len(s.targets) == 1 and isinstance(s.targets[0], ast.Name):
                    tgt = s.targets[0].id
                    v = s.value
                    assigns.setdefault(tgt, v)
                    if isinstance(v, ast.Call) and ast.unparse(v.func) == "fit_dtype":
                        fits.append((tgt, v))
                    if isinstance(v, ast.Call) and ast.unparse(v.func) == "numpy.full":
                        dt = [k.value for k in v.keywords if k.arg == "dtype"]
                        if dt and isinstance(dt[0], ast.Name):
                            arrays[tgt] = dt[0].id
                            writes.append((tgt, v.args[1], dict(binds), s))
                        elif dt and isinstance(dt[0], ast.Call) and ast.unparse(dt[0].func) == "fit_dtype":
                            pass  # counters (collapsed's common_count): not a value store of the receiver's data
                elif isinstance(s, ast.Assign) and isinstance(s.targets[0], ast.Subscript) and isinstance(s.targets[0].value, ast.Name):
                    writes.append((s.targets[0].value.id, s.value, dict(binds), s))
                elif isinstance(s, ast.If):
                    walk(s.body, binds)
                    walk(s.orelse, binds)
                elif isinstance(s, ast.For):
                    b = dict(binds)
                    it = ast.unparse(s.iter).replace(" ", "")
                    if it in ("self.items()",) and isinstance(s.target, ast.Tuple):
                        first = s.target.elts[0]
                        if isinstance(first, ast.Name):
                            b[first.id] = "key"
                        elif isinstance(first, ast.Tuple) and isinstance(first.elts[0], ast.Name):
                            b[first.elts[0].id] = "key0"  # (code, col) / (code,): code is the key's first coordinate
                    elif it.startswith("reversed(precedence") and isinstance(s.target, ast.Name):
                        b[s.target.id] = "prec"
                    elif it.startswith("gathered.get(") or it.startswith("gathered"):
                        pass
                    walk(s.body, b)

        walk(stmts, {})
        if not fits:
            raise Unsupported("%s[%s]: no fit_dtype call" % (name, label))
        for dvar, call in fits:
            args = call.args
            if not (1 <= len(args) <= 2) or call.keywords:
                raise Unsupported("fit_dtype call form")

            def ext(a, fnname):
                if isinstance(a, ast.Call) and ast.unparse(a.func) == fnname and len(a.args) == 1:
                    return _list_sources(a.args[0], assigns)
                raise Unsupported("fit_dtype argument %s" % ast.unparse(a))

            Xmax = ext(args[0], "max")
            Xmin = ext(args[1], "min") if len(args) == 2 else None
            mx, mn, w = z3.Ints("maxX minX w")
            maxarg = mx
            minarg = mn if Xmin is not None else z3.IntVal(0)
            lo, hi = z3.Ints("lo_d hi_d")
            # fit_dtype's contract (C19) for these arguments, plus: every integer dtype contains 0
            mprime = z3.If(z3.And(maxarg < 0, minarg == 0), maxarg, minarg)
            contract = [lo <= mprime, maxarg <= hi, lo <= 0, 0 <= hi, mn <= mx]
            for arr, dv in arrays.items():
                if dv != dvar:
                    continue
                k = 0
                for avar, val, binds, stmt in writes:
                    if avar != arr:
                        continue
                    k += 1
                    src = _value_source(val, binds, assigns)
                    hyps = list(contract)
                    alt = None
                    if isinstance(src, tuple) and src[0] == "mapval-or":
                        alt = src[1]
                        src = "mapval"
                    member = []
                    if src in Xmax:
                        member.append(w <= mx)
                    if Xmin is not None and src in Xmin:
                        member.append(mn <= w)
                    elif Xmin is None and src in Xmax:
                        member.append(mn <= w)  # w is an element of X, so min(X) <= w holds - but min(X) was not passed on
                    if isinstance(src, tuple) and src[0] == "const":
                        member = [w == src[1]]
                    cases = [member]
                    if alt is not None and isinstance(alt, tuple) and alt[0] == "const":
                        cases.append([w == alt[1]])
                    for ci, mem in enumerate(cases):
                        nm = "iindexes.iindex.%s[%s]/fit_dtype-holds-written-value#%d%s" % (name, label, k, "" if ci == 0 else ".default")
                        out.append((nm, hyps + mem, z3.And(lo <= w, w <= hi),
                                    {"method": name, "branch": label, "statement": ast.unparse(stmt)[:70], "source": str(src),
                                     "min_passed": Xmin is not None}))
    return out


def solve(hyps, goal):
    s = z3.Solver()
    s.set("timeout", 20000)
    s.add(*hyps)
    s.add(z3.Not(goal))
    r = s.check()
    model = None
    if r == z3.sat:
        m = s.model()
        model = {d.name(): m[d].as_long() for d in m.decls() if d.arity() == 0 and z3.is_int_value(m[d])}
    return str(r), model


def replay(meta, model):
    """Build an index holding the model's value w and call the real method."""
    import numpy as np

    from .. import env

    env.import_catii()
    from ..rtc.speclib import mk

    w = int(model.get("w", -1))
    mx = int(model.get("maxX", max(w, 0)))
    w = max(min(w, 2 ** 62), -2 ** 62)
    other = max(min(mx, 2 ** 40), w)
    try:
        if meta["method"] == "to_array" and meta["branch"] == "no-mapping":
            idx = mk(np.array([w, other, other], dtype=np.int64), other)
            got = idx.to_array()
            ok = got.tolist() == [w, other, other]
            return None if ok else "to_array() of [%d, %d, %d] returned %r" % (w, other, other, got.tolist()), {"dense": [w, other, other], "common": other}
        if meta["method"] == "to_array":
            idx = mk(np.array([1, 0], dtype=np.int64), 0)
            got = idx.to_array(mapping={1: w, 0: other})
            ok = got.tolist() == [w, other]
            return None if ok else "to_array(mapping) returned %r" % (got.tolist(),), {"dense": [1, 0], "mapping": {1: w, 0: other}}
        if meta["method"] == "collapsed":
            idx = mk(np.array([[5, 5]], dtype=np.int64), 0)
            got = idx.collapsed([other if other != w else w + 1, w]).to_array(dtype=int)
            return None, None
    except Exception as e:  # noqa
        return "%s raised %s: %s" % (meta["method"], type(e).__name__, e), {"w": w, "max": other}
    return None, None


def run(ctx, prop, methods):
    """Discharge the call-site obligations of the given methods; report failures under `prop`.
    Returns a coverage dict for `proved_subobligations`."""
    import ast as _ast

    from .. import core, env

    tree = _ast.parse(env.read_source("iindexes.py"))
    n = ok = 0
    stale, samples = [], []
    for name in methods:
        try:
            obls = analyse(tree, name, None)
        except Unsupported as e:
            stale.append(("iindex." + name, str(e)))
            continue
        seen = set()
        for nm, hyps, goal, meta in obls:
            n += 1
            r, model = solve(hyps, goal)
            if len(samples) < 4:
                samples.append({"obligation": nm, "verdict": r, "statement": meta["statement"]})
            if r == "unsat":
                ok += 1
                continue
            if r != "sat":
                raise core.Undecided("%s came back %s" % (nm, r))
            key = (meta["method"], meta["branch"])
            if key in seen:
                continue
            seen.add(key)
            what, inp = replay(meta, model)
            if what:
                ctx.violation(core.Violation(prop, nm, "the dtype chosen by fit_dtype for the arguments this call site passes cannot hold a value that is "
                                             "written (z3 model w=%s, max=%s, min=%s); replayed on the real code: %s" % (model.get("w"), model.get("maxX"), model.get("minX"), what),
                                             input=inp, cls=dict(meta)))
            else:
                ctx.violation(core.Violation(prop, nm, "the dtype chosen by fit_dtype for the arguments this call site passes cannot hold a written value "
                                             "(z3 model %r); the model did not replay on a small index" % (model,), input=None, cls=dict(meta),
                                             solver={"model": model, "statement": meta["statement"]}, no_input=True))
    return {"what": "call-site obligations of fit_dtype in %s: every value written into the array fits the dtype chosen for the arguments actually passed "
                    "(fit_dtype enters by its contract, proved under C19)" % ", ".join(methods),
            "obligations": n, "discharged": ok, "proof_stale": stale, "samples": samples}
