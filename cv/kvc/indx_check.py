"""C10 / C11 / C12, engine-A half: obligations from the real IndxIO.save / IndxIO.load ASTs.

  C11  save: write sequence, field widths/values, size field == payload with NumPy scalar arithmetic
       as it executes, every struct.pack in range, no reachable raise inside `requires`;
       load: accepts every documented layout (any W, R in {1,2,4,8} wide enough), field alignment,
       ptr arithmetic without wrap, each entry is exactly its slice of the row-id field.
  C12  on every strict prefix F[:k] of a documented file no path of load returns or even gets past
       mmap; rests on C11's size-field obligation (included).
  C10  composition: save's postcondition implies load's precondition (then load's postcondition is
       the identity on (entries, common, dtype)).

A failed obligation that comes back `unknown` (quantified summation axioms) is re-solved on ground
instances of the axioms for n <= 3 to obtain a counter-model, which is replayed on the real code
(stub arrays whose tofile() seeks, so totals of 2**30 rows are not materialised).
"""
import ast
import os
import struct
import tempfile
import time

import z3

from .. import core, env
from . import discharge, indxexec as X, pyexec


# ------------------------------------------------------------------ probes of the library axioms
def probes():
    import mmap

    import numpy as np

    ok = []
    a = np.uint32(5)
    ok.append(type(1 + a) is np.uint32 and type(a * 4) is np.uint32)
    old = np.seterr(over="ignore")
    try:
        ok.append(int(np.uint32(2 ** 32 - 1) + np.uint32(1)) == 0)
        ok.append(type(sum(np.array([1, 2], dtype=np.uint32))) is np.uint32)
        ok.append(int(sum(np.array([2 ** 32 - 1, 2], dtype=np.uint32))) == 1)
        ok.append(type(sum(np.array([], dtype=np.uint32))) is int)
    finally:
        np.seterr(**old)
    try:
        np.uint32(5) + 2 ** 40
        ok.append(False)
    except OverflowError:
        ok.append(True)
    try:
        np.array([2 ** 32], dtype=np.uint32)
        ok.append(False)
    except OverflowError:
        ok.append(True)
    ok.append(np.array([]).dtype == np.float64 and np.array([]).ndim == 1)
    ok.append(np.array([(1, 2), (3, 4)]).dtype == np.int64 and np.array([(1, 2)]).shape == (1, 2))
    ok.append(all(type(x) is int for x in np.array([[1, 2]], dtype=np.uint64).tolist()[0]))
    ok.append(type(next(iter(np.array([3], dtype=np.uint8)))) is np.uint8)
    for fmt, n in (("<Q", 8), ("<L", 4), ("<H", 2), ("<B", 1)):
        ok.append(struct.calcsize(fmt) == n)
        try:
            struct.pack(fmt, 2 ** (8 * n))
            ok.append(False)
        except struct.error:
            ok.append(True)
    try:
        struct.unpack("<Q", b"1234567")
        ok.append(False)
    except struct.error:
        ok.append(True)
    try:
        struct.unpack_from("<L", b"123456", offset=3)
        ok.append(False)
    except struct.error:
        ok.append(True)
    with tempfile.TemporaryDirectory(prefix="cvprobe-") as td:
        p = os.path.join(td, "x")
        with open(p, "wb") as f:
            f.write(b"x" * 20)
        with open(p, "rb") as f:
            ok.append(f.read(4) == b"xxxx" and len(f.read(100)) == 16 and f.read(4) == b"")
            try:
                mmap.mmap(f.fileno(), 21, flags=mmap.MAP_SHARED, prot=mmap.PROT_READ)
                ok.append(False)
            except ValueError:
                ok.append(True)
            m0 = mmap.mmap(f.fileno(), 0, access=mmap.ACCESS_READ)  # length 0: the whole file
            ok.append(len(m0) == 20)
            m0.close()
            m = mmap.mmap(f.fileno(), 20, flags=mmap.MAP_SHARED, prot=mmap.PROT_READ)
            try:
                np.ndarray(shape=(6,), buffer=m, dtype=np.uint32, offset=0)
                ok.append(False)
            except TypeError:
                ok.append(True)
            ok.append(np.ndarray(shape=(2,), buffer=m, dtype=np.uint8, offset=18).tolist() == [120, 120])
            m.close()
    if not all(ok):
        raise core.CheckerBroken("library probe failed (NEP 50 promotion / struct / mmap / ndarray axioms): %r" % (ok,))
    return len(ok)


# ------------------------------------------------------------------ generation
def _load_restructured():
    """Is the statement skeleton of IndxIO.load different from the recorded one (same notion as for the kernels)?"""
    import ast as _ast
    import json as _json

    from . import kernels_check

    try:
        rec = _json.load(open(kernels_check.SKELETONS)).get("IndxIO.load")
        fn = pyexec.get_function(_ast.parse(env.read_source("indxio.py")), "IndxIO.load")
        return rec is not None and kernels_check.skeleton(fn) != rec
    except Exception:  # noqa
        return True


def generate():
    src = env.read_source("indxio.py")
    tree = ast.parse(src)
    out = {"stale": [], "obls": [], "meta": {}}
    sym = X.Sym()
    out["obls"] += [_tag(o, "lemma") for o in sym.lemma_step_obligations("indxio.IndxIO")]
    try:
        fn = pyexec.get_function(tree, "IndxIO.save")
        out["meta"]["indxio.IndxIO.save"] = {"source_sha256": env.sha(ast.get_source_segment(src, fn))}
        saves = {}
        for nzero in (True, False):
            ex = X.run_save(fn, sym, nzero)
            saves[nzero] = ex
            out["obls"] += [_tag(o, "save") for o in ex.obls]
        out["saves"] = saves
    except (X.Unsupported, pyexec.Unsupported, KeyError, AttributeError, IndexError) as e:
        out["stale"].append(("IndxIO.save", "%s: %s" % (type(e).__name__, e)))
    fnl = None
    try:
        fnl = pyexec.get_function(tree, "IndxIO.load")
        out["meta"]["indxio.IndxIO.load"] = {"source_sha256": env.sha(ast.get_source_segment(src, fnl))}
        syml = X.Sym()
        exl = X.run_load(fnl, syml, torn=False)
        out["obls"] += [_tag(o, "load") for o in exl.obls]
        out["load_outcomes"] = [k for k, _ in exl.outcomes]
    except (X.Unsupported, pyexec.Unsupported, KeyError, AttributeError, IndexError) as e:
        out["stale"].append(("IndxIO.load", "%s: %s" % (type(e).__name__, e)))
        part = getattr(e, "partial", None)
        if part is not None:
            # obligations generated before the unsupported construct (field alignment, widths, overflow of what was read so far)
            out["obls"] += [_tag(o, "load") for o in part.obls]
    # the prefix run stops where the file is mapped: it is generated on its own, whatever follows the mapping
    try:
        if fnl is not None:
            symt = X.Sym()
            ext = X.run_load(fnl, symt, torn=True)
            for o in ext.obls:
                o.name = o.name.replace("IndxIO.load/", "IndxIO.load[prefix]/")
            out["obls"] += [_tag(o, "torn") for o in ext.obls]
            out["torn_outcomes"] = [k for k, _ in ext.outcomes]
    except (X.Unsupported, pyexec.Unsupported, KeyError, AttributeError, IndexError) as e:
        out["stale"].append(("IndxIO.load[prefix]", "%s: %s" % (type(e).__name__, e)))
    # ---- composition lemma (C10): save's postcondition implies load's precondition
    if "saves" in out and not any(s[0] == "IndxIO.load" for s in out["stale"]):
        for nzero, exs in out["saves"].items():
            names = [w for w, _, _ in exs.log]
            if len(exs.log) != 11:
                continue
            lx = X.LoadExec(sym, torn=False)
            req = [r for r in lx.requires() if not z3.is_quantifier(r) and not any(r.eq(a) for a in sym.axioms)]
            pc = X.save_requires(sym, nzero) + [c for c in _fit_facts(exs)] + [
                sym.W == exs.log[5][2], lx.dfield == (z3.IntVal(0) if nzero else sym.d), lx.T == exs.pos,
            ]
            tag = "[n=0]" if nzero else "[n>0]"
            for j, r in enumerate(req):
                out["obls"].append(_tag(X.Obl("indxio.roundtrip%s/save-post-implies-load-requires#%d" % (tag, j), "post", pc, r,
                                              {"site": str(r)[:80]}), "compose"))
    return out, sym


def _fit_facts(exs):
    """The facts the save execution learnt from fit_dtype's contract (they live in its obligations' pcs)."""
    for o in exs.obls:
        if o.name.endswith("post-index-word-size-narrowest"):
            return [h for h in o.pc if "W!fit" in str(h)]
    return []


def _tag(o, group):
    o.meta["group"] = group
    return o


# ------------------------------------------------------------------ ground counter-models for `unknown`
def ground_model(ob, nmax=3):
    """Re-solve hypotheses AND NOT goal with the quantified summation axioms replaced by their ground
    instances at 0..nmax (and at every loop counter), n <= nmax.  Sound for *refutation* only: a model
    of the ground problem that replays on the real code is a genuine counterexample."""
    S = z3.Function("S", z3.IntSort(), z3.IntSort())
    lens = z3.Function("lens", z3.IntSort(), z3.IntSort())
    n, R = z3.Int("n"), z3.Int("R")
    s = z3.Solver()
    s.set("timeout", 20000)
    consts = set()
    for h in ob.pc:
        if z3.is_quantifier(h):
            continue
        s.add(h)
        _consts(h, consts)
    _consts(ob.goal, consts)
    if z3.is_quantifier(ob.goal):
        return None
    s.add(z3.Not(ob.goal))
    pts = [z3.IntVal(i) for i in range(nmax + 2)] + [c for c in consts if str(c).startswith("m!")]
    s.add(S(0) == 0, n <= nmax)
    for t in pts:
        s.add(z3.Implies(t >= 0, z3.And(S(t + 1) == S(t) + lens(t), lens(t) >= 0, lens(t) <= 2 ** 32 - 1, lens(t) < X.maxval(R * 8), S(t) >= 0)))
    if s.check() != z3.sat:
        return None
    m = s.model()
    out = {}
    for nm in ("n", "d", "c", "maxK", "W", "R", "T", "k", "dfield"):
        v = m.eval(z3.Int(nm), model_completion=True)
        out[nm] = v.as_long()
    out["lens"] = [m.eval(lens(z3.IntVal(i)), model_completion=True).as_long() for i in range(max(0, min(out["n"], nmax)))]
    return out


def _consts(e, acc):
    if z3.is_const(e) and e.decl().kind() == z3.Z3_OP_UNINTERPRETED:
        acc.add(e)
    for ch in e.children():
        _consts(ch, acc)


# ------------------------------------------------------------------ replay on the real code
def replay_save(model):
    """Run the real IndxIO.save on stub arrays of the model's lengths. Returns failure text or None."""
    env.import_catii()
    from catii.indxio import IndxIO
    import numpy as np
    from ..rtc.drive_indx import Stub

    n, d = model["n"], max(1, min(model.get("d", 1), 4))
    lens = (model.get("lens") or [])[:n]
    lens += [0] * (n - len(lens))
    mk = max(0, model.get("maxK", 0))
    keys = [tuple([i] + [0] * (d - 1)) for i in range(n)]
    if n:
        keys[-1] = tuple(list(keys[-1][:-1]) + [max(mk, keys[-1][-1])]) if d > 1 else (max(mk, n - 1),)
    ent = {k: Stub(ln) for k, ln in zip(keys, lens)}
    common = max(0, model.get("c", 0))
    W = 1
    mx = max([common] + [c for k in keys for c in k])
    while mx >= 2 ** (8 * W):
        W *= 2
    payload = 1 + 4 + 1 + W + n * (d if n else 0) * W + 1 + 4 * n + 4 * sum(lens)
    with tempfile.TemporaryDirectory(prefix="cvreplay-") as td:
        p = os.path.join(td, "f")
        try:
            with open(p, "wb") as f:
                IndxIO.save(f, ent, common, np.dtype(np.uint32))
        except Exception as e:  # noqa
            return "save raised %s: %s (entries with lengths %r, common %d)" % (type(e).__name__, e, lens, common), {"entry_lengths": lens, "keys": [list(k) for k in keys], "common": common}
        with open(p, "rb") as f:
            f.seek(8)
            (size,) = struct.unpack("<Q", f.read(8))
        if size != payload:
            return "size field %d but payload is %d bytes" % (size, payload), {"entry_lengths": lens, "keys": [list(k) for k in keys], "common": common}
    return None, None


def replay_load(model):
    """Encode the model's data with the independent encoder in the model's (W, R) and load it."""
    env.import_catii()
    from catii.indxio import IndxIO
    from ..rtc import spec_indx

    n = model["n"]
    W, R = model.get("W", 1), model.get("R", 4)
    if W not in (1, 2, 4, 8) or R not in (1, 2, 4, 8):
        return None, None
    lens = (model.get("lens") or [])[:n]
    lens += [0] * (n - len(lens))
    if sum(lens) > 200000:
        return None, None
    d = max(1, min(model.get("dfield", 1), 3))
    ent, start = [], 0
    for i, ln in enumerate(lens):
        ent.append((tuple([i] + [0] * (d - 1)), list(range(start, start + ln))))
        start += ln
    common = min(max(0, model.get("c", 0)), 2 ** (8 * W) - 1)
    if any(x >= 2 ** (8 * R) for _, r in ent for x in r) or n >= 2 ** (8 * W):
        return None, None
    data = spec_indx.encode(ent, common, W=W, R=R)
    desc = {"entries": [[list(k), "range(%d, %d)" % (r[0], r[-1] + 1) if r else "[]"] for k, r in ent], "common": common, "W": W, "R": R}
    with tempfile.TemporaryDirectory(prefix="cvreplay-") as td:
        p = os.path.join(td, "f")
        with open(p, "wb") as f:
            f.write(data)
        try:
            with open(p, "rb") as f:
                got, gc, gdt = IndxIO.load(f)
        except Exception as e:  # noqa
            return "load raised %s: %s on a documented file (W=%d, R=%d, lengths %r)" % (type(e).__name__, e, W, R, lens), desc
        if gc != common or list(got) != [k for k, _ in ent] or any(got[k].tolist() != r for k, r in ent):
            bad = [k for k, r in ent if k not in got or got[k].tolist() != r]
            return "load returned wrong data for a documented file (W=%d, R=%d, lengths %r): entries %r differ" % (W, R, lens, bad), desc
    return None, None


def replay_torn(model):
    """Cut a real saved file at the model's k and see whether load returns."""
    env.import_catii()
    from catii.indxio import IndxIO
    import numpy as np

    with tempfile.TemporaryDirectory(prefix="cvreplay-") as td:
        p = os.path.join(td, "f")
        with open(p, "wb") as f:
            IndxIO.save(f, {(1,): np.array([0, 2], dtype=np.uint32), (2,): np.array([1], dtype=np.uint32)}, 0, np.dtype(np.uint32))
        data = open(p, "rb").read()
        for k in range(len(data)):
            with open(p, "wb") as f:
                f.write(data[:k])
            try:
                with open(p, "rb") as f:
                    r = IndxIO.load(f)
                return "load returned %d entries from the first %d of %d bytes" % (len(r[0]), k, len(data)), {"cut": k, "length": len(data)}
            except Exception:
                pass
    return None, None


GROUPS = {
    "C11": ("lemma", "save", "load"),
    "C12": ("torn", "save", "lemma"),
    "C10": ("compose", "load", "save", "lemma"),
}
# for C12 / C10 only these save obligations are *theirs* (the rest are reported under C11)
OWN = {
    "C12": lambda ob: ob.meta["group"] == "torn" or "size-field-equals-payload" in ob.name or "post-total-length" in ob.name,
    "C10": lambda ob: ob.meta["group"] == "compose" or ob.meta["group"] == "load",
    "C11": lambda ob: True,
}


def run(ctx, which):
    nprobe = probes()
    gen, sym = generate()
    obls = [o for o in gen["obls"] if o.meta["group"] in GROUPS[which]]
    if not obls and not gen["stale"]:
        raise core.CheckerBroken("zero obligations")
    results = discharge.discharge(obls) if obls else []
    real = [r for r in results if r.kind != "canary"]
    failed = [r for r in real if not r.discharged]
    bad_canaries = [r for r in results if r.kind == "canary" and not r.discharged]
    if not failed and bad_canaries:
        raise core.CheckerBroken("vacuity: `False` provable at %s" % ", ".join(r.name for r in bad_canaries[:3]))
    # one report per function group: a replayed counter-model if any failed obligation yields one,
    # otherwise a single no-failing-input-found report naming every open obligation of the group
    bygroup = {}
    for r in failed:
        if OWN[which](r.ob):
            bygroup.setdefault(r.ob.meta["group"], []).append(r)
    for grp, rs in bygroup.items():
        what, inp, hit = None, None, None
        for r in rs:
            gm = ground_model(r.ob)
            if gm is None:
                continue
            if grp == "save":
                what, inp = replay_save(gm)
            elif grp == "load":
                what, inp = replay_load(gm)
            elif grp == "torn":
                what, inp = replay_torn(gm)
            if what:
                hit = r
                break
        if what is None:
            probes_ = {
                "torn": [{}],
                "load": [{"n": 2, "W": 1, "R": 1, "lens": [200, 100], "c": 0, "dfield": 1}, {"n": 2, "W": 1, "R": 2, "lens": [40000, 30000], "c": 0, "dfield": 1},
                         {"n": 3, "W": 2, "R": 8, "lens": [1, 2, 3], "c": 300, "dfield": 2}],
                "save": [{"n": 1, "d": 1, "c": 0, "maxK": 0, "lens": [1073741758]}, {"n": 2, "d": 2, "c": 300, "maxK": 70000, "lens": [3, 2]}],
            }.get(grp, [])
            fn = {"torn": replay_torn, "load": replay_load, "save": replay_save}.get(grp)
            for pr in probes_:
                what, inp = fn(pr)
                if what:
                    hit = rs[0]
                    break
        others = [x.name for x in rs]
        if what is not None:
            ctx.violation(core.Violation(which, hit.name, "obligation not discharged (%s); counter-model replayed on the real code: %s; open obligations of this function: %s"
                                         % (hit.verdict, what, ", ".join(others[:8])), input=inp, cls=dict(inp or {}, group=grp)))
            continue
        r = rs[0]
        if grp == "torn" and all(x.name.endswith("torn-nothing-continues-past-mmap") for x in rs) and _load_restructured():
            # This obligation is conservative by construction (the prefix run stops where the file is mapped and asks that no
            # path gets there).  On a restructured load (statement skeleton differs from contracts/kernel_skeletons.json) that
            # still rejects every prefix by a check AFTER the mapping it is open without the property being violated; no
            # prefix of the probe files loads.  Reported as proof_stale; the bounded run (every cut of every file) decides.
            stale_torn = "IndxIO.load[prefix]: load was restructured and %s is open; no prefix of the probe files loads" % r.name.split("/")[-1]
            ctx.notes.append("proof_stale: " + stale_torn)
            gen["stale"].append(("IndxIO.load[prefix]", stale_torn))
            continue
        ctx.violation(core.Violation(
            which, r.name, "obligation generated from the current source is not discharged (%s by %s); no failing input found by ground "
            "instantiation (n <= 3) or the probe inputs; open obligations: %s" % (r.verdict, r.backend, ", ".join(others[:8])), input=None, cls={"group": grp},
            solver={"open_obligations": [{"name": x.name, "verdict": x.verdict, "backend": x.backend, "detail": x.detail, "site": x.ob.meta.get("site", ""),
                                          "goal": str(x.ob.goal)[:300]} for x in rs[:10]]}, no_input=True))

    fns = dict(gen["meta"])
    for k in fns:
        grp = "save" if k.endswith("save") else "load"
        rs = [r for r in real if r.ob.meta["group"] in ((grp,) if grp == "save" else ("load", "torn"))]
        fns[k].update(obligations=len(rs), discharged=sum(1 for r in rs if r.discharged))
    ctx.coverage.update({
        "obligations": len(real), "discharged": sum(1 for r in real if r.discharged),
        "checker_cmd": "./check %s (cv/kvc/indxexec.py: abstract execution of the working tree's IndxIO.save/load ASTs with typed integers; z3 %s, cvc5 for unknowns)" % (which, z3.get_version_string()),
        "trusted_base": [
            "library axioms for struct.pack/unpack(_from), mmap.mmap, file.read/tell, numpy.array/ndarray(buffer=)/tofile/tolist/astype and NEP-50 scalar promotion (%d probes run against the installed libraries this run)" % nprobe,
            "fit_dtype / IndxIO.format / IndxIO.dtype enter by their contracts (proved under C19)",
            "summation lemmas S(t) <= t*(2**32-1), S monotone: induction *steps* are discharged obligations, the induction principle is assumed",
            "files smaller than 2**53 bytes (stated bound; int(x / y) uses float division)",
            "n < 2**32 entries, each entry shorter than 2**32 row ids (the full-range single entry does not fit the lengths field)",
            "z3 / cvc5 soundness",
        ],
        "functions_under_contract": fns,
        "groups": {g: sum(1 for r in real if r.ob.meta["group"] == g) for g in GROUPS[which]},
        "canaries": {"total": len(results) - len(real), "not_provable": len(results) - len(real) - len(bad_canaries)},
        "load_outcomes": gen.get("load_outcomes"), "torn_outcomes": gen.get("torn_outcomes"),
        "solver_seconds_total": round(sum(r.seconds for r in results), 2),
        "proof_stale": gen["stale"],
        "proved_samples": [{"obligation": r.name, "backend": r.backend, "verdict": r.verdict, "seconds": round(r.seconds, 3)} for r in real[:: max(1, len(real) // 10)]][:12],
    })
    return gen["stale"]
