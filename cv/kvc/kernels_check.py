"""C08 / C09 pipeline: obligations from the working tree's set_operations.pyx -> discharge ->
(counter-model | witness search) -> replay on the real code -> verdicts (DESIGN §2, §5)."""
import json
import os
import subprocess
import sys
import time

from .. import core, env
from . import discharge, kexec, kwitness, manyexec, norm, spec

BASELINE = os.path.join(core.VERIF, "contracts", "baseline_obligations.json")

PARAMS = {
    "set_intersect_merge_np": ["left_array", "right_array"],
    "set_union_merge_np": ["left_array", "right_array"],
    "set_difference_merge_np": ["left_array", "right_array"],
    "intersection": ["left_array", "right_array"],
    "union": ["left_array", "right_array", "copy_left", "copy_right"],
    "difference": ["left_array", "right_array", "copy"],
    "set_union_merge_many": ["arrays"],
}
MANY = "set_union_merge_many"
MANY_TRACE_WITNESSES = [
    ([[1, 2], [2, 3]],), ([[5], [5], [5]],), ([[0, 4, 9], [], [1, 4], [2 ** 32 - 1]],), ([[2 ** 32 - 1]],), ([[1, 5], [5, 6, 7]],),
    ([[3, 4], [1, 2], [0, 9]],), ([[], []],), ([[7]],), ([[1, 3, 5, 7], [2, 3, 6], [3], [0, 7, 8]],),
]

TRACE_WITNESSES = [
    ([1], [1]), ([1, 3, 5], [1, 3, 5]), ([0, 2, 4, 6], [1, 2, 3, 6, 7]), ([1, 2, 3, 6, 7], [0, 2, 4, 6]),
    ([0], [2 ** 32 - 1]), ([2 ** 32 - 1], [0]), ([1, 2], [2, 3, 4]), ([2, 3, 4], [1, 2]), ([5], [1, 5, 9]),
    ([1, 5, 9], [5]), ([], []), ([], [1]), ([1], []), ([1, 4], [2, 3]), ([2, 3], [1, 4]), ([1, 2, 3], [3]),
    ([3], [1, 2, 3]), ([1, 3], [2, 3, 4, 5]), ([2, 3, 4, 5], [1, 3]), ([0, 1, 2, 5], [1, 5, 7, 8]),
    ([1, 5, 7, 8], [0, 1, 2, 5]), ([1, 2, 9], [3, 4, 9]), ([3, 4, 9], [1, 2, 9]), ([1, 9], [2, 3, 4]),
]


def _kw(req):
    """Run cv.kvc.kwitness in a subprocess (own import of the scratch build / variant)."""
    req = dict(req, verif=core.VERIF)
    e = dict(os.environ, PYTHONPATH=core.VERIF)
    r = subprocess.run([sys.executable, "-m", "cv.kvc.kwitness"], input=json.dumps(req), capture_output=True,
                       text=True, env=e, timeout=900)
    if r.returncode != 0:
        raise core.CheckerBroken("kwitness failed: " + r.stderr[-2000:])
    return json.loads(r.stdout)


def probes():
    """Library axioms used by the executor, probed on the installed NumPy (failure => exit 3)."""
    import numpy as np

    a = np.array([1, 2], dtype=np.uint32)
    b = np.array([7], dtype=np.uint32)
    c = np.concatenate((a, b))
    ok = c.tolist() == [1, 2, 7] and c.dtype == np.uint32
    ok &= np.asarray(memoryview(a)).tolist() == [1, 2]
    e = np.empty(3, dtype=np.uint32)
    ok &= e.shape == (3,) and e.dtype == np.uint32
    e[:2] = a
    ok &= e[:2].tolist() == [1, 2] and len(e[:0]) == 0
    try:
        e[:3] = a  # shape mismatch must raise, not silently copy
        ok = False
    except ValueError:
        pass
    if not ok:
        raise core.CheckerBroken("NumPy probe failed: concatenate/asarray/empty/slice axioms do not hold")
    return ["numpy.concatenate", "numpy.asarray", "numpy.empty", "slice assignment"]


def model_to_args(model, params, contract):
    args = []
    for p in params:
        kind = contract.get("params", {}).get(p, "array")
        if kind == "bool":
            args.append(bool(model.get("arg_" + p, False)))
            continue
        if ("len_" + p) not in model:
            args.append(None)
            continue
        n = model["len_" + p]
        if n > 4096:
            return None
        arr = model.get(p, {}) or {}
        args.append([int(arr.get(str(i), arr.get("else", 0))) % (2 ** 32) if isinstance(arr.get(str(i), arr.get("else", 0)), int) else 0
                     for i in range(n)])
    return args


def none_case_args(name, args, obname):
    """Obligation names of the wrappers carry the None-case tag (e.g. post@p3NA...)."""
    return args


SKELETONS = os.path.join(core.VERIF, "contracts", "kernel_skeletons.json")


def skeleton(fn):
    """The statement skeleton of a kernel: statement kinds, their nesting and order (assignment targets by kind) - every
    expression is dropped.  The sidecar's loop invariants were written for ONE skeleton (recorded in
    contracts/kernel_skeletons.json).  A change of an operator, a constant, an index expression or a guard keeps it;
    a restructuring (moved / added / removed statements, other loop forms) does not."""
    import ast as _ast
    import hashlib

    def sk(node):
        kids = []
        for name, val in _ast.iter_fields(node):
            if isinstance(val, list) and val and isinstance(val[0], _ast.stmt):
                kids.append((name, [sk(x) for x in val]))
        extra = ""
        if isinstance(node, _ast.Assign):
            extra = ",".join(type(t).__name__ for t in node.targets)
        elif isinstance(node, _ast.AugAssign):
            extra = type(node.target).__name__
        return (type(node).__name__, extra, kids)

    return hashlib.sha256(repr(sk(fn)).encode()).hexdigest()[:16]


def load_skeletons():
    if os.path.exists(SKELETONS):
        with open(SKELETONS) as f:
            return json.load(f)
    return {}


def load_baseline():
    if os.path.exists(BASELINE):
        with open(BASELINE) as f:
            return json.load(f)
    return {}


def run(ctx, which):
    from contracts import kernels as K

    t_start = time.time()
    pyx = env.read_source("set_operations.pyx")
    norm_failed = None
    try:
        n = norm.normalise(pyx)
        ndecl, mism = norm.crosscheck_types(pyx, n)
        if mism:
            raise ValueError("normaliser type environment differs from Cython's parser: %r" % (mism,))
    except (SyntaxError, ValueError) as e:
        # the .pyx uses Cython syntax outside the normaliser's stated subset (e.g. a DEF constant): no obligation can be
        # generated from it. That is not evidence of a violation: every function falls back to the bounded run-time
        # rendering of its contract (DESIGN 5.3) and the evidence says proof_stale.
        norm_failed = "%s: %s" % (type(e).__name__, e)
        n = norm.Normalised()
        n.py_text, n.funcs, n.flags, n.dropped = "", {}, {}, []
        ndecl = 0
    agree = spec.selfcheck()
    probed = probes()

    if which == "C09":
        tables = [("SAFETY", K.SAFETY), ("SAFETY_MANY", K.SAFETY_MANY)]
        report_kinds = None  # everything generated under the SAFETY contract belongs to C09
        variant = "boundscheck"
        scope = "any"
    else:
        tables = [("FUNCTIONAL", K.FUNCTIONAL), ("WRAPPERS", K.WRAPPERS), ("FUNCTIONAL_MANY", K.FUNCTIONAL_MANY)]
        report_kinds = None
        variant = "prod"
        scope = "increasing"

    baseline = load_baseline()
    rebase = os.environ.get("CV_REBASELINE") == "1"
    skeletons = load_skeletons()
    skel_now = {f: skeleton(node) for f, node in n.funcs.items()}
    restructured = {f for f in skel_now if f in skeletons and skeletons[f] != skel_now[f]}
    not_binding = []  # (table, function, open obligations): invariants fail on a restructured body and nothing replays
    # alternative sidecars: the invariants of another statement skeleton of the same kernel (same requires / ensures)
    alt_used = {}
    for fname, alts in getattr(K, "ALTERNATIVES", {}).items():
        for alt in alts:
            want = skeletons.get(alt["skeleton"]) if alt["skeleton"].startswith("@") else alt["skeleton"]
            if fname in skel_now and want == skel_now[fname]:
                alt_used[fname] = alt
                restructured.discard(fname)
    def contract_for(tname, fname, contract):
        alt = alt_used.get(fname)
        if alt is not None and tname in alt:
            return dict(contract, loops=alt[tname])
        return contract
    new_baseline = {}
    all_results = []
    per_function = {}
    stale = []
    executors = {}
    for tname, table in tables:
        for fname, contract in table.items():
            key = "%s:%s" % (tname, fname)
            try:
                if norm_failed:
                    raise kexec.Unsupported("set_operations.pyx is outside the normaliser's subset (%s)" % norm_failed)
                if fname not in n.funcs:
                    raise kexec.Unsupported("function %s not found in set_operations.pyx" % fname)
                contract = contract_for(tname, fname, contract)
                if fname == MANY:
                    ex = manyexec.ManyExec(n, fname, contract)
                else:
                    ex = kexec.KernelExec(n, fname, contract, callees=K.CALLEES)
                obls = ex.run()
                executors[key] = ex
            except (kexec.Unsupported, spec.SpecError, KeyError, AttributeError, TypeError) as e:
                stale.append((tname, fname, "%s: %s" % (type(e).__name__, e)))
                continue
            if not obls:
                raise core.CheckerBroken("zero obligations generated for %s" % fname)
            for ob in obls:
                ob.meta.update(table=tname, fname=fname)
            all_results.append((key, obls))

    flat = [ob for _, obls in all_results for ob in obls]
    results = discharge.discharge(flat) if flat else []
    byfn = {}
    for r in results:
        byfn.setdefault("%s:%s" % (r.ob.meta["table"], r.ob.meta["fname"]), []).append(r)
        new_baseline["%s|%s" % (r.ob.meta["table"], r.name)] = r.hash

    # ---- set_union_merge_many: bounded run of the real code (covers the filter of empty arrays and the empty list, which the
    #      proof takes as given, and provides failing inputs when an obligation of the proof fails)
    many = _kw({"op": "search_many", "variant": variant, "maxk": 3 if ctx.tier != "thorough" else 4})

    # ---- verdicts
    undecided = []
    for key, rs in byfn.items():
        tname, fname = key.split(":")
        contract = dict(tables)[tname][fname]
        params = PARAMS[fname]
        real = [r for r in rs if r.kind != "canary"]
        failed = [r for r in real if not r.discharged]
        bad_canaries = [r for r in rs if r.kind == "canary" and not r.discharged]
        per_function[key] = {
            "obligations": len(real), "discharged": len(real) - len(failed),
            "canaries": len(rs) - len(real), "canaries_ok": len(rs) - len(real) - len(bad_canaries),
            "solver_s": round(sum(r.seconds for r in rs), 2),
            "slowest": max(((round(r.seconds, 2), r.name) for r in real), default=(0, ""))[1],
            "backends": sorted({r.backend for r in real if r.backend}),
            "source_sha256": env.sha(_segment(n, fname)),
        }
        if not failed and bad_canaries:
            raise core.CheckerBroken("vacuity: `False` is provable at %s (contradictory requires/invariant)"
                                     % ", ".join(r.name for r in bad_canaries[:3]))
        if not failed:
            continue
        if fname == MANY:
            # the proof speaks about ghost symbols; failing inputs come from the bounded run of the real code
            hits = [h for h in many["hits"] if which != "C09" or (isinstance(h["outcome"], str) and "IndexError" in h["outcome"])]
            if hits:
                h = hits[0]
                ctx.violation(core.Violation(
                    which, failed[0].name, "obligation not discharged (%s); the bounded run of the real code fails: set_union_merge_many(%s) -> %s, expected %s; "
                    "open obligations: %s" % (failed[0].verdict, h["args"], h["outcome"], h["expected"], ", ".join(x.name.split("/")[-1] for x in failed[:6])),
                    input={"function": MANY, "args": h["args"], "build": variant}, cls={"function": MANY, "class": h["class"]}))
            elif fname in restructured:
                not_binding.append((tname, fname, [x.name for x in failed[:6]]))
            else:
                changed = [r for r in failed if baseline.get("%s|%s" % (tname, r.name)) != r.hash]
                r = (changed or failed)[0]
                ctx.violation(core.Violation(
                    which, r.name, "obligation generated from the current source is not discharged (%s by %s); no failing input in the bounded scope "
                    "(%d lists); open obligations: %s" % (r.verdict, r.backend, many["calls"], ", ".join(x.name.split("/")[-1] for x in failed[:6])),
                    input=None, cls={"function": MANY, "kind": r.kind},
                    solver={"verdict": r.verdict, "backend": r.backend, "detail": r.detail, "site": r.ob.meta.get("site", "")}, no_input=True))
            continue
        # (a) counter-models, replayed on the real code built from the working tree
        reported = False
        for r in failed:
            if r.verdict == "sat" and r.model:
                args = model_to_args(r.model, params, contract)
                if args is None:
                    continue
                args = _apply_none_tag(r.name, params, contract, args)
                rep = _kw({"op": "replay", "table": tname, "fname": fname, "params": params, "args": args,
                           "variant": variant})
                if rep["requires"] and rep["failed"]:
                    ctx.violation(core.Violation(
                        which, r.name,
                        "obligation refuted by %s; counter-model replayed on the real code (%s build): %s(%s) -> %s; failed: %s"
                        % (r.backend, variant, fname, ", ".join(map(_short, args)), rep["outcome"][:2], rep["failed"][:2]),
                        input={"function": fname, "args": args, "build": variant, "site": r.ob.meta.get("site", "")},
                        cls={"function": fname, "kind": r.kind, "lens": [len(a) if isinstance(a, list) else None for a in args]},
                    ))
                    reported = True
                    break
        if reported:
            continue
        # (b) witness search on the real code under the run-time rendering of the same contract
        hit = _kw({"op": "search", "table": tname, "fname": fname, "params": params, "variant": variant, "scope": scope})
        if hit["hits"]:
            h = hit["hits"][0]
            ctx.violation(core.Violation(
                which, failed[0].name,
                "obligation not discharged (%s); witness search on the real code found %s(%s) -> %s; failed: %s"
                % (failed[0].verdict, fname, ", ".join(map(_short, h["args"])), h["outcome"][:2], h["failed"][:2]),
                input={"function": fname, "args": h["args"], "build": variant},
                cls={"function": fname, "kind": failed[0].kind, "lens": [len(a) if isinstance(a, list) else None for a in h["args"]]},
            ))
            continue
        # (c) nothing replays
        if fname in restructured:
            # The statement skeleton is not the one the sidecar's invariants were written for: an invariant that is no longer
            # inductive says nothing about the property (a failed proof is "undecided", not "violated").  The contract is not
            # re-established deductively for this body; the bounded run above (exhaustive small scope + dense + block
            # families, %d calls) found no failing input.  Reported as proof_stale / level bounded, not as a violation.
            not_binding.append((tname, fname, [x.name for x in failed[:6]]))
            per_function[key].update(proof_stale=True, level="bounded", bounded_calls=hit["calls"], in_requires=hit["in_requires"],
                                     why="statement skeleton differs from the one the sidecar was written for; open: %s" % ", ".join(x.name.split("/")[-1] for x in failed[:4]))
            continue
        changed = [r for r in failed if baseline.get("%s|%s" % (tname, r.name)) != r.hash]
        if changed or not baseline:
            r = changed[0] if changed else failed[0]
            ctx.violation(core.Violation(
                which, r.name,
                "obligation generated from the current source is not discharged (%s by %s) and differs from the "
                "baseline obligation; no failing input found in the witness scope (%d calls)" % (r.verdict, r.backend, hit["calls"]),
                input=None, cls={"function": fname, "kind": r.kind},
                solver={"verdict": r.verdict, "backend": r.backend, "detail": r.detail, "model": r.model,
                        "site": r.ob.meta.get("site", ""), "smt2_sha": r.hash,
                        "other_open_obligations": [x.name for x in failed[:10]]},
                no_input=True,
            ))
        else:
            undecided += [r.name for r in failed]

    # ---- sidecar no longer binds: bounded run-time rendering of the same contract (DESIGN §5.3)
    for tname, fname, why in stale:
        contract = dict(tables)[tname][fname]
        params = PARAMS[fname]
        per_function["%s:%s" % (tname, fname)] = {"proof_stale": True, "why": why, "level": "bounded"}
        if fname == MANY:
            continue  # its bounded run is reported below in any case
        try:
            hit = _kw({"op": "search", "table": tname, "fname": fname, "params": params, "variant": variant, "scope": scope})
        except core.CheckerBroken as e:
            raise
        per_function["%s:%s" % (tname, fname)].update(bounded_calls=hit["calls"], in_requires=hit["in_requires"])
        if hit["hits"]:
            h = hit["hits"][0]
            ctx.violation(core.Violation(
                which, "set_operations.%s/bounded-contract" % fname,
                "sidecar no longer binds (%s); bounded run of the real code under the same contract found %s(%s) -> %s; failed: %s"
                % (why, fname, ", ".join(map(_short, h["args"])), h["outcome"][:2], h["failed"][:2]),
                input={"function": fname, "args": h["args"], "build": variant},
                cls={"function": fname, "kind": "bounded"},
            ))

    # ---- set_union_merge_many: bounded stand-in (never counted as proved; DESIGN §6 C08)
    per_function["BOUNDED:set_union_merge_many"] = {"level": "bounded", "calls": many["calls"], "failing": len(many["hits"]),
                                                    "scope": "all lists of <= %d strictly increasing arrays over {0,1,5,2**32-2,2**32-1}" % (3 if ctx.tier != "thorough" else 4)}
    seen_cls = set()
    already = any(v.cls.get("function") == MANY for v in ctx.violations)
    for h in ([] if already else many["hits"]):
        if which == "C09" and not (isinstance(h["outcome"], str) and "IndexError" in h["outcome"]):
            continue  # C09 is about memory safety only: on the bounds-checked build that is an IndexError
        if h["class"] in seen_cls:
            continue
        seen_cls.add(h["class"])
        ctx.violation(core.Violation(
            which, "set_operations.set_union_merge_many/bounded-contract[%s]" % h["class"],
            "bounded run of the real code: set_union_merge_many(%s) -> %s, expected %s" % (h["args"], h["outcome"], h["expected"]),
            input={"function": "set_union_merge_many", "args": h["args"], "build": variant}, cls={"function": "set_union_merge_many", "class": h["class"]}))

    # ---- invariants against real traces (only meaningful where the sidecar binds)
    traces = {}
    for key, ex in executors.items():
        tname, fname = key.split(":")
        if not ex.c.get("loops"):
            continue
        tr = kwitness.trace_invariants(n.py_text, fname, ex.c, MANY_TRACE_WITNESSES if fname == MANY else TRACE_WITNESSES,
                                       ghosts=kwitness.many_ghosts if fname == MANY else None)
        traces[key] = {"clause_evaluations": tr["evaluations"], "failures": tr["failures"][:2], "unhit_branches": tr["unhit"]}
        clean = not ctx.violations and not undecided and key in per_function and \
            per_function[key].get("obligations") == per_function[key].get("discharged")
        if clean and (tr["failures"] or tr["unhit"]):
            raise core.CheckerBroken("invariant trace guard failed for %s: %r / unhit %r" % (fname, tr["failures"][:1], tr["unhit"]))

    for tname, fname, open_ in not_binding:
        ctx.notes.append("proof_stale: %s:%s was restructured (statement skeleton differs from contracts/kernel_skeletons.json) and %d obligations "
                         "of the old invariants are open (%s); no failing input in the bounded scope" % (tname, fname, len(open_), ", ".join(o.split("/")[-1] for o in open_[:3])))
    if rebase:
        sk_old = load_skeletons()
        sk_old.update(skel_now)
        with open(SKELETONS, "w") as f:
            json.dump(sk_old, f, indent=1, sort_keys=True)
    if rebase:
        old = load_baseline()
        old = {k: v for k, v in old.items() if not any(k.startswith(t + "|") for t, _ in tables)}
        old.update(new_baseline)
        with open(BASELINE, "w") as f:
            json.dump(old, f, indent=0, sort_keys=True)

    real = [r for r in results if r.kind != "canary"]
    ctx.coverage.update({
        "obligations": len(real),
        "discharged": sum(1 for r in real if r.discharged),
        "checker_cmd": "./check %s  (cv/kvc: VC generation from the normalised working-tree set_operations.pyx; z3 %s "
                       "via API, /usr/bin/cvc5 --full-saturate-quant for z3's unknowns)" % (which, __import__("z3").get_version_string()),
        "trusted_base": [
            "Cython code generation for typed-memoryview indexing, gcc, CPython, NumPy C internals",
            "the .pyx normaliser (cv/kvc/norm.py; dropped lines listed; type environment cross-checked against Cython's parser: %d declarations, 0 mismatches)" % ndecl,
            "the two renderings of the clause language agree (self-check: %d clause/state pairs compared this run)" % agree,
            "library axioms for %s (probed this run)" % ", ".join(probed),
            "a memoryview of shape[0] = n addresses n allocated elements",
            "z3 / cvc5 soundness",
        ],
        "functions_under_contract": per_function,
        "canaries": {"total": sum(1 for r in results if r.kind == "canary"),
                     "not_provable": sum(1 for r in results if r.kind == "canary" and r.discharged)},
        "invariant_traces": traces,
        "dropped_by_normaliser": [list(d) for d in n.dropped],
        "kernel_flags": n.flags,
        "solver_seconds_total": round(sum(r.seconds for r in results), 2),
        "second_back_end": {"reproved_by_cvc5": sum(1 for r in results if r.second == "unsat"), "cvc5_unknown": sum(1 for r in results if r.second == "unknown")},
        "slow_queries_over_10s": [r.name for r in real if r.seconds > 10],
        "samples": [{"obligation": r.name, "backend": r.backend, "verdict": r.verdict, "seconds": round(r.seconds, 3),
                     "site": r.ob.meta.get("site", "")} for r in real[:: max(1, len(real) // 12)]][:14],
        "proof_stale": [list(s) for s in stale] + [[t, f, "restructured body: the sidecar's invariants are not inductive for it (open: %s); bounded run only" % ", ".join(o.split("/")[-1] for o in op[:3])] for t, f, op in not_binding],
        "undecided": undecided,
        "evaluations": len(real),
        "distinct_nontrivial": len({r.hash for r in real}),
    })
    ctx.assumptions += [
        "len(array) < 2**31 (the kernels' own documented limit; union: len(left)+len(right) < 2**31)",
        "Python/NumPy library calls inside the kernels (numpy.empty/asarray/concatenate, slicing) behave as their probed axioms",
        "C `int` arithmetic: signed overflow treated as an obligation, never assumed away; uint32 wraps",
    ]
    if undecided:
        ctx.write_evidence(len(ctx.violations))
        raise core.Undecided("obligations unchanged from the baseline came back unknown: %s" % ", ".join(undecided[:5]))


def _segment(n, fname):
    import ast as _ast

    return _ast.get_source_segment(n.py_text, n.funcs[fname]) or ""


def _short(a):
    if isinstance(a, list) and len(a) > 8:
        return "[%s, ... %d items]" % (", ".join(map(str, a[:4])), len(a))
    return repr(a)


def _apply_none_tag(obname, params, contract, args):
    """post@p3NA.1.0 -> the first array-or-None parameter is None, the second an array."""
    import re

    m = re.search(r"@(?:entry|return-p\d+|p\d+)([NA]+)", obname)
    if not m:
        return args
    tag = m.group(1)
    opt = [p for p in params if contract.get("params", {}).get(p) == "array_or_none"]
    out = list(args)
    for p, t in zip(opt, tag):
        i = params.index(p)
        if t == "N":
            out[i] = None
        elif out[i] is None:
            out[i] = []
    return out


def replay(path):
    """./check C0x --replay <file>: re-run one recorded call against the current tree."""
    with open(path) as f:
        rec = json.load(f)
    inp = rec.get("input")
    if not inp:
        print("replay file carries no input (no-failing-input-found): obligation %s\n%s"
              % (rec["obligation"], json.dumps(rec.get("solver_output"), indent=1)))
        return core.EXIT_UNDECIDED
    from contracts import kernels as K

    fname = inp["function"]
    for tname in ("SAFETY", "FUNCTIONAL", "WRAPPERS"):
        table = getattr(K, tname)
        if fname in table and (tname == "SAFETY") == (inp.get("build") == "boundscheck"):
            rep = _kw({"op": "replay", "table": tname, "fname": fname, "params": PARAMS[fname], "args": inp["args"],
                       "variant": inp.get("build", "prod")})
            print(json.dumps(rep, indent=1))
            if rep["requires"] and rep["failed"]:
                print("VIOLATION property=%s replay=%s" % (rec["property"], path))
                return core.EXIT_VIOLATION
            return core.EXIT_OK
    return core.EXIT_BROKEN
