"""Discharge obligations: z3 (primary) in a process pool, cvc5 takes z3's `unknown`s.

Each obligation `hypotheses AND NOT goal` is serialised to SMT-LIB once (the text is also what
is hashed into the obligation baseline and what cvc5 is given), solved in a worker process under
a per-query budget, and reported with back end, verdict and solver seconds.  `unsat` means
discharged.  A `canary` obligation (goal `False`) is expected NOT to be `unsat`.
"""
import concurrent.futures as cf
import hashlib
import multiprocessing
import os
import subprocess
import tempfile
import time

import z3

BUDGET_S = int(os.environ.get("CV_SOLVER_BUDGET_S", "30"))
CANARY_S = 2
WORKERS = int(os.environ.get("CV_WORKERS", str(min(16, os.cpu_count() or 4))))


def to_smt2(ob):
    s = z3.Solver()
    for h in ob.pc:
        s.add(h)
    s.add(z3.Not(ob.goal))
    return s.to_smt2()


def text_hash(smt):
    return hashlib.sha256(smt.encode()).hexdigest()[:16]


def _solve_z3(args):
    name, smt, timeout_s, want_model = args
    t0 = time.time()
    try:
        s = z3.Solver()
        s.set("timeout", int(timeout_s * 1000))
        s.from_string(smt)
        r = s.check()
        model = None
        if r == z3.sat and want_model:
            m = s.model()
            # model shrinking: prefer a counterexample with short arrays (replayable on the real code)
            lens = [d for d in m.decls() if d.arity() == 0 and d.name().startswith("len_")]
            if lens:
                for bound in (3, 8):
                    s.push()
                    for d in lens:
                        s.add(d() <= bound)
                    if s.check() == z3.sat:
                        m = s.model()
                        s.pop()
                        break
                    s.pop()
            model = {}
            for d in m.decls():
                if d.arity() == 0:
                    v = m[d]
                    if z3.is_int_value(v):
                        model[d.name()] = v.as_long()
                    elif z3.is_true(v) or z3.is_false(v):
                        model[d.name()] = z3.is_true(v)
                    elif z3.is_array(v):
                        model[d.name()] = _array_model(m, d)
        reason = s.reason_unknown() if r == z3.unknown else ""
        return name, str(r), time.time() - t0, model, reason
    except Exception as e:  # z3 crash on this query: report as unknown, never as a verdict
        return name, "unknown", time.time() - t0, None, "z3 exception: %r" % (e,)


def _array_model(m, d):
    """Concrete view of an Int->Int array in a model: {'else': v, index: value, ...}."""
    v = m[d]
    out = {}
    try:
        while z3.is_store(v):
            a, i, x = v.children()
            if z3.is_int_value(i) and z3.is_int_value(x):
                out.setdefault(str(i.as_long()), x.as_long())
            v = a
        if z3.is_const_array(v):
            e = v.children()[0]
            if z3.is_int_value(e):
                out["else"] = e.as_long()
        elif z3.is_as_array(v):
            f = m[z3.get_as_array_func(v)]
            for k in range(f.num_entries()):
                en = f.entry(k)
                out[str(en.arg_value(0))] = en.value().as_long() if z3.is_int_value(en.value()) else str(en.value())
            out["else"] = f.else_value().as_long() if z3.is_int_value(f.else_value()) else str(f.else_value())
        else:
            out["expr"] = str(v)[:200]
    except Exception as e:
        out["error"] = repr(e)
    return out


def _solve_cvc5(smt, timeout_s):
    t0 = time.time()
    with tempfile.NamedTemporaryFile("w", suffix=".smt2", delete=False) as f:
        f.write("(set-logic ALL)\n" + smt)
        path = f.name
    try:
        r = subprocess.run(
            ["/usr/bin/cvc5", "--full-saturate-quant", "--tlimit=%d" % int(timeout_s * 1000), path],
            capture_output=True, text=True, timeout=timeout_s + 10,
        )
        out = (r.stdout or "").strip().splitlines()
        verdict = out[0].strip() if out else "unknown"
        if verdict not in ("sat", "unsat", "unknown"):
            verdict = "unknown"
        return verdict, time.time() - t0, (r.stdout + r.stderr)[-500:]
    except subprocess.TimeoutExpired:
        return "unknown", time.time() - t0, "cvc5 timeout"
    except OSError as e:
        return "unknown", time.time() - t0, "cvc5 not runnable: %r" % (e,)
    finally:
        os.unlink(path)


class Result:
    def __init__(self, ob, smt):
        self.ob = ob
        self.name = ob.name
        self.kind = ob.kind
        self.smt = smt
        self.hash = text_hash(smt)
        self.verdict = None  # unsat | sat | unknown
        self.backend = None
        self.seconds = 0.0
        self.model = None
        self.detail = ""
        self.second = None

    @property
    def discharged(self):
        if self.kind == "canary":
            return self.verdict != "unsat"
        return self.verdict == "unsat"


def discharge(obls, budget_s=None, use_cvc5=True, retry=True, second_opinion=None):
    """second_opinion (thorough tier; default: env VERIF_TIER == thorough): every obligation z3 discharged is also given to
    cvc5; its verdict is recorded (`Result.second`) - a cvc5 `sat` against z3's `unsat` is a solver disagreement and raises."""
    budget_s = budget_s or BUDGET_S
    if second_opinion is None:
        second_opinion = os.environ.get("VERIF_TIER") == "thorough" or os.environ.get("CV_SECOND_OPINION") == "1"
    results = [Result(ob, to_smt2(ob)) for ob in obls]
    jobs = []
    for r in results:
        t = CANARY_S if r.kind == "canary" else budget_s
        jobs.append((r.name, r.smt, t, r.kind != "canary"))
    byname = {}
    for r in results:
        if r.name in byname:
            raise AssertionError("duplicate obligation name %s" % r.name)
        byname[r.name] = r
    ctx = multiprocessing.get_context("spawn")
    with cf.ProcessPoolExecutor(max_workers=WORKERS, mp_context=ctx) as ex:
        for name, verdict, secs, model, reason in ex.map(_solve_z3, jobs, chunksize=4):
            r = byname[name]
            r.verdict, r.backend, r.seconds, r.model, r.detail = verdict, "z3", secs, model, reason
        # second opinion for what z3 left open (not for canaries: `unknown` is fine there)
        open_ = [r for r in results if r.kind != "canary" and r.verdict == "unknown"]
        if open_ and use_cvc5:
            futs = {ex.submit(_solve_cvc5, r.smt, budget_s): r for r in open_}
            for fu in cf.as_completed(futs):
                r = futs[fu]
                verdict, secs, detail = fu.result()
                r.seconds += secs
                if verdict in ("unsat", "sat"):
                    r.verdict, r.backend = verdict, "cvc5"
                r.detail = (r.detail + " | cvc5: " + detail)[-600:]
        # one retry with a doubled budget for what is still open
        open_ = [r for r in results if r.kind != "canary" and r.verdict == "unknown"]
        if open_ and retry:
            jobs2 = [(r.name, r.smt, 2 * budget_s, True) for r in open_]
            for name, verdict, secs, model, reason in ex.map(_solve_z3, jobs2):
                r = byname[name]
                r.seconds += secs
                if verdict in ("unsat", "sat"):
                    r.verdict, r.backend, r.model = verdict, "z3(retry)", model
        if second_opinion:
            todo = [r for r in results if r.kind != "canary" and r.verdict == "unsat" and r.backend.startswith("z3")]
            futs = {ex.submit(_solve_cvc5, r.smt, 20): r for r in todo}
            for fu in cf.as_completed(futs):
                r = futs[fu]
                verdict, secs, detail = fu.result()
                r.second = verdict
                if verdict == "sat":
                    raise RuntimeError("solver disagreement on %s: z3 unsat, cvc5 sat" % r.name)
    return results
