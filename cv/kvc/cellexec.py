"""Engine A, cell-wise executor for the `reduce` methods (C04, and the sd rule of C18).

Every `reduce` of ffuncs.py / xfuncs.py that decides missingness from integer counters is
straight-line element-wise NumPy.  It is executed symbolically AT ONE ARBITRARY CELL on the real AST
(ast.parse of the working tree): each region is replaced by that cell's value, expressed through

    V  number of valid rows of the cell      M  number of missing rows        (integers >= 0)
    Wv sum of the valid rows' weights  (real >= 0;  V == 0 => Wv == 0;  unweighted: Wv == V)
    S  the value region's content (real)

`cube._compute_common_cells_from_marginal_diffs(region)` and `adjust_zeros` enter by contract
(the first: afterwards every cell of the block holds the per-cell aggregate - that is what the cell
symbols denote; it is checked at run time under C02/C03; the second: `If(condition, new, arr)`,
default condition `isclose(arr, 0)`).  Configuration flags (`self.ignore_missing`,
`self.weights is None`, the report format) are enumerated concretely.  Obligations per
(class, policy, weighted, format):

    <class>.reduce/missing-flag-equals-rule[...]      the reported missing flag == the property's rule
    <class>.reduce/formats-agree-on-missing[...]      same flag under the three report formats
    <class>.reduce/formats-agree-on-values[...]       same value at non-missing cells

Linear integer/real arithmetic; counter-models (V, M, Wv) are replayed on the real cube.
Floats are treated as reals and `isclose(x, 0)` as `x == 0` (listed assumptions).
"""
import ast

import z3


class Unsupported(Exception):
    pass


class Cell:
    def __init__(self, v):
        self.v = v


def _real(t):
    return z3.ToReal(t) if z3.is_expr(t) and t.sort() == z3.IntSort() else t


def get_method(tree, cls, name):
    for n in tree.body:
        if isinstance(n, ast.ClassDef) and n.name == cls:
            for m in n.body:
                if isinstance(m, ast.FunctionDef) and m.name == name:
                    return m
    raise Unsupported("%s.%s not found" % (cls, name))


def run_reduce(fn, cfg, cellvals):
    """cfg: ignore(bool), fmt in {'nan','tuple','plain'}, unweighted(bool); cellvals: region name -> z3 term.
    Returns (value term, missing-flag term)."""
    env = {}
    null = z3.Real("null_%s" % cfg["fmt"])
    last_cond = [None]

    def ev(e):
        t = ast.unparse(e)
        if isinstance(e, ast.Name):
            if e.id not in env:
                raise Unsupported("unbound %s" % e.id)
            return env[e.id]
        if isinstance(e, ast.Constant):
            if isinstance(e.value, bool):
                return e.value
            if isinstance(e.value, (int, float)):
                return Cell(z3.RealVal(e.value))
            return e.value
        if t == "self.ignore_missing":
            return cfg["ignore"]
        if t == "self.null":
            return Cell(null)
        if t == "self.weights is None":
            return cfg["unweighted"]
        if t == "isinstance(self.return_missing_as, tuple)":
            return cfg["fmt"] == "tuple"
        if t == "self.return_missing_as == 0":
            return cfg["fmt"] == "plain"
        if isinstance(e, ast.Subscript) and ast.unparse(e.slice) == "cube.marginless":
            return ev(e.value)
        if isinstance(e, ast.Compare) and len(e.ops) == 1:
            a, b = ev(e.left), ev(e.comparators[0])
            if not (isinstance(a, Cell) and isinstance(b, Cell)):
                raise Unsupported("comparison %s" % t)
            op = type(e.ops[0])
            table = {ast.Eq: a.v == b.v, ast.NotEq: a.v != b.v, ast.Lt: a.v < b.v, ast.LtE: a.v <= b.v, ast.Gt: a.v > b.v, ast.GtE: a.v >= b.v}
            if op not in table:
                raise Unsupported("comparison operator in %s" % t)
            return Cell(table[op])
        if isinstance(e, ast.BinOp):
            a, b = ev(e.left), ev(e.right)
            if not (isinstance(a, Cell) and isinstance(b, Cell)):
                raise Unsupported("operands of %s" % t)
            if isinstance(e.op, ast.BitOr):
                return Cell(z3.Or(a.v, b.v))
            if isinstance(e.op, ast.BitAnd):
                return Cell(z3.And(a.v, b.v))
            if isinstance(e.op, ast.BitXor):
                return Cell(z3.Xor(a.v, b.v))
            if isinstance(e.op, ast.Div):
                return Cell(_real(a.v) / _real(b.v))
            if isinstance(e.op, ast.Add):
                return Cell(a.v + b.v)
            if isinstance(e.op, ast.Sub):
                return Cell(a.v - b.v)
            if isinstance(e.op, ast.Mult):
                return Cell(a.v * b.v)
            raise Unsupported("operator in %s" % t)
        if isinstance(e, ast.UnaryOp) and isinstance(e.op, ast.Invert):
            return Cell(z3.Not(ev(e.operand).v))
        if isinstance(e, ast.Call):
            f = ast.unparse(e.func)
            if f == "numpy.isclose" and len(e.args) == 2 and ast.unparse(e.args[1]) == "0":
                return Cell(ev(e.args[0]).v == 0)  # assumption: isclose(x, 0) == (x == 0) on reals
            if f == "self.adjust_zeros":
                arr = ev(e.args[0])
                kw = {k.arg: k.value for k in e.keywords}
                new = ev(e.args[1]) if len(e.args) > 1 else (ev(kw["new"]) if "new" in kw else Cell(null))
                if "condition" in kw:
                    cond = ev(kw["condition"])
                    last_cond[0] = cond.v
                else:
                    cond = Cell(arr.v == 0)
                    last_cond[0] = cond.v
                return Cell(z3.If(cond.v, _real(new.v), _real(arr.v)))
        raise Unsupported("expression %s" % t)

    def block(stmts):
        for s in stmts:
            if isinstance(s, ast.Expr):
                if isinstance(s.value, ast.Constant):
                    continue
                if isinstance(s.value, ast.Call) and ast.unparse(s.value.func) == "cube._compute_common_cells_from_marginal_diffs":
                    continue  # contract: the cell now holds the true per-cell aggregate (what the symbols denote)
                raise Unsupported("statement %s" % ast.unparse(s))
            if isinstance(s, ast.Assign) and len(s.targets) == 1:
                t = s.targets[0]
                if isinstance(t, ast.Tuple):
                    if ast.unparse(s.value) != "regions":
                        raise Unsupported("tuple assignment from %s" % ast.unparse(s.value))
                    for n_ in t.elts:
                        if n_.id not in cellvals:
                            raise Unsupported("region %s has no cell meaning in the sidecar" % n_.id)
                        env[n_.id] = Cell(_real(cellvals[n_.id]))
                    continue
                if isinstance(t, ast.Name):
                    env[t.id] = ev(s.value)
                    continue
                raise Unsupported("assignment target")
            if isinstance(s, ast.If):
                c = ev(s.test)
                if not isinstance(c, bool):
                    raise Unsupported("data-dependent branch %s" % ast.unparse(s.test))
                r = block(s.body if c else s.orelse)
                if r is not None:
                    return r
                continue
            if isinstance(s, ast.With):
                r = block(s.body)
                if r is not None:
                    return r
                continue
            if isinstance(s, ast.Return):
                if isinstance(s.value, ast.Tuple) and len(s.value.elts) == 2:
                    a, b = [ev(x) for x in s.value.elts]
                    return a.v, z3.Not(b.v)
                v = ev(s.value)
                if last_cond[0] is None:
                    raise Unsupported("no missing condition on this path")
                return v.v, last_cond[0]
            raise Unsupported("statement %s" % ast.dump(s)[:60])
        return None

    r = block(fn.body)
    if r is None:
        raise Unsupported("reduce falls off the end")
    return r
