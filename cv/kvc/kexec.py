"""Engine A, kernel executor: verification conditions from the (normalised) kernel source.

A forward symbolic executor over the `ast` of one function of set_operations.pyx (as produced by
`norm.normalise` from the working tree) that emits *named obligations* (DESIGN §2):

  <fn>/narrow#k            a value assigned to a `cdef int` fits in 32 bits (Py_ssize_t -> int etc.)
  <fn>/int-no-overflow#k   every + / - on C `int`/`long` stays inside its type (signed overflow is UB)
  <fn>/alloc-nonneg#k      numpy.empty(n): n >= 0
  <fn>/index-in-bounds#k   every subscript of a typed memoryview (boundscheck(False)): 0 <= i < shape[0]
  <fn>/slice-shape#k       `a[:n] = b` copies exactly len(b) elements;  `a[:n]` has 0 <= n <= len(a)
  <fn>/call-requires#k     the callee's `requires` holds at a call site (calls are modular)
  <fn>/loopK-inv-init.c    conjunct c of loop K's invariant holds on entry
  <fn>/loopK-inv-pres@p.c  ... is preserved along body path p
  <fn>/post@p.c            conjunct c of `ensures` holds on return path p
  <fn>/canary@...          `False` after an assume point - must NOT be provable (vacuity guard)

Loops are cut at the head by the sidecar invariant (no unrolling, no bound); every `break` path
continues after the loop with its own state.  C integer semantics: `int`=int32, `long`=int64
(signed overflow is an obligation), `uint32` wraps modulo 2**32.
"""
import ast
import itertools

import z3

from .spec import Arr, SpecError, conjuncts, to_z3

U32 = 2 ** 32
RANGES = {
    "int32": (-(2 ** 31), 2 ** 31 - 1),
    "int64": (-(2 ** 63), 2 ** 63 - 1),
    "uint32": (0, U32 - 1),
    "ssize": (-(2 ** 63), 2 ** 63 - 1),
}


class Unsupported(Exception):
    """The source uses something outside the executor's subset, or the sidecar no longer binds."""


class IntV:
    __slots__ = ("t", "ty")

    def __init__(self, t, ty):
        self.t = t
        self.ty = ty  # int32 | int64 | uint32 | ssize | pyint


class BoolV:
    __slots__ = ("t",)

    def __init__(self, t):
        self.t = t


class NoneV:
    pass


NONE = NoneV()


class ArrRef:
    __slots__ = ("key",)

    def __init__(self, key):
        self.key = key


class State:
    def __init__(self):
        self.v = {}  # name -> IntV | BoolV | NONE | ArrRef
        self.arr = {}  # key -> Arr

    def copy(self):
        s = State()
        s.v = dict(self.v)
        s.arr = dict(self.arr)
        return s


class Obl:
    def __init__(self, name, kind, pc, goal, meta=None):
        self.name = name
        self.kind = kind
        self.pc = pc
        self.goal = goal
        self.meta = meta or {}


SAFETY_KINDS = ("narrow", "int-no-overflow", "alloc-nonneg", "index-in-bounds", "slice-shape")


class KernelExec:
    def __init__(self, norm, fname, contract, callees=None, module="set_operations"):
        self.norm = norm
        self.fname = fname
        self.fn = norm.funcs[fname]
        self.c = contract
        self.callees = callees or {}
        self.module = module
        self.flags = norm.flags.get(fname, {"boundscheck": True, "wraparound": True})
        self.obls = []
        self.ctr = {}
        self.fresh = itertools.count()
        self.macros = contract.get("macros", {})
        self.loops = [n for n in ast.walk(self.fn) if isinstance(n, (ast.While, ast.For))]
        self.loops.sort(key=lambda n: (n.lineno, n.col_offset))
        self.path_ctr = itertools.count(1)
        self.entry_ctr = {}
        self.sites = {}  # obligation base name -> source text (for reports)
        declared = set(contract.get("loops", {}))
        if declared != set(range(1, len(self.loops) + 1)):
            raise Unsupported(
                "%s: sidecar declares invariants for loops %s but the source has %d loops"
                % (fname, sorted(declared), len(self.loops))
            )

    # ------------------------------------------------------------------ helpers
    def ctype(self, name):
        t = self.norm.types.get((self.fname, name))
        return t

    def fr(self, base, sort=None):
        return z3.Const("%s!%d" % (base, next(self.fresh)), sort or z3.IntSort())

    def ob(self, kind, pc, goal, site="", split=False, label=None):
        if label is None:
            k = self.ctr.get(kind, 0) + 1
            self.ctr[kind] = k
            label = "%s#%d" % (kind, k)
        base = "%s.%s/%s" % (self.module, self.fname, label)
        if site:
            self.sites[base] = site
        goals = [goal]
        if split:
            goals = _split_and(goal)
        for i, g in enumerate(goals):
            nm = base + (".%d" % i if len(goals) > 1 else "")
            self.obls.append(Obl(nm, kind, list(pc), g, {"site": site}))

    def spec_env(self, st, extra=None):
        env = {}
        for k, v in st.v.items():
            if isinstance(v, IntV):
                env[k] = v.t
            elif isinstance(v, BoolV):
                env[k] = v.t
            elif isinstance(v, ArrRef):
                env[k] = st.arr[v.key]
        if extra:
            env.update(extra)
        return env

    def clause(self, text, st, extra=None):
        try:
            return to_z3(text, self.spec_env(st, extra), self.macros)
        except SpecError as e:
            raise Unsupported("%s: clause %r does not bind: %s" % (self.fname, text, e))

    def elem_axiom(self, A):
        q = z3.Int("q!e%d" % next(self.fresh))
        lo, hi = RANGES.get(A.elem, RANGES["uint32"])
        return z3.ForAll([q], z3.And(lo <= z3.Select(A.a, q), z3.Select(A.a, q) <= hi), patterns=[z3.Select(A.a, q)])

    def store_hint(self, a, i, v):
        """A theorem of the array theory (read-over-write), stated with the *old* array's read as
        trigger: it is an instantiation hint, not an assumption - wherever a hypothesis produced
        a witness a[q], the solver also learns the value of Store(a, i, v)[q]."""
        q = z3.Int("q!w%d" % next(self.fresh))
        return z3.ForAll([q], z3.Select(z3.Store(a, i, v), q) == z3.If(q == i, v, z3.Select(a, q)),
                         patterns=[z3.Select(a, q)])

    def new_arr(self, st, base, length, elem="uint32", store=None, pc=None):
        key = "%s!%d" % (base, next(self.fresh))
        A = Arr(key, length, store, elem)
        st.arr[key] = A
        if pc is not None and store is None:
            pc.append(self.elem_axiom(A))
        return ArrRef(key)

    # ------------------------------------------------------------------ expressions
    def as_int(self, v, what=""):
        if isinstance(v, IntV):
            return v
        raise Unsupported("%s: expected an integer value %s" % (self.fname, what))

    def arith(self, op, a, b, pc, site):
        a, b = self.as_int(a), self.as_int(b)
        ty = _promote(a.ty, b.ty)
        if isinstance(op, ast.Add):
            r = a.t + b.t
        elif isinstance(op, ast.Sub):
            r = a.t - b.t
        elif isinstance(op, ast.Mult):
            r = a.t * b.t
        else:
            raise Unsupported("%s: operator %s" % (self.fname, type(op).__name__))
        if ty in ("int32", "int64", "ssize"):
            lo, hi = RANGES[ty]
            self.ob("int-no-overflow", pc, z3.And(lo <= r, r <= hi), site)
        elif ty == "uint32":
            r = r % U32  # unsigned arithmetic wraps
        return IntV(r, ty)

    def ev(self, e, st, pc):
        if isinstance(e, ast.Constant):
            if e.value is None:
                return NONE
            if isinstance(e.value, bool):
                return BoolV(z3.BoolVal(e.value))
            if isinstance(e.value, int):
                return IntV(z3.IntVal(e.value), "pyint")
            raise Unsupported("constant %r" % (e.value,))
        if isinstance(e, ast.Name):
            if e.id not in st.v:
                raise Unsupported("%s: read of unassigned name %s" % (self.fname, e.id))
            return st.v[e.id]
        if isinstance(e, ast.BinOp):
            return self.arith(e.op, self.ev(e.left, st, pc), self.ev(e.right, st, pc), pc,
                              "%s @L%d" % (ast.unparse(e), e.lineno))
        if isinstance(e, ast.Subscript):
            # x.shape[0]
            if isinstance(e.value, ast.Attribute) and e.value.attr == "shape":
                base = self.ev(e.value.value, st, pc)
                idx = self.ev(e.slice, st, pc)
                if isinstance(base, ArrRef) and isinstance(idx, IntV) and z3.is_int_value(z3.simplify(idx.t)) \
                        and z3.simplify(idx.t).as_long() == 0:
                    return IntV(st.arr[base.key].len, "ssize")
                raise Unsupported("shape subscript %s" % ast.unparse(e))
            base = self.ev(e.value, st, pc)
            if not isinstance(base, ArrRef):
                raise Unsupported("%s: subscript of non-array %s" % (self.fname, ast.unparse(e)))
            A = st.arr[base.key]
            if isinstance(e.slice, ast.Slice):
                if e.slice.lower is not None or e.slice.step is not None or e.slice.upper is None:
                    raise Unsupported("slice form %s" % ast.unparse(e))
                n = self.as_int(self.ev(e.slice.upper, st, pc))
                self.ob("slice-shape", pc, z3.And(0 <= n.t, n.t <= A.len), "%s @L%d" % (ast.unparse(e), e.lineno))
                key = "%s!%d" % (A.name.split("!")[0] + "_sl", next(self.fresh))
                st.arr[key] = Arr(key, n.t, A.a, A.elem)
                return ArrRef(key)
            i = self.as_int(self.ev(e.slice, st, pc))
            site = "%s @L%d" % (ast.unparse(e), e.lineno)
            typed = self._is_memview(e.value)
            if typed and not self.flags["boundscheck"]:
                self.ob("index-in-bounds", pc, z3.And(0 <= i.t, i.t < A.len), site)
            elif typed and not self.flags["wraparound"]:
                raise Unsupported("boundscheck(True) memoryview access not modelled")
            else:
                # Python-level subscript: out of range raises IndexError; negative wraps.
                self.ob("index-in-bounds", pc, z3.And(0 <= i.t, i.t < A.len), site)
            return IntV(z3.Select(A.a, i.t), A.elem)
        if isinstance(e, ast.Call):
            return self.call(e, st, pc)
        if isinstance(e, ast.IfExp):
            c = self.cond(e.test, st, pc)
            a = self.ev(e.body, st, pc + [c])
            b = self.ev(e.orelse, st, pc + [z3.Not(c)])
            if isinstance(a, ArrRef) and isinstance(b, ArrRef):
                A, B = st.arr[a.key], st.arr[b.key]
                key = "ite!%d" % next(self.fresh)
                st.arr[key] = Arr(key, z3.If(c, A.len, B.len), z3.If(c, A.a, B.a), A.elem)
                return ArrRef(key)
            if isinstance(a, IntV) and isinstance(b, IntV):
                return IntV(z3.If(c, a.t, b.t), _promote(a.ty, b.ty))
            raise Unsupported("conditional expression %s" % ast.unparse(e))
        if isinstance(e, ast.Attribute) and e.attr == "uint32":
            return ("dtype", "uint32")
        raise Unsupported("%s: expression %s" % (self.fname, ast.unparse(e)))

    def _is_memview(self, node):
        if isinstance(node, ast.Name):
            t = self.ctype(node.id)
            return bool(t) and t[0] == "memview"
        return False

    def call(self, e, st, pc):
        f = ast.unparse(e.func)
        if f == "min" or f == "max":
            a, b = (self.as_int(self.ev(x, st, pc)) for x in e.args)
            t = z3.If(a.t < b.t, a.t, b.t) if f == "min" else z3.If(a.t > b.t, a.t, b.t)
            return IntV(t, _promote(a.ty, b.ty))
        if f == "len":
            a = self.ev(e.args[0], st, pc)
            if isinstance(a, ArrRef):
                return IntV(st.arr[a.key].len, "pyint")
            raise Unsupported("len of non-array")
        if f == "numpy.empty":
            n = self.as_int(self.ev(e.args[0], st, pc))
            dt = [k for k in e.keywords if k.arg == "dtype"]
            if not dt or ast.unparse(dt[0].value) != "numpy.uint32":
                raise Unsupported("numpy.empty dtype")
            self.ob("alloc-nonneg", pc, n.t >= 0, "%s @L%d" % (ast.unparse(e), e.lineno))
            return self.new_arr(st, "empty", n.t, "uint32", pc=pc)
        if f == "numpy.asarray" and len(e.args) == 1 and not e.keywords:
            a = self.ev(e.args[0], st, pc)
            if isinstance(a, ArrRef):
                A = st.arr[a.key]
                return self.new_arr(st, "asarray", A.len, A.elem, store=A.a)
            raise Unsupported("numpy.asarray arg")
        if f == "numpy.concatenate" and len(e.args) == 1 and isinstance(e.args[0], ast.Tuple) \
                and len(e.args[0].elts) == 2 and not e.keywords:
            a, b = (self.ev(x, st, pc) for x in e.args[0].elts)
            if not (isinstance(a, ArrRef) and isinstance(b, ArrRef)):
                raise Unsupported("concatenate args")
            A, B = st.arr[a.key], st.arr[b.key]
            r = self.new_arr(st, "cat", A.len + B.len, A.elem, pc=pc)
            C = st.arr[r.key]
            q = z3.Int("q!c%d" % next(self.fresh))
            # library axiom (assumed, probed): result element q is A[q] resp. B[q - len(A)];
            # stated with the *result* element as trigger, and with the operand's as well.
            pc.append(z3.ForAll([q], z3.Implies(z3.And(0 <= q, q < A.len), z3.Select(C.a, q) == z3.Select(A.a, q)),
                                patterns=[z3.Select(C.a, q)]))
            pc.append(z3.ForAll([q], z3.Implies(z3.And(A.len <= q, q < A.len + B.len),
                                                z3.Select(C.a, q) == z3.Select(B.a, q - A.len)),
                                patterns=[z3.Select(C.a, q)]))
            pc.append(z3.ForAll([q], z3.Implies(z3.And(0 <= q, q < B.len),
                                                z3.Select(C.a, A.len + q) == z3.Select(B.a, q)),
                                patterns=[z3.Select(B.a, q)]))
            return r
        if isinstance(e.func, ast.Attribute) and e.func.attr == "copy" and not e.args:
            a = self.ev(e.func.value, st, pc)
            if isinstance(a, ArrRef):
                A = st.arr[a.key]
                return self.new_arr(st, "copy", A.len, A.elem, store=A.a)
            raise Unsupported(".copy() of non-array")
        if f in self.callees:
            return self.modular_call(f, e, st, pc)
        raise Unsupported("%s: call %s" % (self.fname, ast.unparse(e)))

    def modular_call(self, f, e, st, pc):
        """Calls are modular: assert callee's requires, havoc result, assume callee's ensures."""
        cal = self.callees[f]
        args = [self.ev(a, st, pc) for a in e.args]
        if len(args) != len(cal["params"]) or e.keywords:
            raise Unsupported("call %s arity" % f)
        env = {}
        for p, a in zip(cal["params"], args):
            if not isinstance(a, ArrRef):
                raise Unsupported("call %s: non-array argument" % f)
            env[p] = st.arr[a.key]
        for r in cal["requires"]:
            self.ob("call-requires", pc, to_z3(r, env, cal.get("macros", {})), "%s @L%d" % (ast.unparse(e), e.lineno),
                    split=True)
        n = self.fr("retlen")
        out = self.new_arr(st, "ret_" + f, n, "uint32", pc=pc)
        pc.append(n >= 0)
        env["out"] = st.arr[out.key]
        for c in cal["ensures"]:
            pc.append(to_z3(c, env, cal.get("macros", {})))
        return out

    def cond(self, e, st, pc):
        if isinstance(e, ast.BoolOp):
            acc = []
            for x in e.values:
                guard = list(acc) if isinstance(e.op, ast.And) else [z3.Not(c) for c in acc]
                acc.append(self.cond(x, st, pc + guard))
            return z3.And(*acc) if isinstance(e.op, ast.And) else z3.Or(*acc)
        if isinstance(e, ast.UnaryOp) and isinstance(e.op, ast.Not):
            return z3.Not(self.cond(e.operand, st, pc))
        if isinstance(e, ast.Compare) and len(e.ops) == 1:
            op = e.ops[0]
            if isinstance(op, (ast.Is, ast.IsNot)):
                a = self.ev(e.left, st, pc)
                b = self.ev(e.comparators[0], st, pc)
                if b is not NONE:
                    raise Unsupported("`is` against non-None")
                r = z3.BoolVal(a is NONE)
                return r if isinstance(op, ast.Is) else z3.Not(r)
            a = self.as_int(self.ev(e.left, st, pc))
            b = self.as_int(self.ev(e.comparators[0], st, pc))
            _check_comparable(a.ty, b.ty, ast.unparse(e))
            return {
                ast.Lt: a.t < b.t, ast.LtE: a.t <= b.t, ast.Gt: a.t > b.t, ast.GtE: a.t >= b.t,
                ast.Eq: a.t == b.t, ast.NotEq: a.t != b.t,
            }[type(op)]
        v = self.ev(e, st, pc)
        if isinstance(v, BoolV):
            return v.t
        if isinstance(v, IntV):
            return v.t != 0
        raise Unsupported("%s: condition %s" % (self.fname, ast.unparse(e)))

    # ------------------------------------------------------------------ statements
    def block(self, stmts, st, pc):
        outs = [("fall", st, pc, None)]
        for s in stmts:
            nxt = []
            for kind, st1, pc1, ret in outs:
                if kind != "fall":
                    nxt.append((kind, st1, pc1, ret))
                else:
                    nxt += self.stmt(s, st1.copy(), list(pc1))
            outs = nxt
        return outs

    def assign_name(self, name, val, st, pc, site):
        t = self.ctype(name)
        if t and t[0] == "c" and t[1] in RANGES:
            v = self.as_int(val, "for %s" % name)
            if t[1] == "uint32":
                if v.ty != "uint32":
                    # conversion to unsigned wraps; for values we produce this only arises for constants
                    v = IntV(v.t % U32, "uint32")
            else:
                if v.ty != t[1]:
                    lo, hi = RANGES[t[1]]
                    if not (v.ty == "pyint" and z3.is_int_value(z3.simplify(v.t))
                            and lo <= z3.simplify(v.t).as_long() <= hi):
                        self.ob("narrow", pc, z3.And(lo <= v.t, v.t <= hi), site)
                    v = IntV(v.t, t[1])
            st.v[name] = v
        elif t and t[0] == "memview":
            if not isinstance(val, ArrRef):
                raise Unsupported("memoryview %s bound to non-array" % name)
            if st.arr[val.key].elem != t[1]:
                raise Unsupported("memoryview %s element type" % name)
            st.v[name] = val
        else:
            st.v[name] = val

    def stmt(self, s, st, pc):
        if isinstance(s, ast.Pass):
            return [("fall", st, pc, None)]
        if isinstance(s, ast.Expr):
            if isinstance(s.value, ast.Constant):
                return [("fall", st, pc, None)]  # docstring
            raise Unsupported("expression statement %s" % ast.unparse(s))
        if isinstance(s, ast.Assign) and len(s.targets) == 1:
            t = s.targets[0]
            site = "%s @L%d" % (ast.unparse(s), s.lineno)
            if isinstance(t, ast.Name):
                self.assign_name(t.id, self.ev(s.value, st, pc), st, pc, site)
                return [("fall", st, pc, None)]
            if isinstance(t, ast.Subscript):
                base = self.ev(t.value, st, pc)
                if not isinstance(base, ArrRef):
                    raise Unsupported("store into non-array")
                A = st.arr[base.key]
                if isinstance(t.slice, ast.Slice):
                    # python-level `a[:n] = b`
                    if t.slice.lower is not None or t.slice.step is not None or t.slice.upper is None:
                        raise Unsupported("slice store form")
                    n = self.as_int(self.ev(t.slice.upper, st, pc))
                    src = self.ev(s.value, st, pc)
                    if not isinstance(src, ArrRef):
                        raise Unsupported("slice store source")
                    B = st.arr[src.key]
                    self.ob("slice-shape", pc, z3.And(0 <= n.t, n.t <= A.len, B.len == n.t), site)
                    key = "%s!%d" % (A.name.split("!")[0], next(self.fresh))
                    C = Arr(key, A.len, None, A.elem)
                    q = z3.Int("q!s%d" % next(self.fresh))
                    pc.append(z3.ForAll([q], z3.Implies(z3.And(0 <= q, q < n.t), z3.Select(C.a, q) == z3.Select(B.a, q)),
                                        patterns=[z3.Select(C.a, q)]))
                    pc.append(z3.ForAll([q], z3.Implies(z3.And(n.t <= q, q < A.len), z3.Select(C.a, q) == z3.Select(A.a, q)),
                                        patterns=[z3.Select(C.a, q)]))
                    pc.append(self.elem_axiom(C))
                    st.arr[base.key] = C
                    return [("fall", st, pc, None)]
                i = self.as_int(self.ev(t.slice, st, pc))
                v = self.as_int(self.ev(s.value, st, pc))
                if self._is_memview(t.value):
                    mv = self.ctype(t.value.id)
                    if mv[2]:
                        raise Unsupported("store through const memoryview")
                self.ob("index-in-bounds", pc, z3.And(0 <= i.t, i.t < A.len), site)
                if v.ty != A.elem:
                    lo, hi = RANGES[A.elem]
                    self.ob("narrow", pc, z3.And(lo <= v.t, v.t <= hi), site)
                st.arr[base.key] = Arr(A.name, A.len, z3.Store(A.a, i.t, v.t), A.elem)
                pc.append(self.store_hint(A.a, i.t, v.t))
                return [("fall", st, pc, None)]
            raise Unsupported("assignment target %s" % ast.unparse(t))
        if isinstance(s, ast.AugAssign) and isinstance(s.target, ast.Name):
            site = "%s @L%d" % (ast.unparse(s), s.lineno)
            cur = self.ev(s.target, st, pc)
            v = self.arith(s.op, cur, self.ev(s.value, st, pc), pc, site)
            self.assign_name(s.target.id, v, st, pc, site)
            return [("fall", st, pc, None)]
        if isinstance(s, ast.AugAssign) and isinstance(s.target, ast.Subscript):
            site = "%s @L%d" % (ast.unparse(s), s.lineno)
            load = ast.Subscript(value=s.target.value, slice=s.target.slice, ctx=ast.Load())
            ast.copy_location(load, s.target)
            cur = self.ev(load, st, pc)
            v = self.arith(s.op, cur, self.ev(s.value, st, pc), pc, site)
            base = self.ev(s.target.value, st, pc)
            A = st.arr[base.key]
            i = self.as_int(self.ev(s.target.slice, st, pc))
            st.arr[base.key] = Arr(A.name, A.len, z3.Store(A.a, i.t, v.t), A.elem)
            return [("fall", st, pc, None)]
        if isinstance(s, ast.If):
            c = z3.simplify(self.cond(s.test, st, pc))
            if z3.is_true(c):
                return self.block(s.body, st, pc)
            if z3.is_false(c):
                return self.block(s.orelse, st, pc)
            return self.block(s.body, st.copy(), pc + [c]) + self.block(s.orelse, st.copy(), pc + [z3.Not(c)])
        if isinstance(s, ast.Return):
            v = NONE if s.value is None else self.ev(s.value, st, pc)
            return [("return", st, pc, v)]
        if isinstance(s, ast.Break):
            return [("break", st, pc, None)]
        if isinstance(s, ast.Continue):
            return [("continue", st, pc, None)]
        if isinstance(s, (ast.While, ast.For)):
            return self.loop(s, st, pc)
        raise Unsupported("%s: statement %s" % (self.fname, ast.dump(s)[:80]))

    def loop(self, s, st, pc):
        k = self.loops.index(s) + 1
        inv = self.c["loops"][k]
        if isinstance(inv, str):
            inv = [inv]
        if s.orelse:
            raise Unsupported("loop else")
        is_for = isinstance(s, ast.For)
        if is_for:
            if not (isinstance(s.iter, ast.Call) and ast.unparse(s.iter.func) == "range" and len(s.iter.args) == 1
                    and isinstance(s.target, ast.Name)):
                raise Unsupported("for-loop form %s" % ast.unparse(s.iter))
            bound = self.as_int(self.ev(s.iter.args[0], st, pc))
            # `for v in range(n)` == v = 0; while v < n: body; v += 1     (n evaluated once)
            st.v["__range%d" % k] = IntV(bound.t, bound.ty)
            self.assign_name(s.target.id, IntV(z3.IntVal(0), "pyint"), st, pc, "for-init")
        entry = self.entry_ctr.get(k, 0) + 1
        self.entry_ctr[k] = entry
        for ci, cl in enumerate(inv):
            for cj, part in enumerate(conjuncts(cl, self.macros)):
                self.ob("loop-inv-init", pc, self.clause(part, st),
                        label="loop%d-inv-init@e%d.%d.%d" % (k, entry, ci, cj))
        # havoc everything the loop assigns
        mod, amod = set(), set()
        for n in ast.walk(s):
            tg = None
            if isinstance(n, ast.Assign):
                tg = n.targets[0]
            elif isinstance(n, ast.AugAssign):
                tg = n.target
            elif isinstance(n, ast.For):
                tg = n.target
            if tg is None:
                continue
            if isinstance(tg, ast.Name):
                mod.add(tg.id)
            elif isinstance(tg, ast.Subscript):
                b = tg.value
                if isinstance(b, ast.Name) and isinstance(st.v.get(b.id), ArrRef):
                    amod.add(st.v[b.id].key)
                else:
                    raise Unsupported("loop store target %s" % ast.unparse(tg))
        pc = list(pc)
        for m in sorted(mod):
            old = st.v.get(m)
            t = self.ctype(m)
            ty = t[1] if t and t[0] == "c" else (old.ty if isinstance(old, IntV) else None)
            if ty is None:
                raise Unsupported("cannot havoc %s" % m)
            x = self.fr(m)
            if ty in RANGES:
                lo, hi = RANGES[ty]
                pc.append(z3.And(lo <= x, x <= hi))
            st.v[m] = IntV(x, ty)
        for a in sorted(amod):
            A = st.arr[a]
            B = Arr("%s!h%d" % (A.name.split("!")[0], next(self.fresh)), A.len, None, A.elem)
            st.arr[a] = B
            pc.append(self.elem_axiom(B))
        for cl in inv:
            pc.append(self.clause(cl, st))
        self.ob("canary", pc, z3.BoolVal(False), label="canary@loop%d-head-e%d" % (k, entry))
        if is_for:
            test = st.v[s.target.id].t < st.v["__range%d" % k].t
        else:
            test = z3.simplify(self.cond(s.test, st, pc))
        outs = []
        if not z3.is_true(test):
            outs.append(("fall", st.copy(), pc + [z3.Not(test)], None))
        body_pc = pc if z3.is_true(test) else pc + [test]
        for kind, st1, pc1, ret in self.block(s.body, st.copy(), body_pc):
            if kind in ("fall", "continue"):
                if is_for:
                    cur = st1.v[s.target.id]
                    nxt = self.arith(ast.Add(), cur, IntV(z3.IntVal(1), "pyint"), pc1, "for-step @L%d" % s.lineno)
                    self.assign_name(s.target.id, nxt, st1, pc1, "for-step")
                p = next(self.path_ctr)
                for ci, cl in enumerate(inv):
                    for cj, part in enumerate(conjuncts(cl, self.macros)):
                        self.ob("loop-inv-pres", pc1, self.clause(part, st1),
                                label="loop%d-inv-pres@p%d.%d.%d" % (k, p, ci, cj))
            elif kind == "break":
                outs.append(("fall", st1, pc1, None))
            else:
                outs.append((kind, st1, pc1, ret))
        return outs

    # ------------------------------------------------------------------ entry
    def run(self):
        """Generate obligations for every (None-ness) case of the parameters."""
        params = [a.arg for a in self.fn.args.args]
        kinds = self.c.get("params", {})
        cases = [[]]
        for p in params:
            k = kinds.get(p, "array")
            if k == "array_or_none":
                cases = [c + [(p, "array")] for c in cases] + [c + [(p, "none")] for c in cases]
            else:
                cases = [c + [(p, k)] for c in cases]
        for case in cases:
            self.run_case(case)
        return self.obls

    def run_case(self, case):
        st, pc = State(), []
        tag = "".join({"none": "N", "array": "A"}.get(k, "") for _, k in case)
        if "N" not in tag:
            tag = ""
        extra = {}
        for p, k in case:
            if k == "array":
                t = self.ctype(p)
                elem = t[1] if t and t[0] == "memview" else "uint32"
                # the parameter's own name is the z3 array name (readable, replayable models)
                A = Arr(p, z3.Int("len_%s" % p), None, elem)
                st.arr[p] = A
                pc.append(self.elem_axiom(A))
                pc.append(A.len >= 0)
                r = ArrRef(p)
                st.v[p] = r
                extra[p + "_none"] = z3.BoolVal(False)
            elif k == "none":
                st.v[p] = NONE
                extra[p + "_none"] = z3.BoolVal(True)
                # dummy array so that guarded clauses mentioning it still bind
                extra[p] = Arr("dummy_" + p, z3.IntVal(0))
            elif k == "bool":
                st.v[p] = BoolV(z3.Bool("arg_" + p))
            else:
                raise Unsupported("parameter kind %s" % k)
        self.params_env = {p: (st.arr[st.v[p].key] if isinstance(st.v[p], ArrRef) else extra.get(p)) for p, _ in case
                           if isinstance(st.v[p], ArrRef) or p in extra}
        self.params_env.update({k: v for k, v in extra.items()})
        for r in self.c["requires"]:
            pc.append(self.clause(r, st, extra))
        self.ob("canary", pc, z3.BoolVal(False), label="canary@entry" + tag)
        outs = self.block(self.fn.body, st, pc)
        for kind, st1, pc1, ret in outs:
            if kind == "fall":
                kind, ret = "return", NONE  # falling off the end returns None
            if kind != "return":
                raise Unsupported("path ends in %s" % kind)
            p = next(self.path_ctr)
            env = dict(self.params_env)
            if ret is NONE:
                env["out_none"] = z3.BoolVal(True)
                env["out"] = Arr("dummy_out", z3.IntVal(0))
            elif isinstance(ret, ArrRef):
                env["out_none"] = z3.BoolVal(False)
                env["out"] = st1.arr[ret.key]
            else:
                raise Unsupported("return value kind")
            self.ob("canary", pc1, z3.BoolVal(False), label="canary@return-p%d%s" % (p, tag))
            for ci, cl in enumerate(self.c["ensures"]):
                for cj, part in enumerate(conjuncts(cl, self.macros)):
                    try:
                        g = to_z3(part, env, self.macros)
                    except SpecError as e:
                        raise Unsupported("ensures %r: %s" % (part, e))
                    self.ob("post", pc1, g, label="post@p%d%s.%d.%d" % (p, tag, ci, cj))


def _split_and(t):
    parts = [t]
    changed = True
    while changed:
        changed = False
        new = []
        for p in parts:
            if z3.is_and(p):
                new += list(p.children())
                changed = True
            else:
                new.append(p)
        parts = new
    return parts


def _promote(a, b):
    if a == b:
        return a
    if a == "pyint":
        return b
    if b == "pyint":
        return a
    order = ["int32", "uint32", "int64", "ssize"]
    if a in order and b in order:
        # C usual arithmetic conversions (int32 op uint32 -> uint32; anything op int64 -> int64)
        return order[max(order.index(a), order.index(b))]
    raise Unsupported("type promotion %s/%s" % (a, b))


def _check_comparable(a, b, site):
    if a == b or "pyint" in (a, b):
        return
    signed = {"int32", "int64", "ssize"}
    if a in signed and b in signed:
        return
    raise Unsupported("comparison mixes %s and %s at %s" % (a, b, site))
