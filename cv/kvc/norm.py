"""Mechanical normaliser: set_operations.pyx  ->  parseable Python + C type environment.

Run on every check against the working tree's .pyx (DESIGN §1).  It drops exactly:

  * `cimport ...` lines and the `ctypedef` line,
  * `@cython.boundscheck(..)` / `@cython.wraparound(..)` decorators (their *values* are read
    and returned per function: False => every typed-memoryview subscript is an in-bounds
    obligation / a negative index is not wrapped),
  * `with nogil:`  (replaced by `if True:` so the body keeps its indentation),
  * the C type in `cdef T x [= e]` and in typed parameters (kept in the type environment).

Everything else is passed through byte for byte, so the AST walked by the executor is the
code Cython compiles.  Every dropped/rewritten line is reported.  The recovered type
environment is cross-checked against Cython's own parser (`crosscheck_types`).
"""
import ast
import re

CTYPES = {
    "int": ("c", "int32"),
    "long": ("c", "int64"),
    "uint32": ("c", "uint32"),
    "list": ("py", "list"),
}


class Normalised:
    def __init__(self):
        self.py_text = ""
        self.tree = None
        self.types = {}  # (func, var) -> ("c", ctype) | ("memview", elem ctype, const?) | ("py","list")
        self.dropped = []  # (lineno, text, why)
        self.flags = {}  # func -> {"boundscheck": bool, "wraparound": bool}
        self.funcs = {}


def _parse_type(ty):
    ty = ty.strip()
    m = re.match(r"^(const\s+)?(\w+)\[:\]$", ty)
    if m:
        return ("memview", CTYPES.get(m.group(2), ("c", m.group(2)))[1], bool(m.group(1)))
    if ty in CTYPES:
        return CTYPES[ty]
    return ("c", ty)


def normalise(src):
    out = []
    n = Normalised()
    func = None
    pending = {"boundscheck": True, "wraparound": True}
    for ln, line in enumerate(src.splitlines(), 1):
        s = line.strip()
        m = re.match(r"^(\s*)def (\w+)\((.*)\):\s*$", line)
        if m:
            func = m.group(2)
            params = []
            for p in m.group(3).split(","):
                p = p.strip()
                if not p:
                    continue
                mm = re.match(r"^((?:const\s+)?\w+\[:\]|list|int|long)\s+(\w+)$", p)
                if mm:
                    n.types[(func, mm.group(2))] = _parse_type(mm.group(1))
                    n.dropped.append((ln, p, "parameter C type moved to type environment"))
                    params.append(mm.group(2))
                else:
                    params.append(p)
            if m.group(1) == "":
                n.flags[func] = dict(pending)
                pending = {"boundscheck": True, "wraparound": True}
            out.append("%sdef %s(%s):" % (m.group(1), func, ", ".join(params)))
            continue
        if re.match(r"^(cimport|ctypedef)\b", s):
            n.dropped.append((ln, s, "cimport/ctypedef dropped"))
            out.append("")
            continue
        m = re.match(r"^@cython\.(boundscheck|wraparound)\((True|False)\)", s)
        if m:
            pending[m.group(1)] = m.group(2) == "True"
            n.dropped.append((ln, s, "decorator dropped; value recorded"))
            out.append("")
            continue
        m = re.match(r"^(\s*)with nogil:\s*$", line)
        if m:
            n.dropped.append((ln, s, "`with nogil:` replaced by `if True:`"))
            out.append(m.group(1) + "if True:")
            continue
        m = re.match(r"^(\s*)cdef\s+((?:const\s+)?\w+(?:\[:\])?)\s+(\w+(?:\s*,\s*\w+)*)(\s*=\s*(.*))?$", line)
        if m:
            ind, ty, names, _, init = m.groups()
            names = [x.strip() for x in names.split(",")]
            for x in names:
                n.types[(func, x)] = _parse_type(ty)
            n.dropped.append((ln, s, "cdef type moved to type environment"))
            # "cdef long a, b, ptr = 0": the initialiser belongs to the last name
            if init is not None:
                out.append("%s%s = %s" % (ind, names[-1], init))
            else:
                out.append(ind + "pass")
            continue
        if re.match(r"^\s*cdef\b", line):
            raise ValueError("normaliser: unrecognised cdef line %d: %r" % (ln, line))
        out.append(line)
    n.py_text = "\n".join(out) + "\n"
    n.tree = ast.parse(n.py_text)
    n.funcs = {f.name: f for f in n.tree.body if isinstance(f, ast.FunctionDef)}
    return n


def crosscheck_types(src, norm):
    """Compare the recovered local C declarations with Cython's own parse of the file.
    Returns (n_declarations_compared, list_of_mismatches)."""
    from Cython.Compiler import Nodes
    from Cython.Compiler.TreeFragment import parse_from_strings

    tree = parse_from_strings("set_operations", src)
    found = {}

    def simple(bt):
        """(ctype name, const?) of a simple/const base-type node."""
        const = False
        if bt.__class__.__name__ == "CConstTypeNode" or (hasattr(bt, "base_type") and not hasattr(bt, "name")):
            const = True
            bt = bt.base_type
        nm = bt.name
        if getattr(bt, "longness", 0) == 1:
            nm = "long"
        return CTYPES.get(nm, ("c", nm)), const

    def visit(node, func):
        if isinstance(node, Nodes.DefNode) or isinstance(node, Nodes.CFuncDefNode):
            func = node.name if hasattr(node, "name") else func
        if isinstance(node, Nodes.CVarDefNode) and func is not None:
            bt = node.base_type
            is_mv = bt.__class__.__name__ == "MemoryViewSliceTypeNode"
            for d in node.declarators:
                nm = d.name if hasattr(d, "name") else d.base.name
                if is_mv:
                    (kind, cty), const = simple(bt.base_type_node)
                    found[(func, nm)] = ("memview", cty, const)
                else:
                    found[(func, nm)] = simple(bt)[0]
        for _, child in _children(node):
            visit(child, func)

    def _children(node):
        for attr in getattr(node, "child_attrs", []) or []:
            c = getattr(node, attr, None)
            if c is None:
                continue
            if isinstance(c, list):
                for x in c:
                    if hasattr(x, "child_attrs"):
                        yield attr, x
            elif hasattr(c, "child_attrs"):
                yield attr, c

    visit(tree, None)
    mism = []
    for k, v in found.items():
        if norm.types.get(k) != v:
            mism.append((k, norm.types.get(k), v))
    return len(found), mism
