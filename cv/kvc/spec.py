"""The contract clause language and its two renderings (DESIGN §1 "one contract, two renderings").

A clause is a Python-syntax expression over:

  integers, names, + - *, ** (constant), comparisons (chained), and / or / not,
  `P >> Q` (implication), a[i], len(a), min(a, b), max(a, b),
  forall(i, lo, hi, P)        for all i with lo <= i < hi
  forall(i, j, lo, hi, P)     for all i, j with lo <= i < j < hi   (ordered pair)
  exists(i, lo, hi, P)
  inc(a, m)                   a[0..m) strictly increasing       == forall(i, j, 0, m, a[i] < a[j])
  mem(x, a, m)                x occurs in a[0..m)               == exists(q, 0, m, a[q] == x)
  NAME(args...)               a macro defined in the sidecar (textual, hygienic by renaming)

`to_z3` renders a clause as a z3 term over a symbolic state; `to_py` evaluates the same clause
on concrete Python values.  Both walk the same AST, so a counterexample produced by the solver
is judged on the real code by the clause that failed.  The two renderers are part of the
trusted base; `selfcheck()` evaluates a battery of clauses both ways on concrete states
(z3 side: substitute the concrete state and simplify/solve) and must agree.
"""
import ast
import itertools

import z3

_fresh = itertools.count()


class Arr:
    """Symbolic array value: length term + z3 Array(Int -> Int)."""

    def __init__(self, name, length, store=None, elem="uint32"):
        self.name = name
        self.len = length
        self.a = store if store is not None else z3.Array(name, z3.IntSort(), z3.IntSort())
        self.elem = elem

    def __repr__(self):
        return "Arr(%s)" % self.name


class Macros(dict):
    """name -> (params, body_text)"""


def _expand_macro(node, macros):
    """Textual macro expansion on the AST (arguments substituted for parameters)."""

    class Sub(ast.NodeTransformer):
        def __init__(self, mapping):
            self.mapping = mapping

        def visit_Name(self, n):
            if n.id in self.mapping:
                return self.mapping[n.id]
            return n

    params, body = macros[node.func.id]
    if len(params) != len(node.args):
        raise SpecError("macro %s arity" % node.func.id)
    tree = ast.parse(body, mode="eval").body
    return Sub(dict(zip(params, node.args))).visit(tree)


class SpecError(Exception):
    pass


def parse(text):
    return ast.parse(text.strip(), mode="eval").body


# --------------------------------------------------------------------------- z3 rendering


def to_z3(text_or_ast, names, macros=None):
    """names: dict name -> z3 ArithRef | z3 BoolRef | Arr | python int."""
    macros = macros or {}
    env = dict(names)

    def arr(e):
        if isinstance(e, ast.Name) and isinstance(env.get(e.id), Arr):
            return env[e.id]
        raise SpecError("not an array: %s" % ast.unparse(e))

    def tr(e):
        if isinstance(e, ast.Constant):
            if isinstance(e.value, bool):
                return z3.BoolVal(e.value)
            if isinstance(e.value, int):
                return z3.IntVal(e.value)
            raise SpecError("constant %r" % (e.value,))
        if isinstance(e, ast.Name):
            if e.id not in env:
                raise SpecError("unbound name %s" % e.id)
            v = env[e.id]
            if isinstance(v, int) and not isinstance(v, bool):
                return z3.IntVal(v)
            if isinstance(v, bool):
                return z3.BoolVal(v)
            if isinstance(v, Arr):
                raise SpecError("array %s used as scalar" % e.id)
            return v
        if isinstance(e, ast.BinOp):
            if isinstance(e.op, ast.RShift):
                return z3.Implies(tr(e.left), tr(e.right))
            a, b = tr(e.left), tr(e.right)
            if isinstance(e.op, ast.Add):
                return a + b
            if isinstance(e.op, ast.Sub):
                return a - b
            if isinstance(e.op, ast.Mult):
                return a * b
            if isinstance(e.op, ast.Pow):
                a, b = z3.simplify(a), z3.simplify(b)
                return z3.IntVal(a.as_long() ** b.as_long())
            raise SpecError("operator %s" % ast.dump(e.op))
        if isinstance(e, ast.UnaryOp):
            if isinstance(e.op, ast.Not):
                return z3.Not(tr(e.operand))
            if isinstance(e.op, ast.USub):
                return -tr(e.operand)
        if isinstance(e, ast.BoolOp):
            xs = [tr(x) for x in e.values]
            return z3.And(*xs) if isinstance(e.op, ast.And) else z3.Or(*xs)
        if isinstance(e, ast.Compare):
            xs = [tr(e.left)] + [tr(c) for c in e.comparators]
            out = []
            for (a, b), op in zip(zip(xs, xs[1:]), e.ops):
                out.append(_cmp(op, a, b))
            return z3.And(*out) if len(out) > 1 else out[0]
        if isinstance(e, ast.Subscript):
            return z3.Select(arr(e.value).a, tr(e.slice))
        if isinstance(e, ast.IfExp):
            return z3.If(tr(e.test), tr(e.body), tr(e.orelse))
        if isinstance(e, ast.Call) and isinstance(e.func, ast.Name):
            f = e.func.id
            if f in macros:
                return tr(_expand_macro(e, macros))
            if f in env and callable(env[f]) and not isinstance(env[f], Arr):
                # ghost function of the sidecar (e.g. CS(a), L(a), E(a, i), psum(P, j)): arrays are passed as Arr
                args = [env[a.id] if isinstance(a, ast.Name) and isinstance(env.get(a.id), Arr) else tr(a) for a in e.args]
                return env[f](*args)
            if f == "len":
                return arr(e.args[0]).len
            if f in ("min", "max"):
                a, b = tr(e.args[0]), tr(e.args[1])
                return z3.If(a < b, a, b) if f == "min" else z3.If(a > b, a, b)
            if f in ("forall", "exists"):
                names_ = [a.id for a in e.args[:-3]]
                lo, hi, body = e.args[-3:]
                saved = {n: env.get(n, None) for n in names_}
                k = next(_fresh)
                vs = [z3.Int("%s!q%d" % (n, k)) for n in names_]
                lo_, hi_ = tr(lo), tr(hi)
                for n, v in zip(names_, vs):
                    env[n] = v
                if len(vs) == 1:
                    rng = z3.And(lo_ <= vs[0], vs[0] < hi_)
                elif len(vs) == 2:
                    rng = z3.And(lo_ <= vs[0], vs[0] < vs[1], vs[1] < hi_)
                else:
                    raise SpecError("quantifier arity")
                b = tr(body)
                for n in names_:
                    if saved[n] is None:
                        env.pop(n, None)
                    else:
                        env[n] = saved[n]
                if f == "forall":
                    return z3.ForAll(vs, z3.Implies(rng, b))
                return z3.Exists(vs, z3.And(rng, b))
            if f == "inc":
                a, m = e.args
                t = "forall(i_, j_, 0, %s, %s[i_] < %s[j_])" % (ast.unparse(m), a.id, a.id)
                return tr(parse(t))
            if f == "mem":
                x, a, m = e.args
                t = "exists(q_, 0, %s, %s[q_] == (%s))" % (ast.unparse(m), a.id, ast.unparse(x))
                return tr(parse(t))
        raise SpecError("unsupported clause syntax: %s" % ast.dump(e)[:120])

    node = parse(text_or_ast) if isinstance(text_or_ast, str) else text_or_ast
    return tr(node)


def _cmp(op, a, b):
    t = type(op)
    if t is ast.Lt:
        return a < b
    if t is ast.LtE:
        return a <= b
    if t is ast.Gt:
        return a > b
    if t is ast.GtE:
        return a >= b
    if t is ast.Eq:
        return a == b
    if t is ast.NotEq:
        return a != b
    raise SpecError("comparison %s" % t)


# --------------------------------------------------------------------------- executable rendering


def to_py(text_or_ast, names, macros=None):
    """Evaluate the clause on concrete values (ints, bools, sequences of ints)."""
    macros = macros or {}
    env = dict(names)

    def ev(e):
        if isinstance(e, ast.Constant):
            return e.value
        if isinstance(e, ast.Name):
            if e.id not in env:
                raise SpecError("unbound name %s" % e.id)
            return env[e.id]
        if isinstance(e, ast.BinOp):
            if isinstance(e.op, ast.RShift):
                return (not ev(e.left)) or bool(ev(e.right))
            a, b = ev(e.left), ev(e.right)
            if isinstance(e.op, ast.Add):
                return a + b
            if isinstance(e.op, ast.Sub):
                return a - b
            if isinstance(e.op, ast.Mult):
                return a * b
            if isinstance(e.op, ast.Pow):
                return a ** b
        if isinstance(e, ast.UnaryOp):
            if isinstance(e.op, ast.Not):
                return not ev(e.operand)
            if isinstance(e.op, ast.USub):
                return -ev(e.operand)
        if isinstance(e, ast.BoolOp):
            if isinstance(e.op, ast.And):
                return all(ev(x) for x in e.values)
            return any(ev(x) for x in e.values)
        if isinstance(e, ast.Compare):
            xs = [ev(e.left)] + [ev(c) for c in e.comparators]
            for (a, b), op in zip(zip(xs, xs[1:]), e.ops):
                if not _pycmp(op, a, b):
                    return False
            return True
        if isinstance(e, ast.Subscript):
            i = ev(e.slice)
            a = ev(e.value)
            if not (0 <= i < len(a)):
                # reading outside a concrete array inside a guarded quantifier body never
                # happens for well-formed clauses; treat as an unconstrained value
                raise SpecError("clause reads %s[%d] outside its length %d" % (ast.unparse(e.value), i, len(a)))
            return int(a[i])
        if isinstance(e, ast.IfExp):
            return ev(e.body) if ev(e.test) else ev(e.orelse)
        if isinstance(e, ast.Call) and isinstance(e.func, ast.Name):
            f = e.func.id
            if f in macros:
                return ev(_expand_macro(e, macros))
            if f in env and callable(env[f]):
                return env[f](*[ev(a) for a in e.args])
            if f == "len":
                return len(ev(e.args[0]))
            if f == "min":
                return min(ev(e.args[0]), ev(e.args[1]))
            if f == "max":
                return max(ev(e.args[0]), ev(e.args[1]))
            if f in ("forall", "exists"):
                names_ = [a.id for a in e.args[:-3]]
                lo, hi, body = e.args[-3:]
                lo_, hi_ = ev(lo), ev(hi)
                saved = {n: env.get(n, _MISSING) for n in names_}
                res = f == "forall"
                if len(names_) == 1:
                    combos = ((i,) for i in range(lo_, hi_))
                else:
                    combos = ((i, j) for i in range(lo_, hi_) for j in range(i + 1, hi_))
                for c in combos:
                    for n, v in zip(names_, c):
                        env[n] = v
                    b = bool(ev(body))
                    if f == "forall" and not b:
                        res = False
                        break
                    if f == "exists" and b:
                        res = True
                        break
                for n in names_:
                    if saved[n] is _MISSING:
                        env.pop(n, None)
                    else:
                        env[n] = saved[n]
                return res
            if f == "inc" and isinstance(e.args[0], ast.Name) and isinstance(env.get(e.args[0].id), (list, tuple)):
                # same meaning as the quantified form below (adjacent pairs suffice by transitivity), linear time
                seq, m_ = env[e.args[0].id], ev(e.args[1])
                if m_ > len(seq):
                    raise SpecError("clause reads %s[%d] outside its length %d" % (e.args[0].id, m_ - 1, len(seq)))
                return all(seq[i_] < seq[i_ + 1] for i_ in range(m_ - 1))
            if f == "mem" and isinstance(e.args[1], ast.Name) and isinstance(env.get(e.args[1].id), (list, tuple)):
                seq, m_ = env[e.args[1].id], ev(e.args[2])
                if m_ > len(seq):
                    raise SpecError("clause reads %s[%d] outside its length %d" % (e.args[1].id, m_ - 1, len(seq)))
                return ev(e.args[0]) in seq[:max(m_, 0)]
            if f == "inc":
                a, m = e.args
                return ev(parse("forall(i_, j_, 0, %s, %s[i_] < %s[j_])" % (ast.unparse(m), a.id, a.id)))
            if f == "mem":
                x, a, m = e.args
                return ev(parse("exists(q_, 0, %s, %s[q_] == (%s))" % (ast.unparse(m), a.id, ast.unparse(x))))
        raise SpecError("unsupported clause syntax: %s" % ast.dump(e)[:120])

    node = parse(text_or_ast) if isinstance(text_or_ast, str) else text_or_ast
    return ev(node)


_MISSING = object()


def _pycmp(op, a, b):
    t = type(op)
    return {
        ast.Lt: a < b, ast.LtE: a <= b, ast.Gt: a > b, ast.GtE: a >= b, ast.Eq: a == b, ast.NotEq: a != b,
    }[t]


def conjuncts(text, macros=None):
    """Split a clause at top-level `and`s, expanding macros on the way (each conjunct becomes
    its own solver query - the generator rule that keeps every query small)."""
    macros = macros or {}
    out = []

    def go(node):
        if isinstance(node, ast.BoolOp) and isinstance(node.op, ast.And):
            for v in node.values:
                go(v)
        elif isinstance(node, ast.Call) and isinstance(node.func, ast.Name) and node.func.id in macros:
            go(_expand_macro(node, macros))
        else:
            out.append(ast.unparse(node))

    go(parse(text))
    return out


# --------------------------------------------------------------------------- agreement self-check


def selfcheck(macros=None):
    """Evaluate a battery of clauses with both renderers on concrete states; they must agree.
    Returns number of (clause, state) pairs compared."""
    clauses = [
        "inc(a, len(a))",
        "inc(a, n)",
        "mem(x, a, len(a))",
        "forall(i, 0, len(a), a[i] < x) or exists(j, 0, len(b), b[j] == x)",
        "forall(i, 0, n, mem(a[i], b, len(b)))",
        "(n <= len(a)) >> forall(i, j, 0, n, a[i] < a[j])",
        "min(len(a), len(b)) <= n or max(x, n) == x",
        "forall(t, 0, n, exists(i, 0, len(a), exists(j, 0, len(b), a[t] == a[i] and a[i] == b[j])))",
        "not mem(x, a, n) and x + 1 > n * 2 - 2**3",
    ]
    states = []
    seqs = [[], [0], [3], [0, 1], [1, 3, 4], [4, 3], [2, 2], [0, 2, 5, 7]]
    for a in seqs:
        for b in seqs[:6]:
            for x in (0, 2, 3):
                for n in range(0, min(len(a), 3) + 1):
                    states.append(dict(a=a, b=b, x=x, n=n))
    cnt = 0
    for cl in clauses:
        node = parse(cl)
        for st in states:
            try:
                py = bool(to_py(node, st, macros))
            except SpecError:
                continue
            zenv = {}
            cons = []
            for k, v in st.items():
                if isinstance(v, list):
                    A = Arr("sc_" + k, z3.IntVal(len(v)))
                    for i, e in enumerate(v):
                        cons.append(z3.Select(A.a, i) == e)
                    zenv[k] = A
                else:
                    zenv[k] = z3.IntVal(v)
            term = to_z3(node, zenv, macros)
            s = z3.Solver()
            s.set(timeout=5000)
            s.add(*cons)
            s.add(term if not py else z3.Not(term))
            r = s.check()
            if r != z3.unsat:
                raise AssertionError("renderings disagree on %r at %r (py=%s, z3 %s)" % (cl, st, py, r))
            cnt += 1
    return cnt
