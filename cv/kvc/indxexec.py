"""Engine A for indxio.py: abstract execution of the real IndxIO.save / IndxIO.load ASTs.

The bodies are walked as found in the working tree (ast.parse, nothing rewritten) over an abstract
domain with *typed* integers:

  Py(v)            Python int, exact
  Np(v, bits)      NumPy unsigned scalar of `bits` bits; arithmetic follows NEP 50 as probed on the
                   installed NumPy: `py (+|*) np -> np` (the Python int must fit the dtype, else
                   OverflowError), `np + np -> np`, results wrap modulo 2**bits.  Every possible wrap is
                   an obligation (`no-wrap`), every Python-int-into-dtype conversion too (`pyint-fits`).
  DType, Bytes, NdArr, Seq, DictV, TupleV, FileW (write log + position), FileR (documented layout,
  possibly cut at byte k)

Uninterpreted data of an entries dict with n keys of arity d:  K(i, j) coordinate j of key i,
lens(i) the length of value i, S(t) = sum_{i<t} lens(i) (recursion axiom; the bound S(t) <= t*(2**32-1)
is proved by an induction-step obligation), rows(i, t) the row ids.

Anything outside the recognised statement/call forms raises Unsupported (sidecar no longer binds
-> the bounded byte-level check stands alone and the evidence says `proof_stale`).
"""
import ast
import itertools

import z3

from .kexec import Obl


class Unsupported(Exception):
    pass


# ------------------------------------------------------------------ abstract values
class Py:
    def __init__(self, v):
        self.v = v if z3.is_expr(v) else z3.IntVal(v)


class Np:
    def __init__(self, v, bits):
        self.v = v
        self.bits = bits if z3.is_expr(bits) else z3.IntVal(bits)


class Tok:
    def __init__(self, name, **kw):
        self.name = name
        self.__dict__.update(kw)


class DType:
    def __init__(self, itemsize, what):
        self.itemsize = itemsize if z3.is_expr(itemsize) else z3.IntVal(itemsize)
        self.what = what  # 'uint' | 'int64' | 'float64'


class Bytes:
    def __init__(self, n, what, val=None, off=None):
        self.n = n if z3.is_expr(n) else z3.IntVal(n)
        self.what = what
        self.val = val
        self.off = off


class NdArr:
    def __init__(self, shape, dtype, tag, ndim=None):
        self.shape = shape
        self.dtype = dtype
        self.tag = tag  # 'keys' | 'lens' | 'rows(i)' | 'allrows' | 'empty-float'
        self.ndim = len(shape) if ndim is None else ndim


class Seq:
    def __init__(self, n, kind, elem=None):
        self.n = n
        self.kind = kind  # 'keys' | 'lens-py' | 'lens-np' | 'coords'
        self.elem = elem


class DictV:
    def __init__(self, n, d):
        self.n = n
        self.d = d


class TupleV:
    def __init__(self, items):
        self.items = items


def maxval(bits):
    return z3.If(bits == 8, z3.IntVal(2 ** 8), z3.If(bits == 16, z3.IntVal(2 ** 16), z3.If(bits == 32, z3.IntVal(2 ** 32), z3.IntVal(2 ** 64))))


def modbits(v, bits):
    return z3.If(bits == 8, v % 2 ** 8, z3.If(bits == 16, v % 2 ** 16, z3.If(bits == 32, v % 2 ** 32, v % 2 ** 64)))


class Sym:
    """The uninterpreted data shared by save/load executions."""

    def __init__(self):
        self.n, self.d, self.c, self.maxK = z3.Ints("n d c maxK")
        self.W, self.R = z3.Ints("W R")
        self.S = z3.Function("S", z3.IntSort(), z3.IntSort())
        self.lens = z3.Function("lens", z3.IntSort(), z3.IntSort())
        self.K = z3.Function("K", z3.IntSort(), z3.IntSort(), z3.IntSort())
        t = z3.Int("t!ax")
        self.M = 2 ** 32 - 1
        self.axioms = [
            self.S(0) == 0,
            z3.ForAll([t], z3.Implies(t >= 0, self.S(t + 1) == self.S(t) + self.lens(t)), patterns=[self.S(t + 1)]),
            z3.ForAll([t], z3.Implies(t >= 0, z3.And(self.lens(t) >= 0, self.lens(t) <= self.M)), patterns=[self.lens(t)]),
        ]
        # lemma (induction principle assumed; its step is discharged as an obligation):
        self.lemma = z3.ForAll([t], z3.Implies(t >= 0, z3.And(self.S(t) >= 0, self.S(t) <= t * self.M)), patterns=[self.S(t)])
        # monotonicity of S (same status: step obligation + induction principle)
        u = z3.Int("u!ax")
        self.mono = z3.ForAll([t, u], z3.Implies(z3.And(0 <= t, t <= u), self.S(t) <= self.S(u)), patterns=[z3.MultiPattern(self.S(t), self.S(u))])

    def lemma_step_obligations(self, module):
        t = z3.Int("t!st")
        hyp = self.axioms + [t >= 0, self.S(t) >= 0, self.S(t) <= t * self.M]
        goal = z3.And(self.S(t + 1) >= 0, self.S(t + 1) <= (t + 1) * self.M)
        base = z3.And(self.S(0) >= 0, self.S(0) <= 0)
        u = z3.Int("u!st")
        hyp2 = self.axioms + [0 <= t, t <= u, self.S(t) <= self.S(u)]
        return [
            Obl(module + "/lemma-S-bounded-base", "lemma", list(self.axioms), base),
            Obl(module + "/lemma-S-bounded-step", "lemma", hyp, goal),
            Obl(module + "/lemma-S-monotone-step", "lemma", hyp2, self.S(t) <= self.S(u + 1)),
        ]


# ------------------------------------------------------------------ executor core
class Exec:
    def __init__(self, sym, fname, module="indxio.IndxIO"):
        self.sym = sym
        self.fname = fname
        self.base = "%s.%s" % (module, fname)
        self.obls = []
        self.ctr = {}
        self.fid = itertools.count()
        self.raises = []  # (label, pc) reachable-raise candidates

    def ob(self, kind, pc, goal, site=""):
        k = self.ctr.get(kind, 0) + 1
        self.ctr[kind] = k
        self.obls.append(Obl("%s/%s#%d" % (self.base, kind, k), kind, list(pc), goal, {"site": site}))

    def named(self, label, kind, pc, goal, site=""):
        self.obls.append(Obl("%s/%s" % (self.base, label), kind, list(pc), goal, {"site": site}))

    # ---- typed arithmetic
    def arith(self, op, a, b, pc, site):
        if isinstance(a, Py) and isinstance(b, Py):
            return Py({"+": a.v + b.v, "*": a.v * b.v, "-": a.v - b.v}[op])
        if not (isinstance(a, (Py, Np)) and isinstance(b, (Py, Np))):
            raise Unsupported("arithmetic on %s/%s at %s" % (type(a).__name__, type(b).__name__, site))
        npo = a if isinstance(a, Np) else b
        if isinstance(a, Np) and isinstance(b, Np):
            bits = z3.If(a.bits >= b.bits, a.bits, b.bits)
        else:
            bits = npo.bits
        raw = {"+": a.v + b.v, "*": a.v * b.v, "-": a.v - b.v}[op]
        for o in (a, b):
            if isinstance(o, Py):
                # NEP 50: a Python int that does not fit the NumPy operand's dtype raises OverflowError
                self.ob("pyint-fits", pc, z3.And(0 <= o.v, o.v < maxval(bits)), site)
        self.ob("no-wrap", pc, z3.And(0 <= raw, raw < maxval(bits)), site)
        return Np(modbits(raw, bits), bits)

    def binop(self, e, env, pc):
        if isinstance(e.op, ast.Pow):
            a, b = self.ev(e.left, env, pc), self.ev(e.right, env, pc)
            return Py(z3.IntVal(z3.simplify(a.v).as_long() ** z3.simplify(b.v).as_long()))
        a, b = self.ev(e.left, env, pc), self.ev(e.right, env, pc)
        ops = {ast.Add: "+", ast.Mult: "*", ast.Sub: "-"}
        if type(e.op) not in ops:
            raise Unsupported("operator in %s" % ast.unparse(e))
        return self.arith(ops[type(e.op)], a, b, pc, ast.unparse(e)[:60])

    def common_ev(self, e, env, pc):
        """Expression forms shared by save and load; returns NotImplemented if not recognised."""
        if isinstance(e, ast.Constant):
            if isinstance(e.value, bool):
                return Tok("bool", val=e.value)
            if isinstance(e.value, int):
                return Py(e.value)
            if isinstance(e.value, (str, bytes)):
                return Tok("const", val=e.value)
            raise Unsupported("constant")
        if isinstance(e, ast.Name):
            if e.id not in env:
                raise Unsupported("unbound name %s" % e.id)
            return env[e.id]
        if isinstance(e, ast.BinOp):
            return self.binop(e, env, pc)
        if isinstance(e, ast.Attribute):
            t = ast.unparse(e)
            if t == "IndxIO.INDEXED_MAGIC":
                return Bytes(4, "magic", val="INDX")
            if t == "IndxIO.VERSION":
                return Bytes(4, "version", val="0001")
            if t == "numpy.uint32":
                return DType(4, "uint")
            if t in ("mmap.MAP_SHARED", "mmap.PROT_READ"):
                return Tok("flag")
        if isinstance(e, ast.Tuple):
            return TupleV([self.ev(x, env, pc) for x in e.elts])
        return NotImplemented


def fit_dtype_contract(ex, a, pc, site):
    """Call site of fit_dtype(maxval) with minval defaulted to 0: its contract (proved under C19)."""
    W = z3.Int("W!fit%d" % next(ex.fid))
    ex.ob("call-fit_dtype-requires", pc, z3.And(0 <= a.v, a.v < 2 ** 64), site)
    pc.append(z3.And(z3.Or(W == 1, W == 2, W == 4, W == 8), a.v < maxval(W * 8), z3.Implies(W > 1, a.v >= maxval(W * 4))))
    return DType(W, "uint")


# ------------------------------------------------------------------ IndxIO.save
class SaveExec(Exec):
    """One run per case (n == 0 / n > 0): numpy.array([]) is a 1-D float64 array."""

    def __init__(self, sym, nzero):
        super().__init__(sym, "save")
        self.nzero = nzero
        self.pos = z3.IntVal(0)
        self.log = []  # (what, nbytes, value)
        self.tag = "[n=0]" if nzero else "[n>0]"
        self.base += self.tag

    def write(self, b):
        if not isinstance(b, Bytes):
            raise Unsupported("f.write of non-bytes")
        self.log.append((b.what, b.n, b.val))
        self.pos = self.pos + b.n

    def ev(self, e, env, pc):
        r = self.common_ev(e, env, pc)
        if r is not NotImplemented:
            return r
        s = self.sym
        if isinstance(e, ast.IfExp):
            c = z3.simplify(self.cond(e.test, env, pc))
            if z3.is_true(c):
                return self.ev(e.body, env, pc)
            if z3.is_false(c):
                return self.ev(e.orelse, env, pc)
            a = self.ev(e.body, env, pc + [c])
            b = self.ev(e.orelse, env, pc + [z3.Not(c)])
            if isinstance(a, Py) and isinstance(b, Py):
                return Py(z3.If(c, a.v, b.v))
            raise Unsupported("conditional expression kinds")
        if isinstance(e, ast.Attribute):
            o = self.ev(e.value, env, pc)
            if e.attr == "itemsize" and isinstance(o, DType):
                return Py(o.itemsize)
            if isinstance(o, NdArr):
                if e.attr == "nbytes":
                    nb = z3.IntVal(1)
                    for dim in o.shape:
                        nb = nb * dim
                    return Py(nb * o.dtype.itemsize)
                if e.attr == "dtype":
                    return o.dtype
                if e.attr == "ndim":
                    return Py(o.ndim)
                if e.attr == "shape":
                    return Tok("shape", dims=o.shape)
            if e.attr == "dtype" and isinstance(o, Tok) and o.name == "entry":
                return o.dtype
            raise Unsupported("attribute %s" % ast.unparse(e))
        if isinstance(e, ast.Subscript):
            o = self.ev(e.value, env, pc)
            if isinstance(o, Tok) and o.name == "shape" and isinstance(e.slice, ast.Constant):
                if e.slice.value >= len(o.dims):
                    raise Unsupported("shape index")
                return Py(o.dims[e.slice.value])
            if isinstance(o, DictV):
                idx = self.ev(e.slice, env, pc)
                return Tok("entry", idx=idx, dtype=env["__entry_dtype"])
            raise Unsupported("subscript %s" % ast.unparse(e))
        if isinstance(e, ast.ListComp):
            if ast.unparse(e.elt).replace(" ", "") == "len(entries[coords])" and len(e.generators) == 1:
                seq = self.ev(e.generators[0].iter, env, pc)
                if isinstance(seq, Seq) and seq.kind == "keys":
                    return Seq(seq.n, "lens-py")
            raise Unsupported("list comprehension %s" % ast.unparse(e))
        if isinstance(e, ast.Call):
            return self.call(e, env, pc)
        raise Unsupported("expression %s" % ast.unparse(e)[:80])

    def call(self, e, env, pc):
        s = self.sym
        f = ast.unparse(e.func)
        if f == "len":
            o = self.ev(e.args[0], env, pc)
            if isinstance(o, (DictV, Seq)):
                return Py(o.n)
            if isinstance(o, NdArr):
                return Py(o.shape[0])
        if f in ("list", "entries.keys"):
            if f == "list":
                inner = self.ev(e.args[0], env, pc)
                if isinstance(inner, Seq) and inner.kind == "keys":
                    return inner
                raise Unsupported("list() of %s" % ast.unparse(e.args[0]))
            return Seq(env["entries"].n, "keys")
        if f == "numpy.array":
            o = self.ev(e.args[0], env, pc)
            if isinstance(o, Seq) and o.kind == "keys" and not e.keywords:
                if self.nzero:
                    return NdArr([z3.IntVal(0)], DType(8, "float64"), "empty-float")
                return NdArr([o.n, env["entries"].d], DType(8, "int64"), "keys")
            if isinstance(o, Seq) and o.kind == "lens-py" and len(e.keywords) == 1 and e.keywords[0].arg == "dtype":
                dt = self.ev(e.keywords[0].value, env, pc)
                i = z3.Int("i!l%d" % next(self.fid))
                # numpy.array([python ints], dtype=uintR) raises OverflowError unless every int fits
                self.ob("lens-fit-rowid-dtype", pc, z3.ForAll([i], z3.Implies(z3.And(0 <= i, i < o.n), s.lens(i) < maxval(dt.itemsize * 8))),
                        ast.unparse(e)[:60])
                return NdArr([o.n], dt, "lens")
        if f == "numpy.max":
            o = self.ev(e.args[0], env, pc)
            if isinstance(o, NdArr) and o.tag == "keys":
                return Py(s.maxK)
        if f == "max" and len(e.args) == 2:
            a, b = self.ev(e.args[0], env, pc), self.ev(e.args[1], env, pc)
            return Py(z3.If(a.v > b.v, a.v, b.v))
        if f == "fit_dtype" and len(e.args) == 1 and not e.keywords:
            return fit_dtype_contract(self, self.ev(e.args[0], env, pc), pc, ast.unparse(e)[:60])
        if f.endswith(".astype"):
            o = self.ev(e.func.value, env, pc)
            dt = self.ev(e.args[0], env, pc)
            if isinstance(o, NdArr) and isinstance(dt, DType):
                if o.tag == "keys":
                    # int64 -> uintW keeps every coordinate iff 0 <= K < 2**(8W)
                    self.ob("astype-preserves-values", pc, z3.And(s.maxK < maxval(dt.itemsize * 8), s.maxK >= 0), ast.unparse(e)[:60])
                return NdArr(o.shape, dt, o.tag, o.ndim)
        if f == "sum" and len(e.args) == 1:
            o = self.ev(e.args[0], env, pc)
            if isinstance(o, NdArr) and o.tag == "lens":
                if self.nzero:
                    return Py(0)  # builtin sum of an empty array is the Python int 0
                bits = o.dtype.itemsize * 8
                # builtin sum over a uintR array accumulates in uintR (NEP 50) and wraps
                self.ob("no-wrap", pc, s.S(o.shape[0]) < maxval(bits), "sum(lengths)")
                return Np(modbits(s.S(o.shape[0]), bits), bits)
        if f.endswith(".sum") and isinstance(e.func, ast.Attribute):
            o = self.ev(e.func.value, env, pc)
            kw = {k.arg: ast.unparse(k.value) for k in e.keywords}
            if isinstance(o, NdArr) and o.tag == "lens" and not e.args and kw in ({"dtype": "numpy.uint64"},):
                self.ob("no-wrap", pc, s.S(o.shape[0]) < 2 ** 64, "lengths.sum(dtype=uint64)")
                return Np(s.S(o.shape[0]) % 2 ** 64, 64)
        if f == "int" and len(e.args) == 1:
            o = self.ev(e.args[0], env, pc)
            if isinstance(o, (Np, Py)):
                return Py(o.v)
        if f == "struct.pack" and len(e.args) == 2:
            fmt = self.ev(e.args[0], env, pc)
            v = self.ev(e.args[1], env, pc)
            if isinstance(fmt, Tok) and fmt.name == "fmt":
                size = fmt.size
            elif isinstance(fmt, Tok) and fmt.name == "const" and fmt.val in ("<Q", "<L", "<B", "<H"):
                size = z3.IntVal({"<Q": 8, "<L": 4, "<B": 1, "<H": 2}[fmt.val])
            else:
                raise Unsupported("struct.pack format")
            if not isinstance(v, (Py, Np)):
                raise Unsupported("struct.pack value")
            self.ob("struct.pack-in-range", pc, z3.And(0 <= v.v, v.v < maxval(size * 8)), ast.unparse(e)[:60])
            return Bytes(size, "pack(%s)" % ast.unparse(e.args[1])[:40], val=v.v)
        if f == "IndxIO.format" and len(e.args) == 1:
            a = self.ev(e.args[0], env, pc)
            # contract of IndxIO.format (proved under C19): little-endian unsigned struct code of that size
            self.ob("call-IndxIO.format-requires", pc, z3.Or(a.v == 1, a.v == 2, a.v == 4, a.v == 8), ast.unparse(e)[:60])
            return Tok("fmt", size=a.v)
        if f == "f.tell" and not e.args:
            return Py(self.pos)
        raise Unsupported("call %s" % ast.unparse(e)[:80])

    def cond(self, e, env, pc):
        if isinstance(e, ast.Compare) and len(e.ops) == 1:
            a, b = self.ev(e.left, env, pc), self.ev(e.comparators[0], env, pc)
            op = type(e.ops[0])
            if isinstance(a, DType) and isinstance(b, DType):
                if a.what == b.what == "uint":
                    eq = a.itemsize == b.itemsize
                else:
                    eq = z3.BoolVal(a.what == b.what and a.what != "uint")
                return eq if op is ast.Eq else z3.Not(eq)
            if isinstance(a, (Py, Np)) and isinstance(b, (Py, Np)):
                return {ast.Lt: a.v < b.v, ast.LtE: a.v <= b.v, ast.Gt: a.v > b.v, ast.GtE: a.v >= b.v, ast.Eq: a.v == b.v,
                        ast.NotEq: a.v != b.v}[op]
        raise Unsupported("condition %s" % ast.unparse(e)[:80])

    def run(self, stmts, env, pc):
        s = self.sym
        for i, st in enumerate(stmts):
            if isinstance(st, ast.Expr):
                if isinstance(st.value, ast.Constant):
                    continue
                c = st.value
                if not isinstance(c, ast.Call):
                    raise Unsupported("expression statement")
                f = ast.unparse(c.func)
                if f == "f.write" and len(c.args) == 1:
                    self.write(self.ev(c.args[0], env, pc))
                    continue
                if f.endswith(".tofile") and len(c.args) == 1 and ast.unparse(c.args[0]) == "f":
                    o = self.ev(c.func.value, env, pc)
                    if isinstance(o, NdArr):
                        nb = z3.IntVal(1)
                        for dim in o.shape:
                            nb = nb * dim
                        self.write(Bytes(nb * o.dtype.itemsize, "dump(%s)" % o.tag, val=("array", o.tag, o.dtype.itemsize)))
                    elif isinstance(o, Tok) and o.name == "entry":
                        self.write(Bytes(s.lens(o.idx.v) * o.dtype.itemsize, "dump(entry)", val=("entry", o.idx.v)))
                    else:
                        raise Unsupported("tofile receiver")
                    continue
                raise Unsupported("statement %s" % ast.unparse(st)[:60])
            if isinstance(st, ast.Assign) and len(st.targets) == 1 and isinstance(st.targets[0], ast.Name):
                env[st.targets[0].id] = self.ev(st.value, env, pc)
                continue
            if isinstance(st, ast.If):
                c = self.cond(st.test, env, pc)
                if any(isinstance(t, ast.Raise) for t in st.body) and not st.orelse:
                    self.raises.append((ast.unparse(st.test)[:60], list(pc) + [c]))
                    pc.append(z3.Not(c))
                    continue
                sv = z3.Solver()
                sv.set("timeout", 20000)
                sv.add(*pc)
                sv.add(c)
                if sv.check() == z3.unsat:
                    self.run(st.orelse + stmts[i + 1:], env, pc + [z3.Not(c)])
                    return
                sv = z3.Solver()
                sv.set("timeout", 20000)
                sv.add(*pc)
                sv.add(z3.Not(c))
                if sv.check() == z3.unsat:
                    self.run(st.body + stmts[i + 1:], env, pc + [c])
                    return
                raise Unsupported("data-dependent fork at `%s`" % ast.unparse(st.test)[:60])
            if isinstance(st, ast.For) and isinstance(st.target, ast.Name):
                seq = self.ev(st.iter, env, pc)
                if not (isinstance(seq, Seq) and seq.kind == "keys"):
                    raise Unsupported("loop iterable")
                # sidecar invariant (loop 1): after m iterations  tell(f) == base + R * S(m)
                base = self.pos
                m = z3.Int("m!%d" % next(self.fid))
                R = env["dtype"].itemsize
                self.named("loop1-inv-init", "loop-inv-init", pc, base == base + R * s.S(0))
                self.pos = base + R * s.S(m)
                env[st.target.id] = Py(m)
                pc2 = pc + [0 <= m, m < seq.n]
                nlog = len(self.log)
                self.run(st.body, env, pc2)
                body_log = self.log[nlog:]
                del self.log[nlog:]
                self.named("loop1-inv-preserved", "loop-inv-pres", pc2, self.pos == base + R * s.S(m + 1))
                ok_struct = len(body_log) == 1 and body_log[0][0] == "dump(entry)"
                self.named("loop1-writes-exactly-entry-m", "post", pc2,
                           (body_log[0][2][1] == m) if ok_struct else z3.BoolVal(False), "body writes: %r" % [w for w, _, _ in body_log])
                self.pos = base + R * s.S(seq.n)
                self.log.append(("dump(entries[i]) for i in order", R * s.S(seq.n), ("all-entries",)))
                continue
            raise Unsupported("statement %s" % ast.dump(st)[:60])


def save_requires(sym, nzero, R=4):
    s = sym
    i, j = z3.Ints("i!rq j!rq")
    return s.axioms + [s.lemma] + [
        (s.n == 0) if nzero else (s.n > 0), s.n < 2 ** 32, s.d >= 1, s.d <= 255, s.R == R,
        0 <= s.c, s.c < 2 ** 63, 0 <= s.maxK, s.maxK < 2 ** 63,
        s.S(s.n) < 2 ** 50,  # fewer than 2**50 row ids in one file (stated bound; keeps the file below 2**53 bytes)
    ]


def run_save(fn, sym, nzero):
    ex = SaveExec(sym, nzero)
    env = {
        "entries": DictV(sym.n, sym.d), "common": Py(sym.c), "dtype": DType(sym.R, "uint"), "f": Tok("file"),
        "__entry_dtype": DType(sym.R, "uint"),
    }
    pc = save_requires(sym, nzero)
    ex.run(list(fn.body), env, pc)
    s = sym
    # ---- exceptional paths must be unreachable inside requires
    for why, rpc in ex.raises:
        ex.named("raise-unreachable[%s]" % why, "post", rpc, z3.BoolVal(False), why)
    # ---- write sequence == documented layout
    names = [w for w, _, _ in ex.log]
    want = ["magic", "version", "pack", "pack", "pack", "pack", "pack", "dump(keys)" if not nzero else "dump(empty-float)", "pack", "dump(lens)",
            "dump(entries[i]) for i in order"]
    shape_ok = len(names) == len(want) and all(a == b or (b == "pack" and a.startswith("pack(")) for a, b in zip(names, want))
    ex.named("post-write-sequence-is-documented-layout", "post", pc, z3.BoolVal(bool(shape_ok)), "writes: %r" % (names,))
    if shape_ok:
        L = ex.log
        W = L[5][2]
        final = ex.pos
        dfield = z3.IntVal(0) if nzero else s.d
        mx = z3.If(s.maxK > s.c, s.maxK, s.c) if not nzero else s.c
        goals = [
            ("post-field-widths", z3.And(L[0][1] == 4, L[1][1] == 4, L[2][1] == 8, L[3][1] == 1, L[4][1] == 4, L[5][1] == 1, L[6][1] == W, L[8][1] == 1)),
            ("post-size-field-equals-payload", L[2][2] == final - 16),
            ("post-dims-field", L[3][2] == dfield),
            ("post-length-field", L[4][2] == s.n),
            ("post-index-word-size-narrowest", z3.And(z3.Or(W == 1, W == 2, W == 4, W == 8), mx < maxval(W * 8), z3.Implies(W > 1, mx >= maxval(W * 4)))),
            ("post-common-field", L[6][2] == s.c),
            ("post-index-bytes", L[7][1] == s.n * dfield * W if not nzero else L[7][1] == 0),
            ("post-rowid-word-size-field", L[8][2] == s.R),
            ("post-lengths-bytes", L[9][1] == s.n * s.R),
            ("post-rowids-bytes", L[10][1] == s.R * s.S(s.n)),
            ("post-total-length", final == 16 + 1 + 4 + 1 + W + (s.n * dfield * W if not nzero else 0) + 1 + s.n * s.R + s.R * s.S(s.n)),
        ]
        if not nzero and isinstance(L[7][2], tuple):
            goals.append(("post-index-dumped-in-index-word-size", L[7][2][2] == W))
        for nm, g in goals:
            ex.named(nm, "post", pc, g)
    ex.named("canary@end", "canary", pc, z3.BoolVal(False))
    return ex


# ------------------------------------------------------------------ IndxIO.load
class Field:
    def __init__(self, name, off, size, value):
        self.name, self.off, self.size, self.value = name, off, size, value


class LoadExec(Exec):
    """Abstract execution of load() on a file whose content is the documented layout
    Layout(E, c, W, R) for ANY W, R in {1, 2, 4, 8} wide enough (not only what the saver picks),
    optionally cut at byte k (C12).  `T` is the full length, `k` the available length."""

    def __init__(self, sym, torn=False):
        super().__init__(sym, "load")
        s = sym
        self.torn = torn
        self.T = z3.Int("T")
        self.k = z3.Int("k") if torn else self.T
        self.pos = z3.IntVal(0)
        self.dfield = z3.Int("dfield")
        off_index = 22 + s.W
        off_R = off_index + s.n * self.dfield * s.W
        off_lens = off_R + 1
        off_rows = off_lens + s.n * s.R
        self.off = dict(index=off_index, R=off_R, lens=off_lens, rows=off_rows)
        self.total = off_rows + s.R * s.S(s.n)
        self.fields = [
            Field("size", z3.IntVal(8), z3.IntVal(8), self.T - 16),
            Field("dims", z3.IntVal(16), z3.IntVal(1), self.dfield),
            Field("n", z3.IntVal(17), z3.IntVal(4), s.n),
            Field("W", z3.IntVal(21), z3.IntVal(1), s.W),
            Field("common", z3.IntVal(22), s.W, s.c),
            Field("R", off_R, z3.IntVal(1), s.R),
        ]
        self.outcomes = []  # (kind, pc) kind: 'raise ...' | 'return'
        self.returned = None

    def requires(self):
        s = self.sym
        wide = lambda v, w: v < maxval(w * 8)  # noqa
        pc = s.axioms + [s.lemma, s.mono] + [
            z3.Or(s.W == 1, s.W == 2, s.W == 4, s.W == 8), z3.Or(s.R == 1, s.R == 2, s.R == 4, s.R == 8),
            s.n >= 0, s.n < 2 ** 32, self.dfield >= 0, self.dfield <= 255,
            0 <= s.c, wide(s.c, s.W), 0 <= s.maxK, z3.Or(s.n == 0, wide(s.maxK, s.W)),
            self.T == self.total, self.T < 2 ** 53,
        ]
        t = z3.Int("t!lr")
        # every length fits the row-id word (it is stored in one)
        pc.append(z3.ForAll([t], z3.Implies(t >= 0, s.lens(t) < maxval(s.R * 8)), patterns=[s.lens(t)]))
        if self.torn:
            pc += [0 <= self.k, self.k < self.T]
        return pc

    # ---- helpers
    def lookup(self, off, size, pc, site):
        """Value of the documented field at [off, off+size): obligation that it IS a field."""
        v = z3.Int("fld!%d" % next(self.fid))
        match = []
        for f in self.fields:
            hit = z3.And(off == f.off, size == f.size)
            match.append(hit)
            pc.append(z3.Implies(hit, v == f.value))
        self.ob("field-aligned", pc, z3.Or(*match), site)
        return v

    def ev(self, e, env, pc):
        r = self.common_ev(e, env, pc)
        if r is not NotImplemented:
            return r
        s = self.sym
        if isinstance(e, ast.Attribute):
            o = self.ev(e.value, env, pc)
            if isinstance(o, NdArr) and e.attr == "nbytes":
                nb = z3.IntVal(1)
                for dim in o.shape:
                    nb = nb * dim
                return Py(nb * o.dtype.itemsize)
            if isinstance(o, NdArr) and e.attr == "dtype":
                return o.dtype
            if isinstance(o, DType) and e.attr == "itemsize":
                return Py(o.itemsize)
            raise Unsupported("attribute %s" % ast.unparse(e))
        if isinstance(e, ast.Subscript):
            t = ast.unparse(e.value)
            if t.startswith("struct.unpack(") and isinstance(e.slice, ast.Constant) and e.slice.value == 0:
                c = e.value
                fmt = self.ev(c.args[0], env, pc)
                b = self.ev(c.args[1], env, pc)
                size = {"<Q": 8, "<L": 4, "<H": 2, "<B": 1}[fmt.val]
                # contract of struct.unpack (probed): struct.error unless len(buffer) == size
                self.outcomes.append(("raise struct.error(unpack %s)" % fmt.val, pc + [b.n != size]))
                pc.append(b.n == size)
                return Py(self.lookup(b.off, z3.IntVal(size), pc, ast.unparse(e)[:60]))
            if t.startswith("struct.unpack_from(") and isinstance(e.slice, ast.Constant) and e.slice.value == 0:
                c = e.value
                fmt = self.ev(c.args[0], env, pc)
                buf = self.ev(c.args[1], env, pc)
                kw = {k.arg: k.value for k in c.keywords}
                off = self.ev(kw["offset"], env, pc) if "offset" in kw else Py(0)
                if isinstance(fmt, Tok) and fmt.name == "fmt":
                    size = fmt.size
                else:
                    size = z3.IntVal({"<Q": 8, "<L": 4, "<H": 2, "<B": 1}[fmt.val])
                if len(c.args) == 3 and "offset" not in kw:
                    off = self.ev(c.args[2], env, pc)
                # contract of struct.unpack_from (probed): struct.error unless 0 <= offset and offset + size <= len(buffer)
                if isinstance(buf, Bytes) and buf.off is not None:
                    # bytes read earlier from the file: the buffer is the file segment [buf.off, buf.off + buf.n)
                    self.outcomes.append(("raise struct.error(unpack_from)", pc + [z3.Or(off.v < 0, off.v + size > buf.n)]))
                    pc.append(z3.And(off.v >= 0, off.v + size <= buf.n))
                    return Py(self.lookup(buf.off + off.v, size, pc, ast.unparse(e)[:60]))
                self.outcomes.append(("raise struct.error(unpack_from)", pc + [off.v + size > buf.length]))
                pc.append(off.v + size <= buf.length)
                return Py(self.lookup(off.v, size, pc, ast.unparse(e)[:60]))
            o = self.ev(e.value, env, pc)
            if isinstance(o, Seq) and o.kind == "coords" and isinstance(e.slice, ast.Constant) and e.slice.value == 0:
                return Tok("key", i=z3.IntVal(0))
            if isinstance(o, Bytes) and o.off is not None and isinstance(e.slice, ast.Slice) and e.slice.step is None:
                # slice of bytes read from the file (Python semantics for non-negative constant bounds: clamped to the length)
                def bound(x, default):
                    if x is None:
                        return default
                    v = self.ev(x, env, pc)
                    if not isinstance(v, Py) or not z3.is_int_value(z3.simplify(v.v)) or z3.simplify(v.v).as_long() < 0:
                        raise Unsupported("bytes slice bound %s" % ast.unparse(x))
                    return v.v
                lo, hi = bound(e.slice.lower, z3.IntVal(0)), bound(e.slice.upper, o.n)
                lo_ = z3.If(lo < o.n, lo, o.n)
                hi_ = z3.If(hi < o.n, hi, o.n)
                return Bytes(z3.If(hi_ > lo_, hi_ - lo_, 0), "read", off=o.off + lo_)
            if isinstance(o, NdArr) and o.tag == "allrows" and isinstance(e.slice, ast.Slice) and e.slice.step is None:
                lo = self.ev(e.slice.lower, env, pc)
                hi = self.ev(e.slice.upper, env, pc)
                return NdArr([hi.v - lo.v], o.dtype, ("rowslice", lo.v, hi.v, o.shape[0]))
            raise Unsupported("subscript %s" % ast.unparse(e)[:60])
        if isinstance(e, ast.ListComp):
            t = ast.unparse(e).replace(" ", "")
            if t == "[tuple(row)forrowinindex.tolist()]":
                o = env["index"]
                if isinstance(o, NdArr) and o.tag == "keys":
                    return Seq(o.shape[0], "coords")
            raise Unsupported("list comprehension %s" % ast.unparse(e)[:60])
        if isinstance(e, ast.Dict) and not e.keys:
            return Tok("dict-under-construction", items=[])
        if isinstance(e, ast.Call):
            return self.call(e, env, pc)
        raise Unsupported("expression %s" % ast.unparse(e)[:80])

    def call(self, e, env, pc):
        s = self.sym
        f = ast.unparse(e.func)
        if f == "f.read" and len(e.args) == 1:
            nreq = self.ev(e.args[0], env, pc).v
            avail = z3.If(self.k - self.pos > 0, self.k - self.pos, 0)
            ln = z3.If(nreq < avail, nreq, avail)
            b = Bytes(ln, "read", off=self.pos)
            self.pos = self.pos + ln
            return b
        if f == "f.fileno":
            return Tok("fileno")
        if f == "mmap.mmap" and len(e.args) >= 2:
            L = self.ev(e.args[1], env, pc)
            # contract of mmap.mmap(fd, length) (probed): ValueError when length exceeds the file size;
            # length 0 maps the whole file (never 0 here: 16 + size >= 16)
            # contract of mmap.mmap(fd, length) (probed): ValueError when length exceeds the file size or is negative;
            # length 0 maps the WHOLE file as it is on disk (ValueError only for an empty file)
            self.outcomes.append(("raise ValueError(mmap length > file size)", pc + [L.v > self.k]))
            self.outcomes.append(("raise (mmap of negative length / of an empty file)", pc + [z3.Or(L.v < 0, z3.And(L.v == 0, self.k == 0))]))
            pc.append(z3.And(L.v <= self.k, L.v >= 0, z3.Or(L.v > 0, self.k > 0)))
            return Tok("buf", length=z3.If(L.v == 0, self.k, L.v))
        if f == "IndxIO.format" and len(e.args) == 1:
            a = self.ev(e.args[0], env, pc)
            self.ob("call-IndxIO.format-requires", pc, z3.Or(a.v == 1, a.v == 2, a.v == 4, a.v == 8), ast.unparse(e)[:60])
            return Tok("fmt", size=a.v)
        if f == "IndxIO.dtype" and len(e.args) == 1:
            a = self.ev(e.args[0], env, pc)
            self.ob("call-IndxIO.dtype-requires", pc, z3.Or(a.v == 1, a.v == 2, a.v == 4, a.v == 8), ast.unparse(e)[:60])
            return DType(a.v, "uint")
        if f == "numpy.ndarray":
            kw = {k.arg: k.value for k in e.keywords}
            shape = self.ev(kw["shape"], env, pc)
            dims = [x.v for x in shape.items] if isinstance(shape, TupleV) else [shape.v]
            dt = self.ev(kw["dtype"], env, pc)
            buf = self.ev(kw["buffer"], env, pc)
            off = self.ev(kw["offset"], env, pc).v
            nb = dt.itemsize
            for dim in dims:
                nb = nb * dim
            site = ast.unparse(e)[:50]
            # contract of numpy.ndarray(buffer=...) (probed): TypeError when the buffer is too small
            self.outcomes.append(("raise TypeError(buffer too small)", pc + [off + nb > buf.length]))
            pc.append(off + nb <= buf.length)
            for dim in dims:
                self.ob("ndarray-shape-nonneg", pc, dim >= 0, site)
            # which documented region is this view?
            if len(dims) == 2:
                self.ob("view-is-index-field", pc, z3.And(off == self.off["index"], dims[0] == s.n, dims[1] == self.dfield, dt.itemsize == s.W), site)
                return NdArr(dims, dt, "keys")
            here_lens = z3.And(off == self.off["lens"], dims[0] == s.n, dt.itemsize == s.R)
            here_rows = z3.And(off == self.off["rows"], dims[0] == s.S(s.n), dt.itemsize == s.R)
            sv = z3.Solver()
            sv.set("timeout", 20000)
            sv.add(*pc)
            sv.add(z3.Not(here_lens))
            if sv.check() == z3.unsat:
                return NdArr(dims, dt, "lens")
            self.ob("view-is-rowids-field", pc, here_rows, site)
            return NdArr(dims, dt, "allrows")
        if f.endswith(".tolist") and isinstance(e.func, ast.Attribute):
            o = self.ev(e.func.value, env, pc)
            if isinstance(o, NdArr) and o.tag == "lens":
                return Seq(o.shape[0], "lens-py")
            if isinstance(o, NdArr) and o.tag == "keys":
                return Seq(o.shape[0], "rows-of-keys")
        if f == "len" and len(e.args) == 1:
            o = self.ev(e.args[0], env, pc)
            if isinstance(o, Seq):
                return Py(o.n)
            if isinstance(o, NdArr):
                return Py(o.shape[0])
        if f == "int" and len(e.args) == 1 and isinstance(e.args[0], ast.BinOp) and isinstance(e.args[0].op, ast.Div):
            a = self.ev(e.args[0].left, env, pc)
            b = self.ev(e.args[0].right, env, pc)
            q = z3.Int("quot!%d" % next(self.fid))
            # int(x / y) with true (float) division: exact iff both < 2**53 and y divides x
            self.ob("float-division-exact", pc, z3.And(0 <= a.v, a.v < 2 ** 53, b.v > 0, b.v < 2 ** 53, a.v % b.v == 0), ast.unparse(e)[:60])
            pc.append(z3.And(q * b.v == a.v))
            return Py(q)
        if f == "zip" and len(e.args) == 2:
            a, b = self.ev(e.args[0], env, pc), self.ev(e.args[1], env, pc)
            return Tok("zip", a=a, b=b)
        if f.endswith(".astype") and len(e.args) == 1:
            o = self.ev(e.func.value, env, pc)
            dt = self.ev(e.args[0], env, pc)
            if isinstance(o, NdArr) and isinstance(dt, DType):
                return NdArr(o.shape, dt, o.tag)
        raise Unsupported("call %s" % ast.unparse(e)[:80])

    def cond(self, e, env, pc):
        s = self.sym
        if isinstance(e, ast.Compare) and len(e.ops) == 1:
            a, b = self.ev(e.left, env, pc), self.ev(e.comparators[0], env, pc)
            op = type(e.ops[0])
            if isinstance(a, Bytes) and isinstance(b, Bytes) and op is ast.NotEq:
                # bytes read from (a prefix of) a documented file equal the constant field iff they ARE
                # that whole field: the file starts with magic(4) at 0 and version(4) at 4
                whole = z3.And(a.n == b.n, a.off == (0 if b.what == "magic" else 4))
                return z3.Not(whole)
            if isinstance(a, DType) and isinstance(b, DType):
                eq = a.itemsize == b.itemsize if a.what == b.what == "uint" else z3.BoolVal(a.what == b.what and a.what != "uint")
                return eq if op is ast.Eq else z3.Not(eq)
            if isinstance(a, (Py, Np)) and isinstance(b, (Py, Np)):
                return {ast.Lt: a.v < b.v, ast.LtE: a.v <= b.v, ast.Gt: a.v > b.v, ast.GtE: a.v >= b.v, ast.Eq: a.v == b.v,
                        ast.NotEq: a.v != b.v}[op]
        if isinstance(e, ast.BoolOp) and isinstance(e.op, ast.And) and ast.unparse(e).replace(" ", "") == \
                "all_coordsandany((type(c)isnotintforcinall_coords[0]))":
            # ndarray.tolist() yields Python ints for integer dtypes (axiom, probed): the py2 branch is dead
            return z3.BoolVal(False)
        raise Unsupported("condition %s" % ast.unparse(e)[:80])

    def run(self, stmts, env, pc):
        s = self.sym
        for i, st in enumerate(stmts):
            if isinstance(st, ast.Expr) and isinstance(st.value, ast.Constant):
                continue
            if isinstance(st, ast.Assign) and len(st.targets) == 1:
                tg = st.targets[0]
                if isinstance(tg, ast.Name):
                    env[tg.id] = self.ev(st.value, env, pc)
                    if isinstance(env[tg.id], Tok) and env[tg.id].name == "buf":
                        self.past_mmap_pc = list(pc)
                        if self.torn:
                            # C12 stops here: what matters is whether anything can get past mmap on a strict
                            # prefix (conservatively "could return"; only a replay that really returns counts)
                            return
                    continue
                if isinstance(tg, ast.Subscript) and isinstance(tg.value, ast.Name) and tg.value.id == "entries":
                    key = self.ev(tg.slice, env, pc)
                    val = self.ev(st.value, env, pc)
                    env["entries"].items.append((key, val, list(pc)))
                    continue
                raise Unsupported("assignment target")
            if isinstance(st, ast.AugAssign) and isinstance(st.target, ast.Name) and isinstance(st.op, ast.Add):
                cur = env[st.target.id]
                env[st.target.id] = self.arith("+", cur, self.ev(st.value, env, pc), pc, ast.unparse(st)[:60])
                continue
            if isinstance(st, ast.If):
                c = z3.simplify(self.cond(st.test, env, pc))
                if any(isinstance(t, ast.Raise) for t in st.body) and not st.orelse:
                    self.outcomes.append(("raise RuntimeError(%s)" % ast.unparse(st.test)[:40], pc + [c]))
                    pc.append(z3.Not(c))
                    continue
                if z3.is_false(c):
                    self.run(st.orelse + stmts[i + 1:], env, pc)
                    return
                if z3.is_true(c):
                    self.run(st.body + stmts[i + 1:], env, pc)
                    return
                # data-dependent fork (e.g. rowids.dtype != uint32): both branches, same continuation
                envA, envB = dict(env), dict(env)
                if "entries" in env and isinstance(env["entries"], Tok):
                    pass  # shared on purpose: the entries dict is the same object
                self.run(st.body + stmts[i + 1:], envA, pc + [c])
                self.run(st.orelse + stmts[i + 1:], envB, pc + [z3.Not(c)])
                return
            if isinstance(st, ast.For):
                self.loop(st, env, pc)
                continue
            if isinstance(st, ast.Return):
                self.outcomes.append(("return", list(pc)))
                self.returned = (self.ev(st.value, env, pc), list(pc), dict(env))
                return
            raise Unsupported("statement %s" % ast.dump(st)[:60])

    def loop(self, st, env, pc):
        """for length, coords in zip(<lengths>, all_coords): ... ptr += length ...
        Sidecar invariant (loop 1): ptr == S(m), entries == {key_t: rows_t : t < m}.  The first iteration
        is executed with ptr as initialised (a Python int), a generic later iteration with ptr of the
        kind the first iteration leaves behind; the kind must be stable."""
        s = self.sym
        z = self.ev(st.iter, env, pc)
        if not (isinstance(z, Tok) and z.name == "zip" and isinstance(st.target, ast.Tuple) and len(st.target.elts) == 2):
            raise Unsupported("loop form")
        la, cb = z.a, z.b
        if not (isinstance(cb, Seq) and cb.kind == "coords"):
            raise Unsupported("loop iterable (coords)")
        if isinstance(la, NdArr) and la.tag == "lens":
            mk_len = lambda m: Np(s.lens(m), la.dtype.itemsize * 8)  # iterating an ndarray yields NumPy scalars
            nl = la.shape[0]
        elif isinstance(la, Seq) and la.kind == "lens-py":
            mk_len = lambda m: Py(s.lens(m))
            nl = la.n
        else:
            raise Unsupported("loop iterable (lengths)")
        self.ob("zip-same-length", pc, nl == cb.n, "zip(lengths, all_coords)")
        lname, cname = st.target.elts[0].id, st.target.elts[1].id
        if "ptr" not in env or not isinstance(env["ptr"], Py):
            raise Unsupported("loop state `ptr`")
        self.named("loop1-inv-init", "loop-inv-init", pc, env["ptr"].v == s.S(0))
        ent = env["entries"]
        # --- first iteration (m = 0)
        e0 = dict(env)
        n0 = len(ent.items)
        pc0 = pc + [cb.n > 0]
        e0[lname], e0[cname] = mk_len(z3.IntVal(0)), Tok("key", i=z3.IntVal(0))
        self.iter_tag = "first"
        self.run(list(st.body), e0, pc0)
        self.check_iteration(ent.items[n0:], z3.IntVal(0), e0, pc0)
        kind_after_first = type(e0["ptr"])
        bits_after_first = getattr(e0["ptr"], "bits", None)
        del ent.items[n0:]
        # --- generic later iteration (m >= 1), ptr of the kind left by the first one
        m = z3.Int("m!%d" % next(self.fid))
        e1 = dict(env)
        e1["ptr"] = Py(s.S(m)) if kind_after_first is Py else Np(s.S(m), bits_after_first)
        pc1 = pc + [1 <= m, m < cb.n]
        if kind_after_first is Np:
            pc1.append(s.S(m) < maxval(bits_after_first))  # invariant: the value held is S(m), unwrapped
        e1[lname], e1[cname] = mk_len(m), Tok("key", i=m)
        self.iter_tag = "later"
        self.run(list(st.body), e1, pc1)
        self.check_iteration(ent.items[n0:], m, e1, pc1)
        if type(e1["ptr"]) is not kind_after_first:
            raise Unsupported("ptr changes kind between iterations")
        del ent.items[n0:]
        # after the loop
        env["ptr"] = Py(s.S(cb.n)) if kind_after_first is Py else Np(s.S(cb.n), bits_after_first)
        ent.items.append(("all", cb.n))

    def check_iteration(self, items, m, env, pc):
        s = self.sym
        tag = self.iter_tag
        self.named("loop1-inv-preserved-ptr@%s" % tag, "loop-inv-pres", pc, env["ptr"].v == s.S(m + 1))
        ok = len(items) >= 1
        self.named("loop1-stores-one-entry@%s" % tag, "post", pc, z3.BoolVal(ok))
        for key, val, ipc in items:
            if not (isinstance(key, Tok) and key.name == "key" and isinstance(val, NdArr) and isinstance(val.tag, tuple)):
                self.named("loop1-entry-shape@%s" % tag, "post", pc, z3.BoolVal(False))
                continue
            _, lo, hi, total = val.tag
            br = "" if len(items) == 1 else ("[uint32]" if val is items[0][1] else "[astype]")
            self.named("loop1-entry-key-is-key-m@%s%s" % (tag, br), "post", ipc, key.i == m)
            # python slicing clips silently: the slice is exactly rows S(m)..S(m+1) of the row-id field
            self.named("loop1-entry-slice-exact@%s%s" % (tag, br), "post", ipc, z3.And(lo == s.S(m), hi == s.S(m + 1), hi <= total, lo >= 0))
            self.named("loop1-entry-dtype-uint32@%s%s" % (tag, br), "post", ipc, val.dtype.itemsize == 4)


def run_load(fn, sym, torn=False):
    ex = LoadExec(sym, torn)
    pc = ex.requires()
    env = {"f": Tok("file")}
    ex.past_mmap_pc = None
    try:
        ex.run(list(fn.body), env, pc)
    except Unsupported as e:
        # what was generated up to the unsupported construct stands on its own (each obligation speaks about a prefix of
        # the execution): hand it to the caller together with the reason
        e.partial = ex
        raise
    s = sym
    if torn:
        # C12: no path may return, or even get past mmap, on a strict prefix
        for kind, opc in ex.outcomes:
            if kind == "return":
                ex.named("torn-no-returning-path", "post", opc, z3.BoolVal(False))
        if ex.past_mmap_pc is not None:
            ex.named("torn-nothing-continues-past-mmap", "post", ex.past_mmap_pc, z3.BoolVal(False))
        # each raising path is feasible for some k (the argument is not vacuous): canaries
        for j, (kind, opc) in enumerate(ex.outcomes):
            if kind.startswith("raise") and ("mmap length" in kind or "struct.error(unpack <Q)" in kind or "RuntimeError" in kind):
                ex.named("canary@%s#%d" % (kind.replace(" ", "-")[:40], j), "canary", opc, z3.BoolVal(False))
        return ex
    # intact file: no raising path is feasible, and the returned triple is the encoded data
    for j, (kind, opc) in enumerate(ex.outcomes):
        if kind.startswith("raise"):
            ex.named("raise-unreachable[%s]#%d" % (kind[6:46], j), "post", opc, z3.BoolVal(False), kind)
    if ex.returned is None:
        ex.named("post-returns", "post", pc, z3.BoolVal(False))
    else:
        val, rpc, renv = ex.returned
        ok = isinstance(val, TupleV) and len(val.items) == 3
        ex.named("post-returns-triple", "post", rpc, z3.BoolVal(bool(ok)))
        if ok:
            ent, common, dt = val.items
            ex.named("post-common", "post", rpc, common.v == s.c if isinstance(common, (Py, Np)) else z3.BoolVal(False))
            ex.named("post-common-is-python-int", "post", rpc, z3.BoolVal(isinstance(common, Py)))
            ex.named("post-rowid-dtype", "post", rpc, dt.itemsize == s.R if isinstance(dt, DType) else z3.BoolVal(False))
            good = isinstance(ent, Tok) and ent.name == "dict-under-construction" and ent.items and ent.items[-1][0] == "all"
            ex.named("post-entries-all-keys", "post", rpc, (ent.items[-1][1] == s.n) if good else z3.BoolVal(False))
    ex.named("canary@end", "canary", pc, z3.BoolVal(False))
    return ex
