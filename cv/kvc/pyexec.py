"""Engine A, scalar path executor: straight-line integer Python (if/elif/else ladders) -> paths.

Walks the *real* AST of a function (ast.parse of the working tree's .py at check time; nothing is
rewritten) whose parameters are Python ints, enumerates every syntactic path, and returns for each
path its condition (a z3 Bool over the parameters) and the *token* it returns (e.g. `numpy.int16`
inside `numpy.dtype(...)`, or a string constant).  Python `int` is a mathematical integer here
(that is Python's own semantics, not an approximation).

Subset: assignments to names, if/elif/else, return, integer constants, + - * ** (constant
exponent), unary minus, comparisons (chained), and/or/not, `isinstance(x, T)` on a parameter
declared int (=> False), attribute constants (`numpy.uint8`, ...) and `numpy.dtype(tok)` as tokens.
Anything else raises Unsupported (the sidecar no longer binds -> bounded fallback).
"""
import ast

import z3


class Unsupported(Exception):
    pass


class Tok:
    def __init__(self, name):
        self.name = name

    def __repr__(self):
        return "Tok(%s)" % self.name


class Path:
    def __init__(self, pc, ret, trail):
        self.pc = pc
        self.ret = ret
        self.trail = trail  # list of (if-ordinal in source order, taken) for stable path names


def get_function(tree, qualname):
    parts = qualname.split(".")
    node = tree
    for p in parts:
        found = None
        for ch in node.body:
            if isinstance(ch, (ast.FunctionDef, ast.ClassDef)) and ch.name == p:
                found = ch
        if found is None:
            raise Unsupported("function %s not found" % qualname)
        node = found
    return node


def paths(fn, params, int_params=None):
    """params: dict name -> z3 Int (or python default).  Returns list[Path]."""
    int_params = set(int_params or params)

    def ev(e, env):
        if isinstance(e, ast.Constant):
            if isinstance(e.value, bool):
                return z3.BoolVal(e.value)
            if isinstance(e.value, int):
                return z3.IntVal(e.value)
            if isinstance(e.value, str):
                return Tok(repr(e.value))
            raise Unsupported("constant %r" % (e.value,))
        if isinstance(e, ast.Name):
            if e.id in env:
                return env[e.id]
            raise Unsupported("unbound %s" % e.id)
        if isinstance(e, ast.UnaryOp) and isinstance(e.op, ast.USub):
            return -ev(e.operand, env)
        if isinstance(e, ast.UnaryOp) and isinstance(e.op, ast.Not):
            return z3.Not(ev(e.operand, env))
        if isinstance(e, ast.BinOp):
            a, b = ev(e.left, env), ev(e.right, env)
            if isinstance(a, Tok) or isinstance(b, Tok):
                raise Unsupported("arithmetic on token")
            if isinstance(e.op, ast.Add):
                return a + b
            if isinstance(e.op, ast.Sub):
                return a - b
            if isinstance(e.op, ast.Mult):
                return a * b
            if isinstance(e.op, ast.Pow):
                a, b = z3.simplify(a), z3.simplify(b)
                if z3.is_int_value(a) and z3.is_int_value(b) and b.as_long() >= 0:
                    return z3.IntVal(a.as_long() ** b.as_long())
                raise Unsupported("non-constant power")
            raise Unsupported("operator")
        if isinstance(e, ast.BoolOp):
            xs = [ev(x, env) for x in e.values]
            return z3.And(*xs) if isinstance(e.op, ast.And) else z3.Or(*xs)
        if isinstance(e, ast.Compare):
            xs = [ev(e.left, env)] + [ev(c, env) for c in e.comparators]
            out = []
            for (a, b), op in zip(zip(xs, xs[1:]), e.ops):
                if isinstance(a, Tok) or isinstance(b, Tok):
                    raise Unsupported("comparison of token")
                out.append({ast.Lt: a < b, ast.LtE: a <= b, ast.Gt: a > b, ast.GtE: a >= b, ast.Eq: a == b,
                            ast.NotEq: a != b}[type(op)])
            return z3.And(*out) if len(out) > 1 else out[0]
        if isinstance(e, ast.Attribute):
            return Tok(ast.unparse(e))
        if isinstance(e, ast.Call):
            f = ast.unparse(e.func)
            if f == "isinstance" and isinstance(e.args[0], ast.Name) and e.args[0].id in int_params:
                return z3.BoolVal(False)
            if f == "numpy.dtype" and len(e.args) == 1:
                t = ev(e.args[0], env)
                if isinstance(t, Tok):
                    return Tok("numpy.dtype(%s)" % t.name)
            raise Unsupported("call %s" % ast.unparse(e))
        raise Unsupported("expression %s" % ast.unparse(e))

    out = []
    ifs = [n for n in ast.walk(fn) if isinstance(n, ast.If)]
    ifs.sort(key=lambda n: (n.lineno, n.col_offset))
    ordinal = {id(n): i + 1 for i, n in enumerate(ifs)}

    def block(stmts, env, pc, trail):
        """returns list of (env, pc, trail) that fall through; appends returns to out."""
        states = [(env, pc, trail)]
        for s in stmts:
            nxt = []
            for env1, pc1, tr1 in states:
                nxt += stmt(s, dict(env1), list(pc1), list(tr1))
            states = nxt
        return states

    def stmt(s, env, pc, trail):
        if isinstance(s, ast.Expr) and isinstance(s.value, ast.Constant):
            return [(env, pc, trail)]
        if isinstance(s, ast.Pass):
            return [(env, pc, trail)]
        if isinstance(s, ast.Assign) and len(s.targets) == 1 and isinstance(s.targets[0], ast.Name):
            env[s.targets[0].id] = ev(s.value, env)
            return [(env, pc, trail)]
        if isinstance(s, ast.If):
            c = ev(s.test, env)
            if isinstance(c, Tok):
                raise Unsupported("token as condition")
            cs = z3.simplify(c)
            a = [] if z3.is_false(cs) else block(s.body, dict(env), pc + [c], trail + [(ordinal[id(s)], True)])
            b = [] if z3.is_true(cs) else block(s.orelse, dict(env), pc + [z3.Not(c)], trail + [(ordinal[id(s)], False)])
            return a + b
        if isinstance(s, ast.Return):
            out.append(Path(pc, ev(s.value, env) if s.value is not None else Tok("None"), trail))
            return []
        raise Unsupported("statement %s" % ast.dump(s)[:60])

    rest = block(fn.body, dict(params), [], [])
    for env1, pc1, tr1 in rest:
        out.append(Path(pc1, Tok("None"), tr1))
    return out


def feasible(pc, requires):
    s = z3.Solver()
    s.set("timeout", 10000)
    s.add(*requires)
    s.add(*pc)
    return s.check()
