"""Engine A, the recursion of ccube._walk (C14 proved part).

The real `_walk` (ast.parse of the working tree's ccubes.py) is executed symbolically, once per case of its
contract, and every obligation below is generated from that execution - nothing here restates the body.

Contract of `_walk(dims, base_coords, base_rowids, funcs)` (the induction hypothesis at its recursive calls, and
what is proved of its body; the induction is over len(dims), the call-requires obligation `dims strictly
shorter` makes it well founded):

  requires  len(dims) >= 1 or base_rowids is None;  base_rowids is None or strictly increasing uint32;
            the entries of every dimension are strictly increasing uint32 arrays (possibly empty: an explicit entry
            without rows must be skipped) under keys (k,) with k >= 0, and one axis per dimension;
  ensures   for EVERY coordinate tuple c = (c_0, ..., c_{n-1}) and every func of funcs, the number of calls
            func(base_coords + c, rows) made is
                1  if every c_i is a key of dims[i] or -1, and (base_rowids is not None or some c_i != -1),
                      and eff(c) is non-empty,
                0  otherwise,
            where eff(c) = [base_rowids intersected with] the intersection of dims[i][c_i] over the c_i != -1;
            the rows passed are exactly eff(c), strictly increasing; every call made has coordinates
            base_coords + (n further coordinates); nothing else is called.

Abstraction: a strictly increasing uint32 array is its element set (z3 Array Int -> Bool) plus the flag
`strictly increasing`; `set_intersect_merge_np` enters by the set-level reading of its contract, and that reading
is itself an obligation derived from the array-level FUNCTIONAL contract in contracts/kernels.py, which C08 proves
of the kernel (lemma `kernel-contract-gives-set-intersection`).

The target tuple is split as (c_0, R): c_0 an arbitrary integer, R an arbitrary tuple for the remaining
dimensions, of which only three facts are used: valid(R), allm(R) (all marginal), Rows(R) (with allm(R) => Rows(R)
is everything).  Coordinates are lists of segments (B = base_coords, R, or an integer term); two lists are compared
structurally, and a delivery whose list does not have the target's structure fails `coords-shape`.

Loop rule (assumed, as for the entry-wise updates of C06): `for coords, rowids in dims[0].items()` runs its body once
per key; the body is executed for one arbitrary key k, the obligation `only-own-key-contributes` shows that the
iteration for k delivers the target only when k == c_0, and the loop's contribution to the count is the body's
contribution at k := c_0 when c_0 is a key.  `for func in funcs` runs its body once per function.
"""
import ast
import itertools

import z3

from .kexec import Obl
from .spec import Arr, to_z3


class Unsupported(Exception):
    pass


IntS = z3.IntSort()
SetS = z3.SetSort(IntS)
Ent = z3.Function("Ent", IntS, SetS)  # element set of the entry under key (k,) of dims[0]
iskey = z3.Function("iskey", IntS, z3.BoolSort())
FULL = z3.FullSet(IntS)
EMPTY = z3.EmptySet(IntS)
KERNELS = {"set_intersect_merge_np": z3.SetIntersect, "set_union_merge_np": z3.SetUnion, "set_difference_merge_np": z3.SetDifference}
_ids = itertools.count()


class Rows:
    def __init__(self, s, inc):
        self.set, self.inc = s, inc


class Coords:
    def __init__(self, segs):
        self.segs = tuple(segs)


class DimsV:
    def __init__(self, off):
        self.off = off


class DimV:
    def __init__(self, off):
        self.off = off


class LenOf:
    def __init__(self, rows):
        self.rows = rows


class Items:
    def __init__(self, dim):
        self.dim = dim


class Token:
    def __init__(self, name):
        self.name = name

    def __repr__(self):
        return self.name


SELF, FUNCS, FUNC, WALK = Token("self"), Token("funcs"), Token("func"), Token("self._walk")


def find_method(tree, cls, name):
    for n in tree.body:
        if isinstance(n, ast.ClassDef) and n.name == cls:
            for m in n.body:
                if isinstance(m, ast.FunctionDef) and m.name == name:
                    return m
    raise Unsupported("%s.%s not found" % (cls, name))


def kernel_imports(tree):
    out = set()
    for n in tree.body:
        if isinstance(n, ast.ImportFrom) and (n.module or "").endswith("set_operations"):
            for a in n.names:
                if a.asname in (None, a.name):
                    out.add(a.name)
    return out


class WalkExec:
    def __init__(self, fn, tree, case_n, base_none):
        self.fn, self.case_n, self.base_none = fn, case_n, base_none
        self.kernels = kernel_imports(tree)
        a = [x.arg for x in fn.args.args]
        d = fn.args.defaults
        with_axis = len(a) == 6 and len(d) == 1 and isinstance(d[0], ast.Constant) and d[0].value == 0 and type(d[0].value) is int
        if not (len(a) == 5 and not d or with_axis) or fn.args.vararg or fn.args.kwarg or fn.args.kwonlyargs:
            raise Unsupported("_walk no longer takes (self, dims, base_coords, base_rowids, funcs[, axis=0])")
        # n = number of dimensions still to walk; with an axis parameter the list stays whole and `axis` dimensions of it are done
        self.n = z3.Int("n")
        self.axis = z3.Int("axis") if with_axis else z3.IntVal(0)
        self.hyps = [{"many": self.n > 1, "one": self.n == 1, "zero": self.n == 0}[case_n], self.axis >= 0]
        self.Base = z3.Const("Base", SetS)
        self.env0 = {a[0]: SELF, a[1]: DimsV(0), a[2]: Coords([("B",)]), a[3]: None if base_none else Rows(self.Base, z3.BoolVal(True)), a[4]: FUNCS}
        if with_axis:
            self.env0[a[5]] = self.axis
        self.with_axis = with_axis
        self.selfname = a[0]
        self.events = []
        self.requires = []  # (label, pc, goal)
        self.solver = z3.Solver()
        self.solver.set("timeout", 5000)
        # attributes of self that are only ever accumulated into (frame: not read by _walk)
        self.accum = set()
        reads = set()
        for node in ast.walk(fn):
            if isinstance(node, ast.AugAssign) and isinstance(node.target, ast.Attribute) and isinstance(node.target.value, ast.Name) and node.target.value.id == a[0]:
                self.accum.add(node.target.attr)
        for node in ast.walk(fn):
            if isinstance(node, ast.Attribute) and isinstance(node.value, ast.Name) and node.value.id == a[0] and isinstance(node.ctx, ast.Load):
                reads.add(node.attr)
        self.accum -= reads

    # ---------------------------------------------------------------- deciding conditions
    def implied(self, pc, c):
        s = self.solver
        s.push()
        s.add(*self.hyps, *pc, z3.Not(c))
        r = s.check()
        s.pop()
        return r == z3.unsat

    def truth(self, v):
        if v is None:
            return False
        if isinstance(v, bool):
            return v
        if isinstance(v, int):
            return v != 0
        if isinstance(v, DimsV):
            return self.n + self.axis - v.off > 0
        if isinstance(v, LenOf):
            return v.rows.set != EMPTY
        if isinstance(v, Coords):
            if all(not isinstance(s, tuple) for s in v.segs):
                return len(v.segs) > 0
            return self.coords_len(v) > 0
        if z3.is_bool(v):
            return v
        if z3.is_int(v):
            return v != 0
        raise Unsupported("truth value of %r" % (v,))

    def coords_len(self, v):
        """len of a coordinate tuple: abstract segments have unknown non-negative lengths"""
        total = z3.IntVal(0)
        for s_ in v.segs:
            if isinstance(s_, tuple):
                ln = z3.Int("len_%s" % s_[0])
                if not any(h.eq(ln >= 0) for h in self.hyps):
                    self.hyps.append(ln >= 0)
                total = total + ln
            else:
                total = total + 1
        return total

    # ---------------------------------------------------------------- expressions
    def ev(self, e, env, pc):
        if isinstance(e, ast.Constant):
            if e.value is None or isinstance(e.value, (bool, int)):
                return e.value
            raise Unsupported("constant %r" % (e.value,))
        if isinstance(e, ast.Name):
            if e.id in env:
                return env[e.id]
            if e.id in self.kernels or e.id == "len":
                return Token(e.id)
            raise Unsupported("unbound name %s" % e.id)
        if isinstance(e, ast.UnaryOp):
            v = self.ev(e.operand, env, pc)
            if isinstance(e.op, ast.USub) and isinstance(v, int) and not isinstance(v, bool):
                return -v
            if isinstance(e.op, ast.USub) and z3.is_int(v):
                return -v
            if isinstance(e.op, ast.Not):
                t = self.truth(v)
                return (not t) if isinstance(t, bool) else z3.Not(t)
            raise Unsupported(ast.unparse(e))
        if isinstance(e, ast.BoolOp):
            acc = []
            isand = isinstance(e.op, ast.And)
            for x in e.values:
                t = self.truth(self.ev(x, env, pc + ([z3.And(*acc)] if acc and isand else [z3.Not(z3.Or(*acc))] if acc else [])))
                if isinstance(t, bool):
                    if t != isand:
                        return t  # short circuit
                    continue
                acc.append(t)
            if not acc:
                return isand
            return z3.And(*acc) if isand else z3.Or(*acc)
        if isinstance(e, ast.Tuple):
            segs = []
            for x in e.elts:
                v = self.ev(x, env, pc)
                if isinstance(v, bool) or not (isinstance(v, int) or z3.is_int(v)):
                    raise Unsupported("tuple element %s" % ast.unparse(x))
                segs.append(z3.IntVal(v) if isinstance(v, int) else v)
            return Coords(segs)
        if isinstance(e, ast.BinOp):
            l, r = self.ev(e.left, env, pc), self.ev(e.right, env, pc)
            if isinstance(e.op, ast.Add) and isinstance(l, Coords) and isinstance(r, Coords):
                return Coords(l.segs + r.segs)
            num = lambda v: isinstance(v, LenOf) or z3.is_int(v) or (isinstance(v, int) and not isinstance(v, bool))  # noqa
            if num(l) and num(r):
                if isinstance(l, int) and isinstance(r, int):
                    if isinstance(e.op, ast.Add):
                        return l + r
                    if isinstance(e.op, ast.Sub):
                        return l - r
                    if isinstance(e.op, ast.Mult):
                        return l * r
                plain = lambda v: z3.is_int(v) or (isinstance(v, int) and not isinstance(v, bool))  # noqa
                if plain(l) and plain(r) and isinstance(e.op, (ast.Add, ast.Sub)):
                    return l + r if isinstance(e.op, ast.Add) else l - r
                if plain(l) and plain(r) and isinstance(e.op, ast.Mult) and (isinstance(l, int) or isinstance(r, int)):
                    return l * r
                if isinstance(e.op, (ast.Add, ast.Sub, ast.Mult)):
                    return z3.Int("num!%d" % next(_ids))  # a counter contribution: nothing below depends on it
            raise Unsupported(ast.unparse(e))
        if isinstance(e, ast.Subscript):
            v = self.ev(e.value, env, pc)
            if isinstance(v, DimsV):
                sl = e.slice
                if isinstance(sl, ast.Slice) and sl.upper is None and sl.step is None and isinstance(sl.lower, ast.Constant) and isinstance(sl.lower.value, int) and sl.lower.value >= 0:
                    if self.with_axis:
                        raise Unsupported("slicing dims in a _walk that also takes an axis")
                    return DimsV(v.off + sl.lower.value)
                if not isinstance(sl, ast.Slice):
                    i = self.ev(sl, env, pc)
                    if isinstance(i, bool) or not (isinstance(i, int) or z3.is_int(i)):
                        raise Unsupported(ast.unparse(e))
                    eff = z3.simplify(i + v.off - self.axis)  # position counted from the first dimension still to walk
                    if not z3.is_int_value(eff) or eff.as_long() < 0:
                        raise Unsupported("%s: not a fixed position among the dimensions still to walk" % ast.unparse(e))
                    if not self.implied(pc, self.n > eff.as_long()):
                        raise Unsupported("%s not known to exist" % ast.unparse(e))
                    return DimV(eff.as_long())
            raise Unsupported(ast.unparse(e))
        if isinstance(e, ast.Compare) and len(e.ops) == 1:
            l, r = self.ev(e.left, env, pc), self.ev(e.comparators[0], env, pc)
            op = e.ops[0]
            if isinstance(op, (ast.Is, ast.IsNot)):
                if r is None and (l is None or isinstance(l, Rows)):
                    res = l is None
                    return res if isinstance(op, ast.Is) else not res
                raise Unsupported(ast.unparse(e))
            def term(v):
                if isinstance(v, bool):
                    raise Unsupported(ast.unparse(e))
                if isinstance(v, int):
                    return z3.IntVal(v)
                if z3.is_int(v):
                    return v
                if isinstance(v, LenOf):
                    c = z3.Int("card!%d" % next(_ids))
                    self.hyps.append(z3.And(c >= 0, (c == 0) == (v.rows.set == EMPTY)))
                    return c
                raise Unsupported(ast.unparse(e))
            a, b = term(l), term(r)
            table = {ast.Gt: a > b, ast.GtE: a >= b, ast.Lt: a < b, ast.LtE: a <= b, ast.Eq: a == b, ast.NotEq: a != b}
            for k, v in table.items():
                if isinstance(op, k):
                    return v
            raise Unsupported(ast.unparse(e))
        if isinstance(e, ast.Call):
            return self.call(e, env, pc)
        if isinstance(e, ast.Attribute):
            v = self.ev(e.value, env, pc)
            if v is SELF and e.attr == self.fn.name:
                return WALK
            if isinstance(v, DimV) and e.attr == "items":
                return Token("items@%d" % v.off)
            raise Unsupported(ast.unparse(e))
        raise Unsupported(ast.unparse(e))

    def call(self, e, env, pc):
        if e.keywords:
            raise Unsupported("keywords in %s" % ast.unparse(e))
        f = self.ev(e.func, env, pc)
        args = [self.ev(a, env, pc) for a in e.args]
        src = ast.unparse(e)
        if isinstance(f, Token) and f.name == "len" and len(args) == 1:
            v = args[0]
            if isinstance(v, DimsV):
                return self.n + self.axis - v.off
            if isinstance(v, DimV):
                c = z3.Int("nkeys!%d" % next(_ids))
                self.hyps.append(c >= 0)
                return c
            if isinstance(v, Rows):
                return LenOf(v)
            if isinstance(v, Coords):
                return self.coords_len(v)
            raise Unsupported("len(%r) in %s" % (v, src))
        if isinstance(f, Token) and f.name.startswith("items@") and not args:
            return Items(DimV(int(f.name.split("@")[1])))
        if isinstance(f, Token) and f.name in KERNELS and len(args) == 2:
            l, r = args
            if not (isinstance(l, Rows) and isinstance(r, Rows)):
                raise Unsupported("%s on None" % src)
            k = len(self.requires) + 1
            self.requires.append(("call-requires#%d[%s: operands strictly increasing]" % (k, f.name), list(pc), z3.And(l.inc, r.inc)))
            return Rows(KERNELS[f.name](l.set, r.set), z3.BoolVal(True))
        if f is WALK and len(args) in ((4, 5) if self.with_axis else (4,)):
            ax = args[4] if len(args) == 5 else 0
            if isinstance(ax, bool) or not (isinstance(ax, int) or z3.is_int(ax)) or not isinstance(args[0], DimsV):
                raise Unsupported(src)
            eoff = z3.simplify(args[0].off + ax - self.axis)  # how many dimensions the callee skips, relative to this call
            eoff = eoff.as_long() if z3.is_int_value(eoff) else None
            if args[3] is not FUNCS:
                raise Unsupported("recursive call passes other callbacks: %s" % src)
            if not isinstance(args[0], DimsV) or not isinstance(args[1], Coords) or not (args[2] is None or isinstance(args[2], Rows)):
                raise Unsupported(src)
            self.events.append(dict(kind="call", pc=list(pc), key=env.get("!key"), dims=args[0], eoff=eoff, coords=args[1], rows=args[2], src=src, line=e.lineno))
            return None
        if f is FUNC and len(args) == 2:
            if not isinstance(args[0], Coords):
                raise Unsupported(src)
            self.events.append(dict(kind="deliver", pc=list(pc), key=env.get("!key"), coords=args[0], rows=args[1], src=src, line=e.lineno))
            return None
        raise Unsupported(src)

    # ---------------------------------------------------------------- statements
    def block(self, stmts, env, pc):
        """-> list of (env, pc) continuations"""
        states = [(env, pc)]
        for st in stmts:
            nxt = []
            for env_, pc_ in states:
                nxt += self.stmt(st, env_, pc_)
            states = nxt
        return states

    def stmt(self, st, env, pc):
        if isinstance(st, ast.Expr):
            if isinstance(st.value, ast.Constant) and isinstance(st.value.value, str):
                return [(env, pc)]
            self.ev(st.value, env, pc)
            return [(env, pc)]
        if isinstance(st, ast.Pass):
            return [(env, pc)]
        if isinstance(st, ast.Assign) and len(st.targets) == 1 and isinstance(st.targets[0], ast.Name):
            v = self.ev(st.value, env, pc)
            env = dict(env)
            env[st.targets[0].id] = v
            return [(env, pc)]
        if (isinstance(st, ast.Assign) and len(st.targets) == 1 and isinstance(st.targets[0], ast.Tuple) and isinstance(st.value, ast.Tuple)
                and len(st.targets[0].elts) == len(st.value.elts) and all(isinstance(x, ast.Name) for x in st.targets[0].elts)):
            vals = [self.ev(x, env, pc) for x in st.value.elts]
            env = dict(env)
            for x, v in zip(st.targets[0].elts, vals):
                env[x.id] = v
            return [(env, pc)]
        if isinstance(st, ast.AugAssign):
            t = st.target
            if isinstance(t, ast.Attribute) and isinstance(t.value, ast.Name) and t.value.id == self.selfname and t.attr in self.accum:
                self.ev(st.value, env, pc)  # must be evaluable (and free of events); the counter itself is outside the contract
                return [(env, pc)]
            raise Unsupported(ast.unparse(st))
        if isinstance(st, ast.If):
            c = self.truth(self.ev(st.test, env, pc))
            if isinstance(c, bool):
                return self.block(st.body if c else st.orelse, env, pc)
            if self.implied(pc, c):
                return self.block(st.body, env, pc)
            if self.implied(pc, z3.Not(c)):
                return self.block(st.orelse, env, pc)
            return self.block(st.body, env, pc + [c]) + self.block(st.orelse, env, pc + [z3.Not(c)])
        if isinstance(st, ast.For) and not st.orelse:
            it = self.ev(st.iter, env, pc)
            assigned = {n.id for b in st.body for n in ast.walk(b) if isinstance(n, ast.Name) and isinstance(n.ctx, ast.Store)}
            targets = {n.id for n in ast.walk(st.target) if isinstance(n, ast.Name)}
            if (assigned - targets) & set(env):
                raise Unsupported("loop body rebinds %s, which lives across iterations" % sorted((assigned - targets) & set(env)))
            if it is FUNCS and isinstance(st.target, ast.Name):
                env2 = dict(env)
                env2[st.target.id] = FUNC
                self.block(st.body, env2, pc)
                return [(env, pc)]
            if isinstance(it, Items) and it.dim.off == 0 and isinstance(st.target, ast.Tuple) and len(st.target.elts) == 2 and all(isinstance(x, ast.Name) for x in st.target.elts):
                if env.get("!key") is not None:
                    raise Unsupported("nested loops over entries")
                k = z3.Int("k!%d" % next(_ids))
                env2 = dict(env)
                env2["!key"] = k
                env2[st.target.elts[0].id] = Coords([k])
                env2[st.target.elts[1].id] = Rows(Ent(k), z3.BoolVal(True))
                self.block(st.body, env2, pc)
                return [(env, pc)]
            raise Unsupported("loop %s" % ast.unparse(st).splitlines()[0])
        if isinstance(st, ast.Return) and st.value is None:
            return []
        raise Unsupported(ast.unparse(st).splitlines()[0])

    # ---------------------------------------------------------------- obligations
    def run(self):
        self.block(self.fn.body, dict(self.env0), [])
        return self


def _match(segs, target):
    """structural comparison -> z3 Bool, or None when the structures differ"""
    if len(segs) != len(target):
        return None
    eqs = []
    for a, b in zip(segs, target):
        if isinstance(a, tuple) or isinstance(b, tuple):
            if not (isinstance(a, tuple) and isinstance(b, tuple) and a == b):
                return None
        else:
            eqs.append(a == b)
    return z3.And(*eqs) if eqs else z3.BoolVal(True)


def verify_walk(tree, module="ccubes.ccube"):
    fn = find_method(tree, "ccube", "_walk")
    obls = []
    c0 = z3.Int("c0")
    validR, allmR = z3.Bool("validR"), z3.Bool("allmR")
    RowsR = z3.Const("RowsR", SetS)
    for case_n, base_none in (("many", True), ("many", False), ("one", True), ("one", False), ("zero", True)):
        tag = "[%s-dims,%s]" % ({"many": "several", "one": "one", "zero": "no"}[case_n], "unrestricted" if base_none else "restricted")
        X = WalkExec(fn, tree, case_n, base_none).run()
        # keys are non-negative; an entry MAY be empty (an explicit entry without rows is matched by no row and must be skipped)
        hyps = list(X.hyps) + [z3.Implies(iskey(c0), c0 >= 0), z3.Implies(allmR, RowsR == FULL)]
        E0 = z3.If(c0 == -1, FULL, Ent(c0))
        if case_n == "many":
            target = (("B",), c0, ("R",))
            valid, allm, rows = z3.And(z3.Or(c0 == -1, iskey(c0)), validR), z3.And(c0 == -1, allmR), z3.SetIntersect(E0, RowsR)
        elif case_n == "one":
            target = (("B",), c0)
            valid, allm, rows = z3.Or(c0 == -1, iskey(c0)), c0 == -1, E0
        else:
            target = (("B",),)
            valid, allm, rows = z3.BoolVal(True), z3.BoolVal(True), FULL
        eff = rows if base_none else z3.SetIntersect(X.Base, rows)
        expected = z3.If(z3.And(valid, z3.Not(allm) if base_none else z3.BoolVal(True), eff != EMPTY), 1, 0)
        total_out, total_loop = [], []
        for i, ev in enumerate(X.events, 1):
            name = "%s._walk/%s@%d%s" % (module, ev["kind"], i, tag)
            k = ev["key"]
            pc = list(ev["pc"]) + ([iskey(k), k >= 0] if k is not None else [])
            sub = (lambda t: z3.substitute(t, (k, c0))) if k is not None else (lambda t: t)
            if ev["kind"] == "deliver":
                m = _match(ev["coords"].segs, target)
                obls.append(Obl(name + "/coords-shape", "call-requires", hyps + pc, z3.BoolVal(m is not None and isinstance(ev["rows"], Rows)),
                                {"site": ev["src"], "what": "a reachable callback call passes base_coords + (one coordinate per dimension) and an array"}))
                if m is None or not isinstance(ev["rows"], Rows):
                    continue
                cnt = z3.If(z3.And(*pc, m), 1, 0)
                got, cond = ev["rows"].set, z3.And(*pc, m)
                inc = ev["rows"].inc
            else:
                shape_ok = isinstance(ev["dims"], DimsV) and ev["eoff"] == 1 and len(ev["coords"].segs) == 2 and isinstance(ev["coords"].segs[0], tuple) and ev["coords"].segs[0] == ("B",) and not isinstance(ev["coords"].segs[1], tuple)
                obls.append(Obl(name + "/call-requires[strictly shorter dims, base_coords + one coordinate]", "call-requires", hyps + pc, z3.BoolVal(bool(shape_ok)), {"site": ev["src"]}))
                r_ = ev["rows"]
                obls.append(Obl(name + "/call-requires[rowids None or strictly increasing; None when no dims remain]", "call-requires", hyps + pc,
                                z3.And(r_.inc if r_ is not None else z3.BoolVal(True), z3.BoolVal(not (case_n == "one" and r_ is not None))), {"site": ev["src"]}))
                if not shape_ok:
                    continue
                if case_n != "many":
                    continue  # the callee has no dimensions and (by its contract, base None) delivers nothing
                x = ev["coords"].segs[1]
                ceff = RowsR if r_ is None else z3.SetIntersect(r_.set, RowsR)
                ccount = z3.If(z3.And(validR, z3.Not(allmR) if r_ is None else z3.BoolVal(True), ceff != EMPTY), 1, 0)
                cnt = z3.If(z3.And(*pc, x == c0), ccount, 0)
                got, cond, inc = ceff, z3.And(*pc, x == c0, ccount == 1), z3.BoolVal(True)
            if k is not None:
                obls.append(Obl(name + "/only-own-key-contributes", "post", hyps + [iskey(k), k >= 0, k != c0], cnt == 0, {"site": ev["src"]}))
                total_loop.append(sub(cnt))
            else:
                total_out.append(cnt)
            obls.append(Obl(name + "/delivered-rowids-are-exactly-the-matching-rows-strictly-increasing", "post", hyps + [sub(cond)], z3.And(sub(got) == eff, sub(inc)), {"site": ev["src"]}))
        for label, pc, goal in X.requires:
            obls.append(Obl("%s._walk/%s%s" % (module, label, tag), "call-requires", hyps + pc, goal, {}))
        total = z3.Sum([z3.IntVal(0)] + total_out) + z3.If(iskey(c0), z3.Sum([z3.IntVal(0)] + total_loop), 0)
        obls.append(Obl("%s._walk/post-every-combination-delivered-exactly-once-iff-matched-and-not-all-marginal%s" % (module, tag), "post", hyps, total == expected,
                        {"events": len(X.events)}))
        obls.append(Obl("%s._walk/canary%s" % (module, tag), "canary", hyps + ([expected == 1] if case_n != "zero" else []), z3.BoolVal(False)))
    return obls


def kernel_lemma(K):
    """The set-level reading used above follows from the array-level contract C08 proves of the kernel."""
    obls = []
    for kern, setop in (("set_intersect_merge_np", "and"),):
        c = K.CALLEES[kern]
        la, ra, out = (Arr(n, z3.Int("len_" + n)) for n in ("left_array", "right_array", "out"))
        x = z3.Int("x")
        names = {"left_array": la, "right_array": ra, "out": out, "x": x}
        pc = [a.len >= 0 for a in (la, ra, out)] + [to_z3(t, names, c.get("macros")) for t in c["requires"]] + [to_z3(t, names, c.get("macros")) for t in c["ensures"]]
        goal = to_z3("(mem(x, out, len(out)) == (mem(x, left_array, len(left_array)) %s mem(x, right_array, len(right_array)))) and inc(out, len(out))" % setop, names)
        obls.append(Obl("set_operations.%s/lemma-kernel-contract-gives-set-intersection" % kern, "post", pc, goal, {}))
        obls.append(Obl("set_operations.%s/lemma-canary" % kern, "canary", pc, z3.BoolVal(False)))
    return obls


def verify_entry_points(tree, module="ccubes.ccube"):
    """walk / interactions enter _walk with all dimensions, empty coordinates, no restriction, and hand on what
    the callbacks receive (syntactic obligations on the real ASTs)."""
    out = []
    walk = find_method(tree, "ccube", "walk")
    calls = [n for n in ast.walk(walk) if isinstance(n, ast.Call) and isinstance(n.func, ast.Attribute) and n.func.attr == "_walk"]
    ok = (len(calls) == 1 and len(calls[0].args) == 4 and not calls[0].keywords and ast.unparse(calls[0].args[0]) == "self.dims"
          and isinstance(calls[0].args[1], ast.Tuple) and not calls[0].args[1].elts and isinstance(calls[0].args[2], ast.Constant) and calls[0].args[2].value is None)
    if not ok:
        raise Unsupported("walk no longer enters _walk as _walk(self.dims, (), None, funcs)")
    out.append(Obl("%s.walk/call-requires[all dimensions, empty base coordinates, no restriction]" % module, "call-requires", [], z3.BoolVal(True), {"site": ast.unparse(calls[0])}))
    return out
