"""Concrete side of engine A for the kernels: replay, witness search, invariant traces.

* `replay(fn, args, variant)`      run the REAL compiled function (scratch build of the working tree;
                                   variant 'boundscheck' = same .pyx with boundscheck(True), which turns
                                   an out-of-bounds access into IndexError) and judge the outcome with the
                                   executable rendering of the same contract clauses.
* `search(fn, contract, variant)`  exhaustive small-scope run of the real function under the contract
                                   (used when a quantified obligation fails without a model).
* `trace_invariants(...)`          executes the *normalised* source with CPython on a witness set and
                                   evaluates every loop invariant at every loop head (vacuity / wrong-
                                   invariant guard) and records branch coverage.

Runs as a subprocess (`python -m cv.kvc.kwitness <json>`), because the bounds-checked build is a
different extension module with the same name.
"""
import ast
import itertools
import json
import sys

from .spec import SpecError, conjuncts, to_py

U32MAX = 2 ** 32 - 1
UNIVERSE = [0, 1, 2, 5, 9, U32MAX - 1, U32MAX]


def increasing_arrays(universe=UNIVERSE, maxlen=None):
    out = []
    for r in range(len(universe) + 1):
        if maxlen is not None and r > maxlen:
            break
        for c in itertools.combinations(universe, r):
            out.append(list(c))
    return out


def any_arrays(values=(0, 3, U32MAX), maxlen=3):
    out = []
    for r in range(maxlen + 1):
        for c in itertools.product(values, repeat=r):
            out.append(list(c))
    return out


def _np(a):
    import numpy

    return None if a is None else numpy.array(a, dtype=numpy.uint32)


def call_real(fname, args, variant="prod"):
    """args: list of (list|None|bool). Returns ('ok', list|None) or ('raise', repr)."""
    from .. import env

    env.import_catii(variant)
    from catii import set_operations as so
    import numpy

    f = getattr(so, fname)
    conv = [(_np(a) if isinstance(a, list) else a) for a in args]
    try:
        r = f(*conv)
    except Exception as e:  # noqa
        return "raise", "%s: %s" % (type(e).__name__, e), None
    if r is None:
        return "ok", None, None
    r = numpy.asarray(r)
    return "ok", [int(x) for x in r.tolist()], str(r.dtype)


def judge(contract, params, args, outcome):
    """Evaluate requires/ensures (executable rendering) for one concrete call.
    Returns (requires_hold, [failed ensures conjuncts])."""
    env = {}
    for p, a in zip(params, args):
        kind = contract.get("params", {}).get(p, "array")
        if kind in ("array", "array_or_none"):
            env[p + "_none"] = a is None
            env[p] = [] if a is None else a
        else:
            env[p] = a
    macros = contract.get("macros", {})
    for r in contract["requires"]:
        if not to_py(r, env, macros):
            return False, []
    status, out, dtype = outcome
    if status == "raise":
        return True, ["<raised %s>" % out]
    env["out_none"] = out is None
    env["out"] = [] if out is None else out
    failed = []
    if out is not None and dtype != "uint32":
        failed.append("<result dtype %s is not uint32>" % dtype)
    for cl in contract["ensures"]:
        for part in conjuncts(cl, macros):
            try:
                ok = to_py(part, env, macros)
            except SpecError as e:
                ok = False
                part = part + "  [%s]" % e
            if not ok:
                failed.append(part)
    return True, failed


def dense_pairs():
    """Second witness family (longer operands): one operand is a contiguous run, or a run with one hole, of up to
    24 values; the other has 1-2 values around / inside it - both orientations.  Reaches code that only engages on
    long runs (block skips, unrolled steps)."""
    lo, hi = 100, 124
    runs = []
    for a in range(lo, hi + 1, 1):
        for b in range(a + 1, hi + 1):
            if (b - a) in (1, 2, 3, 7, 8, 9, 10, 15, 16, 17, 24) or b == hi:
                runs.append(list(range(a, b)))
    holes = []
    for r in runs:
        if len(r) >= 9:
            for h in (1, len(r) // 2, len(r) - 2):
                holes.append(r[:h] + r[h + 1:])
    small = [[x] for x in range(lo - 2, hi + 2)] + [[x, y] for x in range(lo - 1, hi + 1, 3) for y in range(x + 1, hi + 2, 4)]
    long_ = runs[:: max(1, len(runs) // 160)] + holes[:: max(1, len(holes) // 60)]
    for s_ in small:
        for l_ in long_:
            yield s_, l_
            yield l_, s_
    # lopsided operands (lengths differing by more than 32x / 64x): code paths that narrow the long operand
    for n_long in (40, 70, 140):
        base = list(range(1000, 1000 + 3 * n_long, 3))
        for short in ([base[0]], [base[-1]], [base[n_long // 2]], [base[0] - 1], [base[-1] + 1], [base[3] + 1],
                      [base[0], base[-1]], [base[1], base[-1]], [base[0] - 1, base[-1]], [base[5], base[-1] + 2], [base[-2], base[-1]]):
            if len(short) * 32 < n_long:
                yield short, base
                yield base, short


def block_pairs():
    """Third witness family (operands of 33 .. 1100 elements against 1-2 elements): EVERY position of the long operand, and the
    gaps next to it, is tried as the short operand's value, so that any block skip / leap / unrolled step of up to ~290
    elements that lands on, before or after an equal element is exercised; pairs at block-sized distances; a 1100-element
    operand at the positions around every power of two."""
    for n in (33, 65, 130, 300):
        for step in (1, 3):
            base = list(range(1000, 1000 + step * n, step))
            shorts = [[v] for v in base] + [[base[0] - 1], [base[-1] + 1]]
            if step > 1:
                shorts += [[v + 1] for v in base]
            for i in (0, 1, n // 3):
                for d in (1, 31, 32, 33, 63, 64, 65, 127, 128, 129, 255, 256, 257):
                    if i + d < n:
                        shorts.append([base[i], base[i + d]])
                        if step > 1:
                            shorts.append([base[i] + 1, base[i + d]])
                            shorts.append([base[i], base[i + d] + 1])
            for s_ in shorts:
                yield s_, base
                yield base, s_
    base = list(range(5000, 5000 + 2 * 1100, 2))
    pos = sorted({p for k in range(0, 11) for p in (2 ** k - 1, 2 ** k, 2 ** k + 1) if p < 1100} | {0, 999, 1000, 1001, 1098, 1099})
    for i in pos:
        for s_ in ([base[i]], [base[i] + 1], [base[0], base[i]], [base[i], base[-1]]):
            if s_ == sorted(set(s_)):
                yield s_, base
                yield base, s_


def search(fname, contract, params, variant="prod", scope="increasing", limit=3):
    """Exhaustive small scope (plus the dense family). Returns (n_calls, n_in_requires, [hits])."""
    arrs = increasing_arrays() if scope == "increasing" else any_arrays() + increasing_arrays(maxlen=2)
    kinds = [contract.get("params", {}).get(p, "array") for p in params]
    domains = []
    for k in kinds:
        if k == "array":
            domains.append(arrs)
        elif k == "array_or_none":
            domains.append([None] + arrs)
        elif k == "bool":
            domains.append([False, True])
    hits, n, nreq = [], 0, 0
    narr = [i for i, k in enumerate(kinds) if k in ("array", "array_or_none")]
    extra = []
    if len(narr) == 2:
        for a, b in itertools.chain(dense_pairs(), block_pairs()):
            base = [False] * len(kinds)
            base[narr[0]], base[narr[1]] = a, b
            extra.append(tuple(base))
    for args in itertools.chain(itertools.product(*domains), extra):
        args = list(args)
        n += 1
        outcome = call_real(fname, args, variant)
        ok_req, failed = judge(contract, params, args, outcome)
        if not ok_req:
            continue
        nreq += 1
        if failed:
            hits.append({"args": args, "outcome": list(outcome), "failed": failed})
            if len(hits) >= limit:
                break
    return n, nreq, hits


# --------------------------------------------------------------------------- invariant traces


class _Instr(ast.NodeTransformer):
    """Insert invariant checks at loop heads and hit markers at the start of every block."""

    def __init__(self, loops):
        self.loops = loops
        self.nmark = 0
        self.marks = {}

    def mark(self, body, what, lineno):
        self.nmark += 1
        self.marks[self.nmark] = "%s@L%d" % (what, lineno)
        call = ast.Expr(ast.Call(ast.Name("__cv_hit__", ast.Load()), [ast.Constant(self.nmark)], []))
        return [call] + body

    def visit_While(self, node):
        k = self.loops.index(node) + 1
        self.generic_visit(node)
        head = ast.Call(ast.Name("__cv_inv__", ast.Load()), [ast.Constant(k), ast.Call(ast.Name("locals", ast.Load()), [], [])], [])
        node.test = ast.BoolOp(ast.And(), [head, node.test])
        node.body = self.mark(node.body, "loop%d-body" % k, node.lineno)
        return node

    def visit_If(self, node):
        self.generic_visit(node)
        if isinstance(node.test, ast.Constant):
            return node
        node.body = self.mark(node.body, "if-true", node.lineno)
        if node.orelse:
            node.orelse = self.mark(node.orelse, "if-false", node.lineno)
        else:
            node.orelse = self.mark([ast.Pass()], "if-false(implicit)", node.lineno)
        return node


def many_ghosts(loc):
    """Concrete values of the sidecar's ghost symbols for set_union_merge_many, from the locals of a real run."""
    va = loc.get("value_arrays")
    if va is None:
        return {}
    lens = [len(a) for a in va]
    cs = [0]
    for x in lens:
        cs.append(cs[-1] + x)
    K = len(va)
    CS = lambda a: cs[a] if 0 <= a <= K else cs[-1] + (a - K)  # noqa
    return {
        "K": K, "L": lambda a: lens[a], "CS": CS, "E": lambda a, i: int(va[a][i]),
        "psum": lambda P, j: sum(int(P[a]) - CS(a) for a in range(j)),
        "seg_ok": lambda P: all(CS(a) <= int(P[a]) <= CS(a + 1) for a in range(K)),
    }


def trace_invariants(norm_text, fname, contract, witnesses, ghosts=None):
    """Execute the normalised source of `fname` on each witness; check invariants at loop heads.
    Returns dict(evaluations=, failures=[...], unhit=[...], results=[...])."""
    import numpy

    tree = ast.parse(norm_text)
    fn = [f for f in tree.body if isinstance(f, ast.FunctionDef) and f.name == fname][0]
    loops = [n for n in ast.walk(fn) if isinstance(n, (ast.While, ast.For))]
    loops.sort(key=lambda n: (n.lineno, n.col_offset))
    ins = _Instr(loops)
    fn2 = ins.visit(fn)
    mod = ast.Module(body=[fn2], type_ignores=[])
    ast.fix_missing_locations(mod)
    hits = set()
    failures = []
    evals = [0]
    macros = contract.get("macros", {})

    def cv_hit(i):
        hits.add(i)

    def cv_inv(k, loc):
        env = {}
        for name, v in loc.items():
            if isinstance(v, numpy.ndarray):
                env[name] = [int(x) for x in v.tolist()]
            elif isinstance(v, (int, numpy.integer)):
                env[name] = int(v)
        if ghosts is not None:
            env.update(ghosts(loc))
        inv = contract["loops"][k]
        for cl in ([inv] if isinstance(inv, str) else inv):
            for part in conjuncts(cl, macros):
                evals[0] += 1
                try:
                    ok = to_py(part, env, macros)
                except SpecError as e:
                    ok = False
                    part += "  [%s]" % e
                if not ok and len(failures) < 5:
                    failures.append({"loop": k, "clause": part,
                                     "state": {a: b for a, b in env.items() if not a.startswith("__")}})
        return True

    glob = {"numpy": numpy, "__cv_hit__": cv_hit, "__cv_inv__": cv_inv, "min": min, "max": max, "len": len}
    exec(compile(mod, "<normalised %s>" % fname, "exec"), glob)
    f = glob[fname]
    results = []
    old = numpy.seterr(over="ignore")
    try:
        for args in witnesses:
            conv = [([numpy.array(x, dtype=numpy.uint32) for x in a] if (a and isinstance(a[0], list)) or (ghosts is not None)
                     else numpy.array(a, dtype=numpy.uint32)) for a in args]
            try:
                r = f(*conv)
            except Exception as e:  # the normalised source run by CPython raised (e.g. IndexError)
                if len(failures) < 5:
                    failures.append({"witness": list(args), "exception": "%s: %s" % (type(e).__name__, e)})
                results.append("raised")
                continue
            results.append(None if r is None else [int(x) for x in numpy.asarray(r).tolist()])
    finally:
        numpy.seterr(**old)
    unhit = [ins.marks[i] for i in sorted(set(ins.marks) - hits)]
    return {"evaluations": evals[0], "failures": failures, "unhit": unhit, "results": results,
            "markers": len(ins.marks)}


MANY_UNIVERSE = [0, 1, 5, U32MAX - 1, U32MAX]


def search_many(variant="prod", maxk=3, limit=3):
    """Bounded stand-in for set_union_merge_many (NOT proved): every list of <= maxk strictly increasing
    arrays over a 5-value universe that includes 0 and 2**32-1, empty arrays and the empty list included.
    Contract: result is the strictly increasing uint32 union of all of them."""
    from .. import env

    env.import_catii(variant)
    from catii import set_operations as so
    import numpy

    arrs = increasing_arrays(MANY_UNIVERSE)
    n = 0
    hits = []
    for k in range(0, maxk + 1):
        for combo in itertools.product(arrs, repeat=k):
            n += 1
            want = sorted(set().union(*[set(c) for c in combo])) if combo else []
            try:
                r = so.set_union_merge_many([numpy.array(c, dtype=numpy.uint32) for c in combo])
                got = [int(x) for x in numpy.asarray(r).tolist()]
                ok = got == want and numpy.asarray(r).dtype == numpy.uint32
                out = got
            except Exception as e:  # noqa
                ok, out = False, "raised %s: %s" % (type(e).__name__, e)
            if not ok:
                hits.append({"args": [list(c) for c in combo], "outcome": out, "expected": want,
                             "class": _many_class(combo, out, want)})
                if len(hits) >= 400:
                    return n, hits
    return n, hits


def _many_class(combo, out, want):
    if not combo or all(len(c) == 0 for c in combo):
        return "no-values"
    if isinstance(out, str):
        return "raises"
    if len(out) != len(set(out)):
        return "duplicates-kept"
    if any(U32MAX in c for c in combo) and not out:
        return "sentinel-wraps-at-2**32-1"
    if len([c for c in combo if c]) >= 3:
        return "three-or-more-arrays"
    return "other"


def main():
    req = json.load(sys.stdin)
    sys.path.insert(0, req.get("verif", "/verif"))
    import importlib

    K = importlib.import_module("contracts.kernels")
    if req["op"] == "search_many":
        n, hits = search_many(req.get("variant", "prod"), req.get("maxk", 3))
        json.dump({"calls": n, "hits": hits}, sys.stdout)
        return
    table = getattr(K, req["table"])
    contract = table[req["fname"]]
    params = req["params"]
    if req["op"] == "replay":
        outcome = call_real(req["fname"], req["args"], req.get("variant", "prod"))
        ok_req, failed = judge(contract, params, req["args"], outcome)
        json.dump({"requires": ok_req, "failed": failed, "outcome": list(outcome)}, sys.stdout)
    elif req["op"] == "search":
        n, nreq, hits = search(req["fname"], contract, params, req.get("variant", "prod"), req.get("scope", "increasing"))
        json.dump({"calls": n, "in_requires": nreq, "hits": hits}, sys.stdout)
    else:
        raise SystemExit("unknown op")


if __name__ == "__main__":
    main()
