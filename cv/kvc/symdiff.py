"""Marginal differencing on SYMBOLIC cell contents (C02; discharges, for bounded shapes, the assumption the
cell-wise obligations of C04 rest on).

The REAL `ccube._compute_common_cells_from_marginal_diffs` (scratch import of the working tree, not an
AST model) is run on an object-dtype region whose cells are z3 integer terms: NumPy's slicing,
subtraction and `.sum(axis)` then build, by operator overloading, the exact expression the function
computes for every cell.  For every shape in scope (1..3 dimensions quick / 4 thorough, extents 1..3,
every choice of common value per dimension, with and without scaffold axes):

  precondition   region[c] = T(c) at every cell whose coordinates are all uncommon-or-margin, 0 at every cell
                 with a coordinate equal to that dimension's common value, where T is an ARBITRARY additive table:
                 T(c) for marginless c is a free symbol u_c, a margin coordinate sums over that axis
  obligation     after the call, region[c] == u_c for every marginless cell c     (z3, linear integer arithmetic)
                 and every margin cell still holds its marginal total

So the result is proved for ALL cell contents (any counts, sums or counters - additivity is all that is used)
but only for the enumerated shapes: universal in data, bounded in shape.
"""
import itertools
import time

import numpy as np
import z3


def configs(tier):
    maxd = 4 if tier == "thorough" else 3
    for nd in range(1, maxd + 1):
        exts = [1, 2, 3] if nd <= 2 else ([1, 2] if nd == 4 else [1, 2, 3])
        for extent in itertools.product(exts, repeat=nd):
            if nd == 3 and sum(extent) > 7:
                continue
            for commons in itertools.product(*[range(e) for e in extent]):
                yield (), extent, commons
    # with scaffold axes (dimensions carrying extra axes)
    for extent, commons in (((2,), (1,)), ((2, 2), (0, 1)), ((3, 2), (2, 0))):
        yield (2,), extent, commons
        yield (2, 3), extent, commons


class Stale(Exception):
    """the private function the obligations are generated from is not there under its name"""


def run(tier):
    from .. import env

    env.import_catii()
    from catii import ccube, iindex

    if not callable(getattr(ccube, "_compute_common_cells_from_marginal_diffs", None)):
        raise Stale("ccube has no method _compute_common_cells_from_marginal_diffs")

    results = []
    t0 = time.time()
    for scaffold, extent, commons in configs(tier):
        nd = len(extent)
        # dims: empty 1-D indexes with the right common (only .common, .shape[1:] are read by the function);
        # scaffold axes are attached to the first dimension
        dims = []
        for i, c in enumerate(commons):
            shape = (0,) + (tuple(scaffold) if i == 0 else ())
            dims.append(iindex({}, int(c), shape))
        cube = ccube(dims, interacting_shape=tuple(extent))
        wshape = tuple(scaffold) + tuple(e + 1 for e in extent)
        U = {}
        region = np.empty(wshape, dtype=object)
        for sc in itertools.product(*[range(s) for s in scaffold]):
            # the additive table T over the working block of this scaffold cell
            def T(c, sc=sc):
                free = [i for i, x in enumerate(c) if x == extent[i]]
                if not free:
                    return U.setdefault((sc, c), z3.Int("u_%s_%s" % ("_".join(map(str, sc)), "_".join(map(str, c)))))
                i = free[0]
                return z3.Sum([T(c[:i] + (v,) + c[i + 1:]) for v in range(extent[i])]) if extent[i] else z3.IntVal(0)

            for c in itertools.product(*[range(e + 1) for e in extent]):
                ok = all(x == extent[i] or x != commons[i] for i, x in enumerate(c))
                region[sc + c] = T(c) if ok else z3.IntVal(0)
        name = "ccubes.ccube._compute_common_cells_from_marginal_diffs/symbolic-contents[scaffold=%s,extents=%s,commons=%s]" % (
            list(scaffold), list(extent), list(commons))
        try:
            cube._compute_common_cells_from_marginal_diffs(region)
        except Exception as e:  # noqa
            results.append((name, "error", "%s: %s" % (type(e).__name__, e)))
            continue
        bad = None
        for sc in itertools.product(*[range(s) for s in scaffold]):
            def T2(c, sc=sc):
                free = [i for i, x in enumerate(c) if x == extent[i]]
                if not free:
                    return U[(sc, c)]
                i = free[0]
                return z3.Sum([T2(c[:i] + (v,) + c[i + 1:]) for v in range(extent[i])])

            for c in itertools.product(*[range(e + 1) for e in extent]):
                got = region[sc + c]
                want = T2(c)
                s = z3.Solver()
                s.add(got != want)
                if s.check() != z3.unsat:
                    bad = (sc, c, str(z3.simplify(got))[:120], str(z3.simplify(want))[:120])
                    break
            if bad:
                break
        results.append((name, "unsat" if not bad else "sat", bad))
    return results, time.time() - t0
