"""Cell-wise `reduce` obligations (engine A) for C04 (all kinds) and C18 (stddev)."""
import ast
import time

import z3

from .. import core, env
from . import cellexec as CX


def _solve(hyps, goal):
    s = z3.Solver()
    s.set("timeout", 30000)
    s.add(*hyps)
    s.add(z3.Not(goal))
    t0 = time.time()
    r = s.check()
    model = None
    if r == z3.sat:
        m = s.model()
        model = {}
        for d in m.decls():
            if d.arity() == 0:
                v = m[d]
                model[d.name()] = v.as_long() if z3.is_int_value(v) else str(v)
    return str(r), time.time() - t0, model


def generate(kinds=None):
    """Returns list of (name, verdict, seconds, model, meta) and stale list."""
    from contracts import reduce as R

    V, M = z3.Ints("V M")
    Wv, S = z3.Reals("Wv S")
    out, stale, fns = [], [], {}
    trees = {}
    for mod, cls, weighted_variants, regions, kind in R.TARGETS:
        if kinds and kind not in kinds:
            continue
        if mod not in trees:
            src = env.read_source(mod + ".py")
            trees[mod] = (src, ast.parse(src))
        src, tree = trees[mod]
        try:
            fn = CX.get_method(tree, cls, "reduce")
        except CX.Unsupported as e:
            stale.append(("%s.%s.reduce" % (mod, cls), str(e)))
            continue
        qual = "%s.%s.reduce" % (mod, cls)
        fns[qual] = {"source_sha256": env.sha(ast.get_source_segment(src, fn))}
        for ignore in (False, True):
            for unweighted in (True, False):
                base = [V >= 0, M >= 0, Wv >= 0, z3.Implies(V == 0, Wv == 0)]
                if unweighted:
                    base.append(Wv == z3.ToReal(V))
                sem = {
                    "V": V, "M": M, "Wv": Wv, "S": S,
                    "RowsOrWeighted": z3.ToReal(V + M) if unweighted else S,
                    "VorWv": z3.ToReal(V) if unweighted else Wv,
                    "VifIgnoreElseRows": V if ignore else V + M,
                }
                if kind == "count" and unweighted:
                    base.append(M == 0)  # an unweighted count has no fact and no weight: no row can be missing
                if kind == "count" and not unweighted:
                    # weighted count: the counts region is the weighted count of the valid-weight rows
                    base.append(z3.Implies(V == 0, S == 0))
                if kind == "valid_count":
                    base.append(z3.Implies(V == 0, S == 0))
                    if unweighted:
                        base.append(S == z3.ToReal(V))
                rows = V + M
                rule = z3.Or(rows == 0, (V == 0) if ignore else (M > 0))
                if kind == "mean":
                    rule = z3.Or(rule, Wv == 0)
                if kind == "stddev":
                    rule = z3.Or(rule, V < 2)
                results = {}
                for fmt in ("nan", "tuple", "plain"):
                    if kind == "valid_count" and fmt == "plain":
                        # excluded by the property under propagation (documented shortcut); under `ignore` the plain
                        # path carries no flag (value-only: partial count, 0 for no valid rows) - checked below by value
                        continue
                    tag = "[%s,%s,%s]" % ("ignore" if ignore else "propagate", "unweighted" if unweighted else "weighted", fmt)
                    cells = {k: sem[v] for k, v in regions.items()}
                    try:
                        val, miss = CX.run_reduce(fn, {"ignore": ignore, "fmt": fmt, "unweighted": unweighted}, cells)
                    except CX.Unsupported as e:
                        stale.append((qual + tag, str(e)))
                        continue
                    results[fmt] = (val, miss)
                    r, secs, model = _solve(base, miss == rule)
                    out.append(("%s/missing-flag-equals-rule%s" % (qual, tag), r, secs, model,
                                {"class": cls, "module": mod, "kind": kind, "ignore": ignore, "unweighted": unweighted, "fmt": fmt}))
                fmts = list(results)
                for a, b in zip(fmts, fmts[1:]):
                    tag = "[%s,%s,%s/%s]" % ("ignore" if ignore else "propagate", "unweighted" if unweighted else "weighted", a, b)
                    r, secs, model = _solve(base, results[a][1] == results[b][1])
                    out.append(("%s/formats-agree-on-missing%s" % (qual, tag), r, secs, model,
                                {"class": cls, "module": mod, "kind": kind, "ignore": ignore, "unweighted": unweighted, "fmt": a + "/" + b}))
                    r, secs, model = _solve(base + [z3.Not(results[a][1])], results[a][0] == results[b][0])
                    out.append(("%s/formats-agree-on-values%s" % (qual, tag), r, secs, model,
                                {"class": cls, "module": mod, "kind": kind, "ignore": ignore, "unweighted": unweighted, "fmt": a + "/" + b}))
    return out, stale, fns


def generate_agree():
    """C03 at the level of one cell: the real `reduce` of the index-cube class and of the array-cube class of the same
    aggregate, executed on the SAME cell symbols (V, M, Wv, S - the meaning of the regions is the sidecar's, checked on
    real fills by the bounded part), give the same missing flag and, where not missing, the same value, and that value is
    the direct per-cell aggregate (count: rows or weighted count; valid_count / sum: S; mean: S / Wv).
    -> (list of (name, verdict, seconds, model, meta), stale, functions)"""
    from contracts import reduce as R

    V, M = z3.Ints("V M")
    Wv, S = z3.Reals("Wv S")
    out, stale, fns, trees = [], [], {}, {}
    by_kind = {}
    for mod, cls, _, regions, kind in R.TARGETS:
        by_kind.setdefault(kind, {})[mod] = (cls, regions)
    for kind, pair in by_kind.items():
        if set(pair) != {"ffuncs", "xfuncs"}:
            continue
        methods = {}
        for mod, (cls, regions) in pair.items():
            if mod not in trees:
                src = env.read_source(mod + ".py")
                trees[mod] = (src, ast.parse(src))
            src, tree = trees[mod]
            try:
                fn = CX.get_method(tree, cls, "reduce")
            except CX.Unsupported as e:
                stale.append(("%s.%s.reduce" % (mod, cls), str(e)))
                continue
            methods[mod] = (fn, regions, cls)
            fns["%s.%s.reduce" % (mod, cls)] = {"source_sha256": env.sha(ast.get_source_segment(src, fn))}
        if len(methods) != 2:
            continue
        for ignore in (False, True):
            for unweighted in (True, False):
                base = [V >= 0, M >= 0, Wv >= 0, z3.Implies(V == 0, Wv == 0)]
                if unweighted:
                    base.append(Wv == z3.ToReal(V))
                sem = {"V": V, "M": M, "Wv": Wv, "S": S, "RowsOrWeighted": z3.ToReal(V + M) if unweighted else S,
                       "VorWv": z3.ToReal(V) if unweighted else Wv, "VifIgnoreElseRows": V if ignore else V + M}
                if kind == "count" and unweighted:
                    base.append(M == 0)
                if kind in ("count", "valid_count") and not (kind == "count" and unweighted):
                    base.append(z3.Implies(V == 0, S == 0))
                if kind == "valid_count" and unweighted:
                    base.append(S == z3.ToReal(V))
                direct = {"count": sem["RowsOrWeighted"], "valid_count": S, "sum": S, "mean": S / Wv}[kind]
                for fmt in ("nan", "tuple"):
                    tag = "[%s,%s,%s,%s]" % (kind, "ignore" if ignore else "propagate", "unweighted" if unweighted else "weighted", fmt)
                    res = {}
                    for mod, (fn, regions, cls) in methods.items():
                        try:
                            res[mod] = CX.run_reduce(fn, {"ignore": ignore, "fmt": fmt, "unweighted": unweighted}, {k: sem[v] for k, v in regions.items()})
                        except CX.Unsupported as e:
                            stale.append(("%s.%s.reduce%s" % (mod, cls, tag), str(e)))
                    if len(res) != 2:
                        continue
                    (vf, mf), (vx, mx) = res["ffuncs"], res["xfuncs"]
                    meta = {"class": methods["ffuncs"][2] + "/" + methods["xfuncs"][2], "module": "ffuncs", "kind": kind, "ignore": ignore, "unweighted": unweighted, "fmt": fmt}
                    for nm, hy, goal in (("cube-types-agree-on-missing", base, mf == mx),
                                         ("cube-types-agree-on-value", base + [z3.Not(mf), z3.Not(mx)], vf == vx),
                                         ("index-cube-value-is-direct-per-cell-aggregate", base + [z3.Not(mf)], vf == direct),
                                         ("array-cube-value-is-direct-per-cell-aggregate", base + [z3.Not(mx)], vx == direct)):
                        r, secs, model = _solve(hy, goal)
                        out.append(("reduce/%s%s" % (nm, tag), r, secs, model, dict(meta, module="xfuncs" if nm.startswith("array") else "ffuncs")))
    return out, stale, fns


def replay_agree(meta, model):
    """One-dimension cube whose cell 1 has V valid and M missing rows: both cube types and the direct computation."""
    import numpy as np

    env.import_catii()
    from catii import ccube, xcube
    from ..rtc.speclib import mk

    V, M = int(model.get("V", 0)), int(model.get("M", 0))
    if V + M > 64:
        return None, None
    n = V + M
    dense = np.array([1] * n + [0], dtype=np.int64)
    fact = np.array([2.0 + i for i in range(V)] + [np.nan] * M + [1.0])
    kind, ignore, unweighted = meta["kind"], meta["ignore"], meta["unweighted"]
    weights = None if unweighted else np.array([1.5 + 0.25 * i for i in range(n)] + [1.0])
    fmt = float("nan") if meta["fmt"] == "nan" else (-7.0, False)
    w = 1.0 if weights is None else weights[:V]
    direct = {"count": float(n) if unweighted else float(np.sum(w)) if True else None, "valid_count": float(V) if unweighted else float(np.sum(w)),
              "sum": float(np.sum(fact[:V] * w)), "mean": float(np.sum(fact[:V] * w) / (V if unweighted else np.sum(w))) if V else float("nan")}[kind]
    if kind == "count" and not unweighted:
        wc = np.array([1.5 + 0.25 * i for i in range(V)] + [np.nan] * M + [1.0])
        direct = float(np.sum(wc[:V]))
    got = {}
    for name, C in (("ccube", ccube([mk(dense, 0)], (2,))), ("xcube", xcube([dense], (2,)))):
        try:
            if kind == "count":
                res = C.count(weights=None if unweighted else wc, ignore_missing=ignore, return_missing_as=fmt)
            else:
                res = getattr(C, kind)(fact, weights=weights, ignore_missing=ignore, return_missing_as=fmt)
        except Exception as e:  # noqa
            return "%s raised %s: %s" % (name, type(e).__name__, e), {"V": V, "M": M}
        if isinstance(res, tuple):
            got[name] = (float(res[0][1]), not bool(res[1][1]))
        else:
            got[name] = (float(res[1]), bool(np.isnan(res[1])))
    desc = {"dense": dense.tolist(), "fact": [None if x != x else x for x in fact.tolist()], "weights": None if weights is None else weights.tolist(),
            "aggregate": kind, "ignore_missing": ignore, "cell": 1, "return_missing_as": meta["fmt"]}
    (vf, mf), (vx, mx) = got["ccube"], got["xcube"]
    close = lambda a, b: abs(a - b) <= 1e-9 * max(1.0, abs(b))  # noqa
    if mf != mx or (not mf and not close(vf, vx)) or (not mf and not close(vf, direct)) or (not mx and not close(vx, direct)):
        return "cell with %d valid and %d missing rows: index cube (value, missing) %r, array cube %r, direct value %r" % (V, M, got["ccube"], got["xcube"], direct), desc
    return None, None


def run_agree(ctx, prop="C03"):
    out, stale, fns = generate_agree()
    if not out and not stale:
        raise core.CheckerBroken("zero cell-wise agreement obligations")
    bad = [o for o in out if o[1] != "unsat"]
    for name, r, secs, model, meta in bad[:4]:
        if r != "sat" or model is None:
            raise core.Undecided("%s came back %s" % (name, r))
        what, inp = replay_agree(meta, model)
        ctx.violation(core.Violation(prop, name, "cell-wise obligation refuted by z3 with model %r%s" % (
            {k: v for k, v in model.items() if k in ("V", "M", "Wv", "S")}, "; replayed on the real cube: " + what if what else ""),
            input=inp, cls=dict(meta), solver={"model": model}, no_input=inp is None))
    n = len(out)
    return {"cellwise_obligations": n, "cellwise_discharged": n - len(bad), "cellwise_stale": stale, "cellwise_functions": fns,
            "cellwise_solver_s": round(sum(o[2] for o in out), 3), "cellwise_samples": [{"obligation": o[0], "verdict": o[1]} for o in out[:: max(1, n // 8)]][:10]}


def replay(meta, model):
    """Build a one-dimension cube whose cell 1 has V valid and M missing rows and evaluate the real aggregate
    under the configuration of the failed obligation. Returns failure text or None."""
    import numpy as np

    env.import_catii()
    from catii import ccube, xcube
    from ..rtc.speclib import mk

    V, M = int(model.get("V", 0)), int(model.get("M", 0))
    if V + M > 64:
        return None, None
    n = V + M
    dense = np.array([1] * n + [0], dtype=np.int64)  # cell 1 is the cell of interest, cell 0 has one valid row
    fact = np.array([2.0] * V + [np.nan] * M + [1.0])
    kind, ignore, unweighted, cls = meta["kind"], meta["ignore"], meta["unweighted"], meta["class"]
    weights = None if unweighted else np.array([1.5] * n + [1.0])
    cube = mk(dense, 0) if meta["module"] == "ffuncs" else None
    C = ccube([cube], (2,)) if cube is not None else xcube([dense], (2,))
    rows = n
    want_missing = rows == 0 or ((V == 0) if ignore else (M > 0)) or (kind == "stddev" and V < 2)
    outs = {}
    for name, fmt in (("nan", float("nan")), ("tuple", (-7.0, False)), ("plain", 0)):
        if kind == "valid_count" and fmt == 0:
            continue
        try:
            if kind == "count":
                w = None if unweighted else (np.array([1.5] * V + [np.nan] * M + [1.0]))
                res = C.count(weights=w, ignore_missing=ignore, return_missing_as=fmt)
            else:
                res = getattr(C, kind)(fact, weights=weights, ignore_missing=ignore, return_missing_as=fmt)
        except Exception as e:  # noqa
            return "raised %s: %s" % (type(e).__name__, e), {"V": V, "M": M}
        if isinstance(res, tuple):
            miss = not bool(res[1][1])
        elif name == "nan":
            miss = bool(np.isnan(res[1]))
        else:
            miss = bool(res[1] == 0)
        outs[name] = miss
    desc = {"dense": dense.tolist(), "fact": [None if x != x else x for x in fact.tolist()], "weights": None if weights is None else weights.tolist(),
            "aggregate": kind, "cube": "ccube" if cube is not None else "xcube", "ignore_missing": ignore, "cell": 1}
    bad = [k for k, v in outs.items() if v != want_missing and not (k == "plain" and kind in ("sum", "valid_count", "count"))]
    if bad or len({v for k, v in outs.items() if k != "plain"}) > 1:
        return "cell with %d valid and %d missing rows: reported missing %r, rule says %r" % (V, M, outs, want_missing), desc
    return None, None


def run(ctx, prop, kinds=None):
    out, stale, fns = generate(kinds)
    n = len(out)
    if n == 0 and not stale:
        raise core.CheckerBroken("zero cell-wise obligations")
    bad = [o for o in out if o[1] != "unsat"]
    seen = set()
    for name, r, secs, model, meta in bad:
        if r != "sat" or model is None:
            raise core.Undecided("%s came back %s" % (name, r))
        key = (meta["class"], meta["ignore"], meta["unweighted"])
        if key in seen:
            continue
        seen.add(key)
        what, inp = replay(meta, model)
        if what is None:
            ctx.violation(core.Violation(prop, name, "cell-wise obligation refuted by z3 with model %r; the model does not replay on a 1-D cube "
                                         "(the counters of the real fill may not take these values)" % ({k: v for k, v in model.items() if k in ("V", "M", "Wv", "S")},),
                                         input=None, cls=dict(meta), solver={"model": model}, no_input=True))
        else:
            ctx.violation(core.Violation(prop, name, "cell-wise obligation refuted (model %r) and replayed on the real cube: %s"
                                         % ({k: v for k, v in model.items() if k in ("V", "M", "Wv", "S")}, what), input=inp, cls=dict(meta)))
    return {
        "cellwise_obligations": n, "cellwise_discharged": n - len(bad), "cellwise_stale": stale, "cellwise_functions": fns,
        "cellwise_solver_s": round(sum(o[2] for o in out), 3),
        "cellwise_samples": [{"obligation": o[0], "verdict": o[1]} for o in out[:: max(1, n // 8)]][:10],
    }
