"""Engine A for C15's equality half: `iindex.__eq__` / `__ne__` against canonical equality.

The RETURN EXPRESSION of the real `__eq__` (ast of the working tree) is translated, node by node, into an
SMT-LIB formula over an abstract pair of indexes:

    shapeA, shapeB : Int (opaque shape identities)      cA, cB : Int (common values)
    KA, KB : (Set Int)  finite sets of key identities    RA, RB : (Array Int (Set Int))  row-id sets per key

    self.shape == other.shape            ->  (= shapeA shapeB)
    self.common == other.common          ->  (= cA cB)
    len(self) == len(other)              ->  (= (set.card KA) (set.card KB))
    all(<test> for coords, rowids in self.items())                  ->  forall k in KA. <test>[coords := k, rowids := RA[k]]
    len(numpy.setxor1d(X, Y)) == 0       ->  (= X Y)      (library axiom: setxor1d is the symmetric difference of the two
                                                            arrays taken as sets; probed)
    other.get(coords, [])                ->  (ite (set.member k KB) (select RB k) empty)
    A and B / A or B / not A             ->  and / or / not

Two obligations, discharged by cvc5 (finite sets with cardinality):

  __eq__/body-implies-canonical   wf(A) and wf(B) and BODY  =>  shape, common equal and KA = KB and RA = RB on KA
  __eq__/canonical-implies-body   the converse
  (wf: every stored entry is non-empty - that is what makes `other.get(k, [])` distinguishable from a stored entry)

A third obligation (z3): under well-formedness the entries are a function of (shape, common, dense view), so equal
triples have equal entries and conversely (`entries-determined-by-view`).  `__ne__` must be the negation of `__eq__`
(structural obligation on its AST).  Together: (a == b) iff shape, common and dense content coincide, for ALL
well-formed indexes; != is its negation and cannot raise.
"""
import ast
import os
import subprocess
import tempfile
import time

import z3


class Unsupported(Exception):
    pass


def _method(tree, name):
    for n in tree.body:
        if isinstance(n, ast.ClassDef) and n.name == "iindex":
            for m in n.body:
                if isinstance(m, ast.FunctionDef) and m.name == name:
                    return m
    return None


INST = [None]  # when set to a constant name, `all(...)` is rendered as its instance at that constant (a weaker hypothesis)


def translate_eq(fn, inst=None):
    """SMT-LIB term for the value __eq__ returns on two iindex operands."""
    INST[0] = inst
    body = [s for s in fn.body if not (isinstance(s, ast.Expr) and isinstance(s.value, ast.Constant))]
    if len(body) == 1 and isinstance(body[0], ast.Try):
        tr = body[0]
        # the handler only matters for non-index operands (AttributeError); it must return False
        for h in tr.handlers:
            if not (len(h.body) == 1 and isinstance(h.body[0], ast.Return) and isinstance(h.body[0].value, ast.Constant) and h.body[0].value.value is False):
                raise Unsupported("__eq__: handler does not return False")
        body = tr.body
    if len(body) != 1 or not isinstance(body[0], ast.Return):
        raise Unsupported("__eq__: body is not a single return")
    return _tr(body[0].value, {})


def _tr(e, binds):
    if isinstance(e, ast.BoolOp):
        op = "and" if isinstance(e.op, ast.And) else "or"
        return "(%s %s)" % (op, " ".join(_tr(v, binds) for v in e.values))
    if isinstance(e, ast.UnaryOp) and isinstance(e.op, ast.Not):
        return "(not %s)" % _tr(e.operand, binds)
    if isinstance(e, ast.Compare) and len(e.ops) == 1 and isinstance(e.ops[0], (ast.Eq, ast.NotEq)):
        l, r = e.left, e.comparators[0]
        lt, rt = ast.unparse(l).replace(" ", ""), ast.unparse(r).replace(" ", "")
        # len(setxor1d(X, Y)) == 0
        if isinstance(l, ast.Call) and ast.unparse(l.func) == "len" and isinstance(l.args[0], ast.Call) \
                and ast.unparse(l.args[0].func) == "numpy.setxor1d" and rt == "0":
            x, y = (_set(a, binds) for a in l.args[0].args)
            t = "(= %s %s)" % (x, y)
        else:
            t = "(= %s %s)" % (_scalar(l, binds), _scalar(r, binds))
        return t if isinstance(e.ops[0], ast.Eq) else "(not %s)" % t
    if isinstance(e, ast.Call) and ast.unparse(e.func) == "all" and len(e.args) == 1 and isinstance(e.args[0], ast.GeneratorExp):
        g = e.args[0]
        if len(g.generators) != 1 or g.generators[0].ifs:
            raise Unsupported("generator form")
        gen = g.generators[0]
        it = ast.unparse(gen.iter).replace(" ", "")
        if it not in ("self.items()", "other.items()") or not isinstance(gen.target, ast.Tuple) or len(gen.target.elts) != 2:
            raise Unsupported("iteration %s" % it)
        side = "A" if it.startswith("self") else "B"
        b = dict(binds)
        b[gen.target.elts[0].id] = ("key", "k")
        b[gen.target.elts[1].id] = ("rows", side, "k")
        if INST[0]:
            b[gen.target.elts[0].id] = ("key", INST[0])
            b[gen.target.elts[1].id] = ("rows", side, INST[0])
            return "(=> (set.member %s K%s) %s)" % (INST[0], side, _tr(g.elt, b))
        return "(forall ((k Int)) (=> (set.member k K%s) %s))" % (side, _tr(g.elt, b))
    raise Unsupported("expression %s" % ast.unparse(e)[:80])


def _scalar(e, binds):
    t = ast.unparse(e).replace(" ", "")
    table = {"self.shape": "shapeA", "other.shape": "shapeB", "self.common": "cA", "other.common": "cB",
             "len(self)": "(set.card KA)", "len(other)": "(set.card KB)"}
    if t in table:
        return table[t]
    if isinstance(e, ast.Constant) and isinstance(e.value, int):
        return str(e.value)
    raise Unsupported("scalar %s" % t)


def _set(e, binds):
    t = ast.unparse(e).replace(" ", "")
    if isinstance(e, ast.Name) and binds.get(e.id, (None,))[0] == "rows":
        _, side, k = binds[e.id]
        return "(select R%s %s)" % (side, k)
    for side, other in (("self", "A"), ("other", "B")):
        if isinstance(e, ast.Call) and ast.unparse(e.func) == side + ".get" and len(e.args) == 2 and ast.unparse(e.args[1]) == "[]":
            kb = binds.get(ast.unparse(e.args[0]))
            if kb and kb[0] == "key":
                return "(ite (set.member %s K%s) (select R%s %s) (as set.empty (Set Int)))" % (kb[1], other, other, kb[1])
        if isinstance(e, ast.Subscript) and ast.unparse(e.value) == side:
            kb = binds.get(ast.unparse(e.slice))
            if kb and kb[0] == "key":
                return "(select R%s %s)" % (other, kb[1])
    raise Unsupported("set-valued expression %s" % t)


PRELUDE = """(set-logic ALL)
(declare-fun shapeA () Int) (declare-fun shapeB () Int) (declare-fun cA () Int) (declare-fun cB () Int)
(declare-fun KA () (Set Int)) (declare-fun KB () (Set Int))
(declare-fun RA () (Array Int (Set Int))) (declare-fun RB () (Array Int (Set Int)))
(define-fun wf () Bool (and (forall ((k Int)) (=> (set.member k KA) (not (= (select RA k) (as set.empty (Set Int))))))
                            (forall ((k Int)) (=> (set.member k KB) (not (= (select RB k) (as set.empty (Set Int))))))))
(define-fun canonical () Bool (and (= shapeA shapeB) (= cA cB) (= KA KB) (forall ((k Int)) (=> (set.member k KA) (= (select RA k) (select RB k))))))
"""


def cvc5_check(assertions, timeout_s=60, decls=""):
    text = PRELUDE + decls + "\n" + "\n".join("(assert %s)" % a for a in assertions) + "\n(check-sat)\n"
    with tempfile.NamedTemporaryFile("w", suffix=".smt2", delete=False) as f:
        f.write(text)
        path = f.name
    t0 = time.time()
    try:
        r = subprocess.run(["/usr/bin/cvc5", "--tlimit=%d" % (timeout_s * 1000), path], capture_output=True, text=True, timeout=timeout_s + 10)
        out = (r.stdout or "").strip().splitlines()
        verdict = out[0].strip() if out else "unknown"
        return (verdict if verdict in ("sat", "unsat", "unknown") else "unknown"), time.time() - t0, (r.stdout + r.stderr)[-300:]
    except subprocess.TimeoutExpired:
        return "unknown", time.time() - t0, "timeout"
    finally:
        os.unlink(path)


def view_lemma():
    """Under wf (exclusive rows per column, nothing under common) the entries are determined by (common, dense view)."""
    R, V, H = z3.IntSort(), z3.IntSort(), z3.IntSort()
    inA = z3.Function("inA", V, H, R, z3.BoolSort())
    inB = z3.Function("inB", V, H, R, z3.BoolSort())
    viewA = z3.Function("viewA", R, H, V)
    viewB = z3.Function("viewB", R, H, V)
    c = z3.Int("c")
    v, v2, h, r = z3.Ints("v v2 h r")

    def wf(inX, viewX):
        return z3.And(
            z3.ForAll([v, v2, h, r], z3.Implies(z3.And(inX(v, h, r), inX(v2, h, r)), v == v2)),  # exclusive
            z3.ForAll([h, r], z3.Not(inX(c, h, r))),  # nothing listed under the common value
            # abstraction function: the view holds v where row r is listed under v, the common value elsewhere
            z3.ForAll([v, h, r], z3.Implies(inX(v, h, r), viewX(r, h) == v)),
            z3.ForAll([h, r], z3.Implies(z3.Not(z3.Exists([v], inX(v, h, r))), viewX(r, h) == c)),
        )

    hyp = [wf(inA, viewA), wf(inB, viewB)]
    same_view = z3.ForAll([r, h], viewA(r, h) == viewB(r, h))
    same_entries = z3.ForAll([v, h, r], inA(v, h, r) == inB(v, h, r))
    out = {}
    for name, pre, goal in (("entries-determined-by-view", same_view, same_entries), ("view-determined-by-entries", same_entries, same_view)):
        s = z3.Solver()
        s.set("timeout", 60000)
        s.add(*hyp)
        s.add(pre)
        s.add(z3.Not(goal))
        t0 = time.time()
        out[name] = (str(s.check()), round(time.time() - t0, 2))
    s = z3.Solver()
    s.set("timeout", 5000)
    s.add(*hyp)
    out["canary-hypotheses-consistent"] = (str(s.check()), 0.0)
    return out


def probe_setxor1d():
    import numpy as np

    a = np.array([1, 4, 9], dtype=np.uint32)
    return (len(np.setxor1d(a, np.array([1, 4, 9], dtype=np.uint32))) == 0 and len(np.setxor1d(a, [])) == 3
            and len(np.setxor1d(a, np.array([1, 4], dtype=np.uint32))) == 1 and len(np.setxor1d(np.array([], dtype=np.uint32), [])) == 0)


def run(tree):
    """Returns (list of (name, verdict, seconds, detail), stale list)."""
    res, stale = [], []
    fn = _method(tree, "__eq__")
    if fn is None:
        return res, [("iindex.__eq__", "not found")]
    try:
        body = translate_eq(fn)
    except Unsupported as e:
        return res, [("iindex.__eq__", str(e))]
    # body => canonical, decomposed into quantifier-free steps over Skolem constants (cvc5's finite sets with cardinality
    # answer `unknown` on the quantified form): the universally quantified hypotheses (wf, the all(...) of the body) are
    # instantiated at the Skolem constant of each step, which only weakens them
    k0 = "(declare-fun k0 () Int)"
    body0 = translate_eq(fn, inst="k0")
    wf0 = "(and (=> (set.member k0 KA) (not (= (select RA k0) (as set.empty (Set Int))))) (=> (set.member k0 KB) (not (= (select RB k0) (as set.empty (Set Int))))))"
    steps = [
        ("step0-shape-and-common", [body0, "(not (and (= shapeA shapeB) (= cA cB)))"]),
        ("step1-keys-of-self-are-keys-of-other", [wf0, body0, "(set.member k0 KA)", "(not (set.member k0 KB))"]),
        ("step2-subset-with-equal-cardinality-is-equality", ["(set.subset KA KB)", "(= (set.card KA) (set.card KB))", "(not (= KA KB))"]),
        ("step3-entries-equal-key-by-key", [wf0, body0, "(= KA KB)", "(set.member k0 KA)", "(not (= (select RA k0) (select RB k0)))"]),
        ("step1b-body-states-equal-cardinality", [body0, "(not (= (set.card KA) (set.card KB)))"]),
    ]
    for nm, asserts in steps:
        v, t, d = cvc5_check([k0.replace("(declare-fun k0 () Int)", "true")] + asserts, decls=k0)
        res.append(("iindexes.iindex.__eq__/body-implies-canonical-equality/" + nm, v, t, d))
    v, t, d = cvc5_check(["wf", "canonical", "(not %s)" % body])
    res.append(("iindexes.iindex.__eq__/canonical-equality-implies-body", v, t, d))
    v, t, d = cvc5_check([wf0, body0, "(set.member k0 KA)"], decls=k0)
    res.append(("iindexes.iindex.__eq__/canary-hypotheses-satisfiable", "unsat" if v == "sat" else ("sat" if v == "unsat" else v), t, d))
    # __ne__ is the negation of __eq__
    ne = _method(tree, "__ne__")
    ok = False
    if ne is not None:
        b = [s for s in ne.body if not (isinstance(s, ast.Expr) and isinstance(s.value, ast.Constant))]
        if len(b) == 1 and isinstance(b[0], ast.Return):
            t_ = ast.unparse(b[0].value).replace(" ", "")
            ok = t_ in ("notself.__eq__(other)", "notself==other", "not(self==other)")
    res.append(("iindexes.iindex.__ne__/is-negation-of-__eq__", "unsat" if ok else "sat", 0.0, "" if ok else "no __ne__ defined as `not self.__eq__(other)`"))
    for name, (verdict, secs) in view_lemma().items():
        if name.startswith("canary"):
            res.append(("iindexes.iindex/wf-" + name, "unsat" if verdict != "unsat" else "sat", secs, ""))
        else:
            res.append(("iindexes.iindex/wf-" + name, verdict, secs, ""))
    return res, stale
